#!/usr/bin/env python3
"""Foreign DEFLATE codec coprocess (python zlib) for C12.
Protocol (one request per line, hex payloads):
  I <hex>                 -> raw inflate (wbits=-15), tolerant of a stream that ends at a block boundary
  D <level> <hex>,<hex>.. -> raw deflate of the parts with Z_SYNC_FLUSH after each part
Answer: "OK <hex>" or "ERR <message>".
"""
import sys, zlib, binascii
for line in sys.stdin:
    line = line.strip()
    if not line:
        continue
    try:
        f = line.split(" ")
        if f[0] == "I":
            data = binascii.unhexlify(f[1]) if len(f) > 1 else b""
            d = zlib.decompressobj(-15)
            out = d.decompress(data)
            out += d.flush()
            print("OK " + binascii.hexlify(out).decode() + " " + str(len(d.unused_data)), flush=True)
        elif f[0] == "D":
            level = int(f[1])
            parts = f[2].split(",") if len(f) > 2 else [""]
            c = zlib.compressobj(level, zlib.DEFLATED, -15)
            out = b""
            for p in parts:
                out += c.compress(binascii.unhexlify(p))
                out += c.flush(zlib.Z_SYNC_FLUSH)
            print("OK " + binascii.hexlify(out).decode(), flush=True)
        elif f[0] == "PING":
            print("OK", flush=True)
        else:
            print("ERR bad command", flush=True)
    except Exception as e:
        print("ERR " + str(e).replace("\n", " "), flush=True)
