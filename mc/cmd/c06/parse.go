package main

import (
	"verifmc/drivers"
	"verifmc/refmodel"
)

func parse(b []byte) ([]refmodel.Frame, []byte) { return drivers.ParseFrames(b) }
