// overlaygen rewrites exactly two import specs of <repo>/dialer.go ("context" and "time")
// to the verifshim packages and emits a go build -overlay file. It is regenerated from the
// working tree on every run; a missing import is a hard error.
package main

import (
	"encoding/json"
	"flag"
	"fmt"
	"go/ast"
	"go/format"
	"go/parser"
	"go/token"
	"os"
	"path/filepath"
	"strconv"
)

func main() {
	repo := flag.String("repo", "/repo", "repository root")
	out := flag.String("out", "", "output directory")
	flag.Parse()
	if *out == "" {
		fmt.Fprintln(os.Stderr, "overlaygen: -out required")
		os.Exit(2)
	}
	src := filepath.Join(*repo, "dialer.go")
	fset := token.NewFileSet()
	f, err := parser.ParseFile(fset, src, nil, parser.ParseComments)
	if err != nil {
		fmt.Fprintln(os.Stderr, "overlaygen:", err)
		os.Exit(2)
	}
	want := map[string]string{"context": "verifshim/vctx", "time": "verifshim/vtime"}
	done := map[string]bool{}
	for _, im := range f.Imports {
		p, _ := strconv.Unquote(im.Path.Value)
		if to, ok := want[p]; ok {
			if im.Name != nil {
				fmt.Fprintf(os.Stderr, "overlaygen: import %q is renamed in dialer.go; not supported\n", p)
				os.Exit(2)
			}
			im.Name = ast.NewIdent(p)
			im.Path.Value = strconv.Quote(to)
			done[p] = true
		}
	}
	for p := range want {
		if !done[p] {
			fmt.Fprintf(os.Stderr, "overlaygen: dialer.go does not import %q\n", p)
			os.Exit(2)
		}
	}
	if err := os.MkdirAll(*out, 0o755); err != nil {
		fmt.Fprintln(os.Stderr, "overlaygen:", err)
		os.Exit(2)
	}
	dst := filepath.Join(*out, "dialer.go")
	w, err := os.Create(dst)
	if err != nil {
		fmt.Fprintln(os.Stderr, "overlaygen:", err)
		os.Exit(2)
	}
	if err := format.Node(w, fset, f); err != nil {
		fmt.Fprintln(os.Stderr, "overlaygen:", err)
		os.Exit(2)
	}
	w.Close()
	ov := map[string]map[string]string{"Replace": {src: dst}}
	data, _ := json.MarshalIndent(ov, "", " ")
	if err := os.WriteFile(filepath.Join(*out, "overlay.json"), data, 0o644); err != nil {
		fmt.Fprintln(os.Stderr, "overlaygen:", err)
		os.Exit(2)
	}
}
