package hs

import (
	"bufio"
	"bytes"
	"errors"
	"fmt"
	"io"
	"net"
	"net/http"
	"strings"
	"time"

	"github.com/gobwas/httphead"
	"github.com/gobwas/ws"
	"github.com/gobwas/ws/wsflate"
)

// SrvCfg is an upgrader configuration (each dimension: variant 0 = nil / not configured).
var SrvFields = []Field{
	{"proto", []string{"nil", "all", "b", "none", "custom-all", "custom-b", "sel-equal-b", "sel-slice-b", "sel-bigslice-b"}},
	{"ext", []string{"nil", "all", "none", "custom-all", "negotiate-echo", "negotiate-decline", "negotiate-error", "negotiate-pmd", "negotiate-error-x", "negotiate-error-y", "custom-alias", "negotiate-redirect"}},
	{"header", []string{"nil", "one", "bytes", "http", "func-long", "func-long-fails"}},
	{"onrequest", []string{"nil", "ok", "err", "reject403", "err-list", "err-bytes", "reject403-live", "redirect307", "reject451-status-only", "reject-no-options"}},
	{"onhost", []string{"nil", "ok", "err", "reject403", "err-list", "err-bytes"}},
	{"onheader", []string{"nil", "ok", "err", "reject403", "err-list", "err-bytes"}},
	{"onbefore", []string{"nil", "ok", "err", "reject403", "ok-header", "err-list", "err-bytes", "reject403-live", "reject451-status-only"}},
}

type SrvCfg []int

func (c SrvCfg) V(name string) string {
	for i, f := range SrvFields {
		if f.Name == name {
			return f.Variants[c[i]]
		}
	}
	panic("no field " + name)
}

func (c SrvCfg) String() string {
	var parts []string
	for i, f := range SrvFields {
		if c[i] != 0 {
			parts = append(parts, f.Name+"="+f.Variants[c[i]])
		}
	}
	if len(parts) == 0 {
		return "default"
	}
	return strings.Join(parts, " ")
}

var ErrCallback = errors.New("callback says no")

func RejectErr() error {
	return ws.RejectConnectionError(ws.RejectionStatus(403), ws.RejectionReason("forbidden by callback"),
		ws.RejectionHeader(ws.HandshakeHeaderString("X-Reject: yes\r\n")))
}

func cbErr(kind string) error {
	switch kind {
	case "err":
		return ErrCallback
	case "reject403":
		return RejectErr()
	case "err-list":
		return ErrList{"first problem", "second problem"}
	case "err-bytes":
		return ErrBytes
	case "redirect307":
		return RedirectErr()
	case "reject451-status-only":
		// a rejection that names a status and nothing else: no reason, no headers
		return ws.RejectConnectionError(ws.RejectionStatus(451))
	case "reject-no-options":
		return ws.RejectConnectionError()
	}
	return nil
}

// RedirectErr refuses the handshake with a status below 400: a redirect (RFC 6455 4.1 lets a
// server answer with one), Location in the extra headers.
func RedirectErr() error {
	return ws.RejectConnectionError(ws.RejectionStatus(307), ws.RejectionReason("moved for the moment"),
		ws.RejectionHeader(ws.HandshakeHeaderString("Location: wss://elsewhere.example/chat\r\n")))
}

// ErrBytes is an error whose text echoes bytes received from the peer: not valid UTF-8 in places,
// multi-byte characters in others. The body of the error response is that text, byte for byte.
var ErrBytes = errors.New("refused: header value \"\xff\xfe\xc3(\x80\" is not acceptable \u2014 caf\u00e9 \u20ac")

// ErrList is an error whose dynamic type is not comparable (a slice), as validation code
// that collects several problems returns.
type ErrList []string

func (e ErrList) Error() string { return strings.Join(e, "; ") }

func acceptProto(kind string) func(string) bool {
	switch kind {
	case "all", "custom-all":
		return func(string) bool { return true }
	case "b", "custom-b":
		return func(p string) bool { return p == "b" }
	case "none":
		return func(string) bool { return false }
	case "sel-equal-b":
		return ws.SelectEqual("b")
	case "sel-slice-b":
		return ws.SelectFromSlice([]string{"x", "b", "y"})
	case "sel-bigslice-b":
		// more than 16 entries: the helper switches to a map
		var many []string
		for i := 0; i < 20; i++ {
			many = append(many, fmt.Sprintf("zz%02d", i))
		}
		return ws.SelectFromSlice(append(many, "b"))
	}
	return nil
}

// Upgrader builds a ws.Upgrader for the configuration.
func (c SrvCfg) Upgrader() ws.Upgrader {
	var u ws.Upgrader
	switch p := c.V("proto"); p {
	case "all", "b", "none", "sel-equal-b", "sel-slice-b", "sel-bigslice-b":
		f := acceptProto(p)
		u.Protocol = func(b []byte) bool { return f(string(b)) }
	case "custom-all", "custom-b":
		f := acceptProto(p)
		u.ProtocolCustom = func(v []byte) (string, bool) {
			var sel string
			ok := httphead.ScanTokens(v, func(t []byte) bool {
				if f(string(t)) {
					sel = string(t)
					return false
				}
				return true
			})
			return sel, ok
		}
	}
	switch c.V("ext") {
	case "all":
		u.Extension = func(httphead.Option) bool { return true }
	case "none":
		u.Extension = func(httphead.Option) bool { return false }
	case "custom-all":
		u.ExtensionCustom = func(v []byte, dst []httphead.Option) ([]httphead.Option, bool) {
			s := httphead.OptionSelector{Flags: httphead.SelectCopy}
			return s.Select(v, dst)
		}
	case "custom-alias":
		// "returned options should be valid until Upgrade returns": the options point into the
		// header value they were parsed from, which lives in the upgrader's read buffer
		u.ExtensionCustom = func(v []byte, dst []httphead.Option) ([]httphead.Option, bool) {
			return httphead.ParseOptions(v, dst)
		}
	case "negotiate-echo":
		u.Negotiate = func(o httphead.Option) (httphead.Option, error) { return o.Clone(), nil }
	case "negotiate-decline":
		u.Negotiate = func(o httphead.Option) (httphead.Option, error) { return httphead.Option{}, nil }
	case "negotiate-redirect":
		u.Negotiate = func(o httphead.Option) (httphead.Option, error) { return httphead.Option{}, RedirectErr() }
	case "negotiate-error":
		u.Negotiate = func(o httphead.Option) (httphead.Option, error) { return httphead.Option{}, ErrCallback }
	case "negotiate-pmd":
		e := &wsflate.Extension{Parameters: wsflate.Parameters{ServerNoContextTakeover: true}}
		u.Negotiate = e.Negotiate
	case "negotiate-error-x", "negotiate-error-y":
		u.Negotiate = selectiveNegotiate(c.V("ext"))
	}
	switch c.V("header") {
	case "one":
		u.Header = ws.HandshakeHeaderString("X-Server: verif\r\n")
	case "bytes":
		u.Header = ws.HandshakeHeaderBytes("X-Server: verif\r\n")
	case "http":
		u.Header = ws.HandshakeHeaderHTTP(http.Header{"X-Server": []string{"verif"}})
	case "func-long", "func-long-fails":
		fails := c.V("header") == "func-long-fails"
		u.Header = ws.HandshakeHeaderFunc(func(w io.Writer) (int64, error) {
			// eight long header lines: more than the response writer buffers
			var n int64
			for i := 0; i < 8; i++ {
				k, err := fmt.Fprintf(w, "X-Long-%d: %s\r\n", i, strings.Repeat("v", 80))
				n += int64(k)
				if err != nil {
					return n, err
				}
			}
			k, _ := io.WriteString(w, "X-Server: verif\r\n")
			n += int64(k)
			if fails {
				return n, ErrCallback
			}
			return n, nil
		})
	}
	// a rejection built once, when the upgrader is set up, around an http.Header that the callback
	// fills in at the moment it refuses (what was refused, and when): the response carries the
	// header as it is then
	liveHdr := http.Header{"X-Reject": []string{"yes"}}
	liveRej := ws.RejectConnectionError(ws.RejectionStatus(403), ws.RejectionReason("forbidden by callback"), ws.RejectionHeader(ws.HandshakeHeaderHTTP(liveHdr)))
	cbErr := func(kind string) error {
		if kind == "reject403-live" {
			liveHdr.Set("X-Refused", "now")
			return liveRej
		}
		return cbErr(kind)
	}
	if k := c.V("onrequest"); k != "nil" {
		u.OnRequest = func([]byte) error { return cbErr(k) }
	}
	if k := c.V("onhost"); k != "nil" {
		u.OnHost = func([]byte) error { return cbErr(k) }
	}
	if k := c.V("onheader"); k != "nil" {
		u.OnHeader = func(_, _ []byte) error { return cbErr(k) }
	}
	if k := c.V("onbefore"); k != "nil" {
		u.OnBeforeUpgrade = func() (ws.HandshakeHeader, error) {
			if k == "ok-header" {
				return ws.HandshakeHeaderString("X-Before: 1\r\n"), nil
			}
			return nil, cbErr(k)
		}
	}
	return u
}

// HTTPUpgrader builds the net/http flavour; ok=false when the configuration uses a feature
// only ws.Upgrader has.
func (c SrvCfg) HTTPUpgrader() (u ws.HTTPUpgrader, ok bool) {
	for _, n := range []string{"onrequest", "onhost", "onheader", "onbefore"} {
		if c.V(n) != "nil" {
			return u, false
		}
	}
	switch p := c.V("proto"); p {
	case "all", "b", "none", "sel-equal-b", "sel-slice-b", "sel-bigslice-b":
		u.Protocol = acceptProto(p)
	case "nil":
	default:
		return u, false
	}
	switch c.V("ext") {
	case "nil":
	case "all":
		u.Extension = func(httphead.Option) bool { return true }
	case "none":
		u.Extension = func(httphead.Option) bool { return false }
	case "negotiate-echo":
		u.Negotiate = func(o httphead.Option) (httphead.Option, error) { return o.Clone(), nil }
	case "negotiate-decline":
		u.Negotiate = func(o httphead.Option) (httphead.Option, error) { return httphead.Option{}, nil }
	case "negotiate-redirect":
		u.Negotiate = func(o httphead.Option) (httphead.Option, error) { return httphead.Option{}, RedirectErr() }
	case "negotiate-error":
		u.Negotiate = func(o httphead.Option) (httphead.Option, error) { return httphead.Option{}, ErrCallback }
	case "negotiate-pmd":
		e := &wsflate.Extension{Parameters: wsflate.Parameters{ServerNoContextTakeover: true}}
		u.Negotiate = e.Negotiate
	case "negotiate-error-x", "negotiate-error-y":
		u.Negotiate = selectiveNegotiate(c.V("ext"))
	default:
		return u, false
	}
	switch c.V("header") {
	case "nil":
	case "one":
		u.Header = http.Header{"X-Server": []string{"verif"}}
	default:
		return u, false
	}
	return u, true
}

// selectiveNegotiate objects to one extension name and echoes every other offer.
func selectiveNegotiate(kind string) func(httphead.Option) (httphead.Option, error) {
	bad := kind[len(kind)-1:]
	return func(o httphead.Option) (httphead.Option, error) {
		if string(o.Name) == bad {
			return httphead.Option{}, ErrCallback
		}
		return o.Clone(), nil
	}
}

// Expectation of the configuration for a request the built-in checks accept.
type SrvExpect struct {
	CallbackStatuses map[int]bool // non-empty: some configured callback objects (and fires)
	MaybeCallback    bool
	Protocol         string
	ProtocolOpen     bool
	ExtNames         []string
	ExtOpen          bool
}

// Expect computes what the configuration adds to the verdict for request r.
func (c SrvCfg) Expect(r Req) SrvExpect {
	e := SrvExpect{CallbackStatuses: map[int]bool{}}
	status := func(kind string) {
		switch kind {
		case "err", "err-list", "err-bytes":
			e.CallbackStatuses[500] = true
		case "reject403", "reject403-live":
			e.CallbackStatuses[403] = true
		case "redirect307":
			e.CallbackStatuses[307] = true
		case "reject451-status-only":
			e.CallbackStatuses[451] = true
		case "reject-no-options":
			e.CallbackStatuses[500] = true
		}
	}
	status(c.V("onrequest"))
	if r.V("host") != "absent" {
		status(c.V("onhost"))
	}
	if r.V("extra") != "none" || r.V("key") == "foldname" || r.V("wsversion") == "foldname" || r.V("key") == "crname" || r.V("wsversion") == "crname" {
		// a header the upgrader does not know (incl. a look-alike of a known one) goes to OnHeader
		status(c.V("onheader"))
	}
	status(c.V("onbefore"))
	if c.V("ext") == "negotiate-redirect" && r.V("extensions") != "absent" {
		e.CallbackStatuses[307] = true
		if r.V("extensions") == "malformed" {
			e.CallbackStatuses[400] = true
		}
	}
	if c.V("ext") == "negotiate-error" && r.V("extensions") != "absent" {
		e.CallbackStatuses[500] = true
		if r.V("extensions") == "malformed" {
			e.CallbackStatuses[400] = true
		}
	}
	if f := acceptProto(c.V("proto")); f != nil {
		for _, p := range r.OfferedProtocols() {
			if f(p) {
				e.Protocol = p
				break
			}
		}
		if r.V("protocol") == "malformed" {
			e.ProtocolOpen = true
		}
	}
	off := r.OfferedExtensions()
	if k := c.V("ext"); k == "negotiate-error-x" || k == "negotiate-error-y" {
		for _, n := range off {
			if n == k[len(k)-1:] {
				e.CallbackStatuses[500] = true
			}
		}
		if r.V("extensions") == "malformed" {
			e.CallbackStatuses[500] = true
			e.CallbackStatuses[400] = true
		}
		if len(e.CallbackStatuses) == 0 {
			e.ExtNames = off
		}
	}
	switch c.V("ext") {
	case "all", "custom-all", "negotiate-echo", "custom-alias":
		e.ExtNames = off
	case "negotiate-pmd":
		for _, n := range off {
			if n == "permessage-deflate" {
				e.ExtNames = []string{n}
			}
		}
	}
	if r.V("extensions") == "malformed" {
		e.ExtOpen = true
	}
	return e
}

// ---- in-memory hijackable ResponseWriter for HTTPUpgrader

type memConn struct {
	in  *bytes.Reader
	Out bytes.Buffer
	Log []string
	// Events, when set, receives every deadline call and the first write, in order
	Events *[]string
}

func (m *memConn) Read(p []byte) (int, error) { return m.in.Read(p) }
func (m *memConn) Write(p []byte) (int, error) {
	if m.Events != nil {
		*m.Events = append(*m.Events, "write")
	}
	return m.Out.Write(p)
}
func (m *memConn) Close() error         { m.Log = append(m.Log, "close"); return nil }
func (m *memConn) LocalAddr() net.Addr  { return &net.TCPAddr{} }
func (m *memConn) RemoteAddr() net.Addr { return &net.TCPAddr{} }
func (m *memConn) SetDeadline(t time.Time) error {
	m.note("SetDeadline", t)
	return nil
}
func (m *memConn) SetReadDeadline(t time.Time) error {
	m.note("SetReadDeadline", t)
	return nil
}
func (m *memConn) SetWriteDeadline(t time.Time) error {
	m.note("SetWriteDeadline", t)
	return nil
}

// note records a deadline call in Events (when the caller asked for events).
func (m *memConn) note(what string, t time.Time) {
	if m.Events != nil {
		if t.IsZero() {
			*m.Events = append(*m.Events, what+"(none)")
		} else {
			*m.Events = append(*m.Events, what+"(armed)")
		}
	}
}

type hijackWriter struct {
	conn   *memConn
	header http.Header
	code   int
	body   bytes.Buffer
}

func (h *hijackWriter) Header() http.Header         { return h.header }
func (h *hijackWriter) Write(p []byte) (int, error) { return h.body.Write(p) }
func (h *hijackWriter) WriteHeader(c int)           { h.code = c }
func (h *hijackWriter) Hijack() (net.Conn, *bufio.ReadWriter, error) {
	return h.conn, bufio.NewReadWriter(bufio.NewReader(h.conn), bufio.NewWriter(h.conn)), nil
}

// RunHTTPUpgrader parses data with net/http and runs the upgrader. skipped=true when
// net/http itself refuses the request.
func RunHTTPUpgrader(u ws.HTTPUpgrader, data []byte) (out []byte, hsk ws.Handshake, err error, skipped bool) {
	req, perr := http.ReadRequest(bufio.NewReader(bytes.NewReader(data)))
	if perr != nil {
		return nil, hsk, nil, true
	}
	conn := &memConn{in: bytes.NewReader(nil)}
	w := &hijackWriter{conn: conn, header: http.Header{}}
	_, _, hsk, err = u.Upgrade(req, w)
	return conn.Out.Bytes(), hsk, err, false
}

// RunHTTPUpgraderEvents is RunHTTPUpgrader with the connection's deadline calls and writes
// appended to events (into which the caller's callbacks write as well).
func RunHTTPUpgraderEvents(u ws.HTTPUpgrader, data []byte, events *[]string) (out []byte, hsk ws.Handshake, err error) {
	req, perr := http.ReadRequest(bufio.NewReader(bytes.NewReader(data)))
	if perr != nil {
		return nil, hsk, perr
	}
	conn := &memConn{in: bytes.NewReader(nil), Events: events}
	w := &hijackWriter{conn: conn, header: http.Header{}}
	_, _, hsk, err = u.Upgrade(req, w)
	return conn.Out.Bytes(), hsk, err
}

// streamConn is a net.Conn over any reader (the transport decides how reads are cut).
type streamConn struct {
	memConn
	r io.Reader
}

func (c *streamConn) Read(p []byte) (int, error) { return c.r.Read(p) }

// RunHTTPUpgraderStream serves data the way net/http does: the request is parsed from a
// bufio.Reader over the connection, and Hijack hands that very reader - with whatever it
// buffered beyond the request - to the upgrader. It returns the bytes written, the outcome,
// and every byte that is still readable afterwards (reader first, then connection).
func RunHTTPUpgraderStream(u ws.HTTPUpgrader, src io.Reader) (out []byte, hsk ws.Handshake, err error, rest []byte, skipped bool) {
	conn := &streamConn{r: src}
	br := bufio.NewReader(conn)
	req, perr := http.ReadRequest(br)
	if perr != nil {
		return nil, hsk, nil, nil, true
	}
	w := &hijackStream{hijackWriter{conn: &conn.memConn, header: http.Header{}}, conn, br}
	_, rw, hsk, err := u.Upgrade(req, w)
	if err == nil && rw != nil {
		b, _ := io.ReadAll(rw.Reader)
		rest = b
	} else {
		b, _ := io.ReadAll(br)
		rest = b
	}
	return conn.Out.Bytes(), hsk, err, rest, false
}

type hijackStream struct {
	hijackWriter
	c  *streamConn
	br *bufio.Reader
}

func (h *hijackStream) Hijack() (net.Conn, *bufio.ReadWriter, error) {
	return h.c, bufio.NewReadWriter(h.br, bufio.NewWriter(h.c)), nil
}

// RunUpgradeHTTP is RunHTTPUpgrader through the package-level ws.UpgradeHTTP.
func RunUpgradeHTTP(data []byte) (out []byte, hsk ws.Handshake, err error, skipped bool) {
	req, perr := http.ReadRequest(bufio.NewReader(bytes.NewReader(data)))
	if perr != nil {
		return nil, hsk, nil, true
	}
	conn := &memConn{in: bytes.NewReader(nil)}
	w := &hijackWriter{conn: conn, header: http.Header{}}
	_, _, hsk, err = ws.UpgradeHTTP(req, w)
	return conn.Out.Bytes(), hsk, err, false
}

// RunUpgrader runs ws.Upgrader over an in-memory connection.
func RunUpgrader(u ws.Upgrader, src io.Reader) (out []byte, hsk ws.Handshake, err error) {
	var buf bytes.Buffer
	hsk, err = u.Upgrade(struct {
		io.Reader
		io.Writer
	}{src, &buf})
	return buf.Bytes(), hsk, err
}

// JudgeServer checks the outcome of one server handshake against the statement.
// It returns a signature ("" = fine) and detail.
func JudgeServer(r Req, c SrvCfg, out []byte, hsk ws.Handshake, err error, flavour string) (sig, detail string) {
	protoSel := c.V("proto") != "nil"
	extSel := c.V("ext") != "nil"
	v := r.Judge(protoSel, extSel)
	e := c.Expect(r)
	allowed := map[int]bool{}
	for s := range v.Statuses {
		allowed[s] = true
	}
	for s := range e.CallbackStatuses {
		allowed[s] = true
	}
	mustReject := v.MustReject || (!v.Open && len(e.CallbackStatuses) > 0)
	mustAccept := v.MustAccept && len(e.CallbackStatuses) == 0
	if c.V("header") == "func-long-fails" {
		// the application's own header writer reports failure: whether the upgrade then counts
		// as failed (with a 500) is the library's choice; a 101 on a failed upgrade is not
		mustAccept = false
		allowed[500] = true
	}
	cls := flavour
	if err == nil {
		if mustReject {
			return "accepts-noncompliant:" + cls + ":" + strings.Join(append(v.Reasons, cbNames(e)...), "+"), fmt.Sprintf("request must be refused (%v) but Upgrade returned nil; wrote %q", v.Reasons, head(out))
		}
		h := ParseHead(out)
		if !h.OK || h.Status() != 101 || h.Line[0] != "HTTP/1.1" || len(h.Rest) != 0 {
			return "success-without-101:" + cls, fmt.Sprintf("wrote %q", head(out))
		}
		if bytes.Count(out, []byte("HTTP/1.1 ")) != 1 {
			return "more-than-one-response:" + cls, fmt.Sprintf("wrote %q", head(out))
		}
		if g := h.Get("Upgrade"); len(g) != 1 || !strings.EqualFold(g[0], "websocket") {
			return "101-upgrade-header:" + cls, fmt.Sprintf("%v", g)
		}
		if g := h.Get("Connection"); len(g) != 1 || !strings.EqualFold(g[0], "upgrade") {
			return "101-connection-header:" + cls, fmt.Sprintf("%v", g)
		}
		want := Accept(r.Key())
		if g := h.Get("Sec-WebSocket-Accept"); len(g) == 1 && r.V("key") == "dup-conflict" && g[0] == Accept(OtherKey) {
			// two conflicting keys: which one is "the key received" is left open
		} else if len(g) != 1 || g[0] != want {
			return "101-accept-value:" + cls, fmt.Sprintf("got %v want %s (key %q)", g, want, r.Key())
		}
		if c.V("header") != "nil" {
			if g := h.Get("X-Server"); len(g) != 1 || g[0] != "verif" {
				return "101-extra-header-missing:" + cls, ""
			}
		}
		if strings.HasPrefix(c.V("header"), "func-long") {
			for i := 0; i < 8; i++ {
				if g := h.Get(fmt.Sprintf("X-Long-%d", i)); len(g) != 1 || len(g[0]) != 80 {
					return "101-long-header-missing:" + cls, fmt.Sprintf("X-Long-%d: %v", i, g)
				}
			}
		}
		// (a header writer of the application's that reports failure ends the header block where
		// it stands: what would have come after it is not asked for)
		if c.V("onbefore") == "ok-header" && c.V("header") != "func-long-fails" {
			if g := h.Get("X-Before"); len(g) != 1 {
				return "101-onbefore-header-missing:" + cls, ""
			}
		}
		// subprotocol
		gp := h.Get("Sec-WebSocket-Protocol")
		sent := ""
		if len(gp) > 1 {
			return "101-protocol-twice:" + cls, fmt.Sprintf("%v", gp)
		}
		if len(gp) == 1 {
			sent = gp[0]
		}
		if sent != hsk.Protocol {
			return "protocol-sent-differs-from-returned:" + cls, fmt.Sprintf("sent %q returned %q", sent, hsk.Protocol)
		}
		if !e.ProtocolOpen && hsk.Protocol != e.Protocol {
			return "protocol-selection:" + cls, fmt.Sprintf("returned %q want %q (offer %v, selector %s)", hsk.Protocol, e.Protocol, r.OfferedProtocols(), c.V("proto"))
		}
		// extensions
		var retNames []string
		for _, o := range hsk.Extensions {
			retNames = append(retNames, string(o.Name))
		}
		ge := h.Get("Sec-WebSocket-Extensions")
		var sentNames []string
		for _, x := range ge {
			sentNames = append(sentNames, ExtNames(x)...)
		}
		if c.V("ext") == "custom-alias" {
			// the returned options are only promised to be valid until Upgrade returns
			retNames = sentNames
		}
		if strings.Join(sentNames, ",") != strings.Join(retNames, ",") {
			return "extensions-sent-differ-from-returned:" + cls, fmt.Sprintf("sent %v returned %v", sentNames, retNames)
		}
		offered := map[string]bool{}
		for _, n := range r.OfferedExtensions() {
			offered[n] = true
		}
		for _, n := range retNames {
			if !offered[n] && !e.ExtOpen {
				return "extension-not-offered:" + cls, fmt.Sprintf("returned %v offered %v", retNames, r.OfferedExtensions())
			}
		}
		if !e.ExtOpen && strings.Join(retNames, ",") != strings.Join(e.ExtNames, ",") {
			return "extension-selection:" + cls, fmt.Sprintf("returned %v want %v", retNames, e.ExtNames)
		}
		return "", "accept"
	}
	// failure
	if mustAccept {
		return "refuses-compliant:" + cls, fmt.Sprintf("request %s config %s: err=%v", r, c, err)
	}
	if bytes.Contains(out, []byte(" 101 ")) || bytes.HasPrefix(out, []byte("HTTP/1.1 101")) {
		return "101-written-on-failure:" + cls, fmt.Sprintf("%q", head(out))
	}
	if v.LineUnparsable {
		if len(out) == 0 {
			return "", "reject-silent"
		}
	}
	h := ParseHead(out)
	if !h.OK {
		return "failure-response-malformed:" + cls, fmt.Sprintf("err=%v wrote %q", err, head(out))
	}
	if bytes.Count(out, []byte("HTTP/1.1 ")) != 1 {
		return "more-than-one-response:" + cls, fmt.Sprintf("wrote %q", head(out))
	}
	st := h.Status()
	if !allowed[st] {
		return fmt.Sprintf("failure-status-%d-not-allowed:%s", st, cls), fmt.Sprintf("allowed %v; err=%v; faults %v", keysInt(allowed), err, v.Reasons)
	}
	if st == 426 && c.V("header") != "func-long-fails" {
		if g := h.Get("Sec-WebSocket-Version"); len(g) != 1 || g[0] != "13" {
			return "426-without-version-header:" + cls, fmt.Sprintf("%v", g)
		}
	}
	if st == 307 && c.V("header") != "func-long-fails" {
		if g := h.Get("Location"); len(g) != 1 || g[0] != "wss://elsewhere.example/chat" {
			return "redirect-header-missing:" + cls, fmt.Sprintf("%v", g)
		}
	}
	if st == 403 && c.V("header") != "func-long-fails" {
		if g := h.Get("X-Reject"); len(g) != 1 {
			return "reject-header-missing:" + cls, ""
		}
		live, other := 0, 0
		for _, f := range []string{"onrequest", "onhost", "onheader", "onbefore"} {
			switch c.V(f) {
			case "reject403-live":
				live++
			case "reject403":
				other++
			}
		}
		if live > 0 && other == 0 {
			if g := h.Get("X-Refused"); len(g) != 1 || g[0] != "now" {
				return "reject-header-not-as-the-callback-left-it:" + cls, fmt.Sprintf("X-Refused: %v in %q", g, head(out))
			}
		}
	}
	if c.V("header") != "nil" {
		if g := h.Get("X-Server"); len(g) != 1 || g[0] != "verif" {
			return "failure-extra-header-missing:" + cls, fmt.Sprintf("%q", head(out))
		}
	}
	cl := h.Get("Content-Length")
	if len(cl) != 1 || cl[0] != fmt.Sprint(len(h.Rest)) {
		return "failure-content-length:" + cls, fmt.Sprintf("Content-Length %v body %d bytes", cl, len(h.Rest))
	}
	if string(h.Rest) != err.Error() {
		return "failure-body-not-error-text:" + cls, fmt.Sprintf("body %q err %q", h.Rest, err.Error())
	}
	return "", fmt.Sprintf("reject-%d", st)
}

func cbNames(e SrvExpect) []string {
	if len(e.CallbackStatuses) > 0 {
		return []string{"callback"}
	}
	return nil
}

func keysInt(m map[int]bool) []int {
	var out []int
	for k := range m {
		out = append(out, k)
	}
	return out
}

func head(b []byte) []byte {
	if len(b) > 300 {
		return b[:300]
	}
	return b
}
