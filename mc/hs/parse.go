package hs

import (
	"bytes"
	"strconv"
	"strings"
)

// Head is an independently parsed HTTP message head.
type Head struct {
	Line    [3]string // request: method, target, version; response: version, status, reason
	Headers []HeaderKV
	Rest    []byte // bytes after the blank line
	OK      bool
}

type HeaderKV struct{ K, V string }

// ParseHead parses "line CRLF *(name: value CRLF) CRLF" strictly (CRLF only).
func ParseHead(b []byte) Head {
	var h Head
	end := bytes.Index(b, []byte("\r\n\r\n"))
	if end < 0 {
		return h
	}
	h.Rest = b[end+4:]
	lines := strings.Split(string(b[:end]), "\r\n")
	p := strings.SplitN(lines[0], " ", 3)
	if len(p) < 2 {
		return h
	}
	copy(h.Line[:], p)
	for _, l := range lines[1:] {
		i := strings.IndexByte(l, ':')
		if i <= 0 {
			return h
		}
		h.Headers = append(h.Headers, HeaderKV{l[:i], strings.Trim(l[i+1:], " \t")})
	}
	h.OK = true
	return h
}

// Get returns all values of a header (name compared case-insensitively).
func (h Head) Get(name string) []string {
	var out []string
	for _, kv := range h.Headers {
		if strings.EqualFold(kv.K, name) {
			out = append(out, kv.V)
		}
	}
	return out
}

// Status returns the numeric status of a response head (-1 if not 3 digits).
func (h Head) Status() int {
	if len(h.Line[1]) != 3 {
		return -1
	}
	n, err := strconv.Atoi(h.Line[1])
	if err != nil {
		return -1
	}
	return n
}

// Tokens splits a comma separated list.
func Tokens(v string) []string {
	var out []string
	for _, t := range strings.Split(v, ",") {
		t = strings.Trim(t, " \t")
		if t != "" {
			out = append(out, t)
		}
	}
	return out
}

// ExtNames returns the extension names of a Sec-WebSocket-Extensions value.
func ExtNames(v string) []string {
	var out []string
	for _, t := range Tokens(v) {
		if i := strings.IndexByte(t, ';'); i >= 0 {
			t = strings.Trim(t[:i], " \t")
		}
		out = append(out, t)
	}
	return out
}
