// C04: the message reader reassembles every valid frame stream exactly under any chunking.
package main

import (
	"bufio"
	"bytes"
	"compress/flate"
	"fmt"
	"io"
	"reflect"
	"strings"

	"verifmc/drivers"
	"verifmc/env"
	"verifmc/explore"
	"verifmc/fp"
	"verifmc/refmodel"
	"verifmc/streams"
	"verifshim/vsync"

	"github.com/gobwas/ws"
	"github.com/gobwas/ws/wsflate"
	"github.com/gobwas/ws/wsutil"
)

type stream struct {
	side   streams.Side
	frames []streams.Frame
}

func collect(depth int, ctls []streams.Ctl) []stream {
	var out []stream
	for _, side := range []streams.Side{streams.Server, streams.Client} {
		streams.Valid(streams.Opts{Depth: depth, Side: side, Controls: ctls}, func(fr []streams.Frame) {
			out = append(out, stream{side, append([]streams.Frame{}, fr...)})
		})
	}
	return out
}

func expected(d drivers.Driver, frames []streams.Frame) []drivers.Event {
	if d.Name == "NextReader" {
		return drivers.DropIntermediate(frames)
	}
	ev, _ := refmodel.Messages(frames)
	return d.Expect(ev)
}

// judge compares a finished run with the model.
func judge(d drivers.Driver, st stream, res *drivers.Result, src *env.Src) *explore.Fail {
	want := expected(d, st.frames)
	if !drivers.EqualEvents(res.Events, want) {
		return explore.Failf("events-mismatch:"+d.Name, "got  %s\nwant %s\nerr=%v", drivers.FmtEvents(res.Events), drivers.FmtEvents(want), res.Err)
	}
	if res.Err != io.EOF {
		return explore.Failf("end-not-EOF:"+d.Name, "valid stream ended with %v", res.Err)
	}
	if src.Off != len(src.Data) {
		return explore.Failf("bytes-unconsumed:"+d.Name, "consumed %d of %d", src.Off, len(src.Data))
	}
	if res.Replies != nil || d.Hidden && len(d.Name) > 8 && d.Name[:8] == "ReadData" {
		// one Pong per Ping, same payload, in order; nothing for Pong
		var pings [][]byte
		for _, f := range st.frames {
			if f.H.Op == 9 {
				pings = append(pings, f.Payload)
			}
		}
		rf, rest := drivers.ParseFrames(res.Replies)
		if len(rest) != 0 {
			return explore.Failf("replies-not-whole-frames:"+d.Name, "%x", res.Replies)
		}
		if len(rf) != len(pings) {
			return explore.Failf("reply-count:"+d.Name, "got %d replies for %d pings", len(rf), len(pings))
		}
		for i, f := range rf {
			if f.H.Op != 10 || !bytes.Equal(f.Payload, pings[i]) || !f.H.Fin {
				return explore.Failf("reply-content:"+d.Name, "reply %d: %v %x", i, f.H, f.Payload)
			}
		}
	}
	return nil
}

var srcType = reflect.TypeOf(&env.Src{})

func main() {
	explore.Main("C04", func(r *explore.Run) {
		ds := drivers.All()
		D := r.Pick(4, 5)
		r.Part("E1-streams-x-drivers-x-uniform-chunks", func(t *explore.T) {
			all := collect(D, nil)
			// -1: the stream's last bytes arrive together with io.EOF; -2: every second Read
			// returns (0, nil) first, chunks of 2
			// -3..-5: the standard library's reader types (a buffered reader with bytes already
			// waiting, in-memory readers), which offer more than Read
			chunks := []int{0, 1, 2, 3, 5, -1, -2, -3, -4, -5}
			t.Par(len(all), func(i int) {
				st := all[i]
				data, _ := streams.Wire(st.frames)
				for _, d := range ds {
					for _, ch := range chunks {
						d, ch := d, ch
						t.Do(func() string {
							return fmt.Sprintf("%s %s driver=%s chunk=%d", st.side, streams.Describe(st.frames), d.Name, ch)
						}, func() *explore.Fail {
							src := env.NewSrc(data)
							switch {
							case ch > 0:
								src.Policy = env.FixedChunk(ch)
							case ch == -1:
								src.WithLast = true
							case ch == -2:
								src.ZeroEvery = 2
								src.Policy = env.FixedChunk(2)
							}
							var res drivers.Result
							var rd io.Reader = src
							switch ch {
							case -3:
								br := bufio.NewReaderSize(src, 64)
								br.Peek(1)
								rd = br
							case -4:
								r := bytes.NewReader(data)
								rd = r
							case -5:
								r := bytes.NewBuffer(append([]byte{}, data...))
								rd = r
							}
							d.Run(rd, st.side, drivers.Cfg{}, &res)
							if ch <= -4 {
								src.Off = len(data) - rd.(interface{ Len() int }).Len()
							}
							return judge(d, st, &res, src)
						})
					}
				}
			})
			t.Outcome("delivered-as-model")
			t.Note(fmt.Sprintf("all valid streams of depth<=%d over {Text,Bin}x fin x 3 payloads, Cont x fin x 3 payloads, 3 control frames; both sides; 12 drivers; chunk sizes inf,1,2,3,5", D))
		})

		// All transport chunkings with state keys (drivers whose Reader is visible).
		Dc := r.Pick(2, 3)
		smallCtl := []streams.Ctl{{Op: 9, Payload: []byte("pi")}, {Op: 10, Payload: nil}}
		r.Part("E2-all-chunkings-state-keyed", func(t *explore.T) {
			all := collect(Dc, smallCtl)
			t.Par(len(all), func(i int) {
				st := all[i]
				data, _ := streams.Wire(st.frames)
				for _, d := range ds {
					if d.Hidden {
						continue
					}
					d := d
					desc := fmt.Sprintf("%s %s driver=%s", st.side, streams.Describe(st.frames), d.Name)
					t.Explore(desc, explore.ExploreOpts{Bound: -1, UseKeys: true}, func(c *explore.Chooser) *explore.Fail {
						src := env.NewSrc(data)
						var res drivers.Result
						pol := env.ChooserPolicy(c)
						src.Policy = func(max, off int) int {
							k := fp.Of([]fp.Opt{{Type: srcType, Fn: func(v reflect.Value) string { return "src" }}},
								off, max, res.Reader, res.Events, res.Partial, res.ContHdrs)
							c.Key(fmt.Sprintf("%x", k))
							return pol(max, off)
						}
						d.Run(src, st.side, drivers.Cfg{}, &res)
						return judge(d, st, &res, src)
					})
				}
			})
			t.Outcome("delivered-as-model")
			t.Note(fmt.Sprintf("every split of the transport bytes into reads for all streams of depth<=%d; state key = (offset, request size, fingerprint of every field of the live wsutil.Reader incl. cipher/utf8/limited readers, events delivered, partial payload)", Dc))
		})

		// Hidden-reader drivers: deviation-bounded (each short read is one deviation).
		B := r.Pick(2, 3)
		r.Part("E3-short-reads-bounded", func(t *explore.T) {
			all := collect(Dc, smallCtl)
			t.Bound(B)
			t.Par(len(all), func(i int) {
				st := all[i]
				data, _ := streams.Wire(st.frames)
				for _, d := range ds {
					if !d.Hidden {
						continue
					}
					d := d
					desc := fmt.Sprintf("%s %s driver=%s", st.side, streams.Describe(st.frames), d.Name)
					t.Explore(desc, explore.ExploreOpts{Bound: B}, func(c *explore.Chooser) *explore.Fail {
						src := env.NewSrc(data)
						src.Policy = env.ChooserPolicy(c)
						var res drivers.Result
						d.Run(src, st.side, drivers.Cfg{}, &res)
						return judge(d, st, &res, src)
					})
				}
			})
			t.Outcome("delivered-as-model")
			t.Note(fmt.Sprintf("drivers that build their Reader internally (NextReader, ReadMessage, ReadData family): every placement of up to %d short reads (any size) in streams of depth<=%d", B, Dc))
		})

		// The read helpers build what they need per call: what one call left behind - in
		// particular a call that failed in the middle of a message, of a character, of a frame -
		// must not reach the next call, be it on another connection. Pools (gobwas/pool's and any
		// declared inside gobwas/ws, through vcheck's overlay) are on a deterministic LIFO free
		// list here, emptied before every case, so that "the same object comes back" is certain.
		r.Part("E4-helper-calls-are-independent", func(t *explore.T) {
			vsync.SetMode(vsync.LIFO)
			defer vsync.SetMode(vsync.FreshPoison)
			type dirt struct {
				name string
				data func(side streams.Side) []byte
			}
			mkf := func(side streams.Side, op byte, fin bool, p string) []byte {
				return streams.Frame{H: refmodel.Hdr{Fin: fin, Op: op, Masked: side == streams.Server, Mask: streams.Masks[1]}, Payload: []byte(p)}.Wire()
			}
			cat := func(bs ...[]byte) []byte { return bytes.Join(bs, nil) }
			dirts := []dirt{
				{"nothing", func(side streams.Side) []byte { return nil }},
				{"valid-fragmented-text", func(side streams.Side) []byte {
					return cat(mkf(side, 1, false, "h\xe2"), mkf(side, 9, true, "p"), mkf(side, 0, true, "\x82\xac"))
				}},
				{"text-cut-inside-character", func(side streams.Side) []byte {
					w := mkf(side, 1, true, "5 \xe2\x82\xac")
					return w[:len(w)-1]
				}},
				{"text-invalid-utf8", func(side streams.Side) []byte { return mkf(side, 1, true, "a\xffb") }},
				{"fragment-ends-inside-character-then-EOF", func(side streams.Side) []byte { return mkf(side, 1, false, "\xf0\x9f") }},
				{"fragment-then-new-data-frame", func(side streams.Side) []byte {
					return cat(mkf(side, 2, false, "ab"), mkf(side, 2, true, "cd"))
				}},
				{"cut-inside-header", func(side streams.Side) []byte { return mkf(side, 2, true, "abc")[:1] }},
				{"cut-inside-control-between-fragments", func(side streams.Side) []byte {
					return cat(mkf(side, 1, false, "x"), mkf(side, 9, true, "ping")[:3])
				}},
				{"wrong-masking", func(side streams.Side) []byte { return mkf(1-side, 2, true, "abc") }},
				{"close-frame", func(side streams.Side) []byte { return mkf(side, 8, true, "\x03\xe8bye") }},
			}
			var hidden []drivers.Driver
			for _, d := range ds {
				if d.Hidden {
					hidden = append(hidden, d)
				}
			}
			valid := collect(2, smallCtl)
			for _, di := range dirts {
				for _, dd := range hidden {
					for _, dside := range []streams.Side{streams.Server, streams.Client} {
						di, dd, dside := di, dd, dside
						t.DoN(int64(len(valid)*len(hidden)), func() string {
							return fmt.Sprintf("first %s on a %s connection carrying %s; then every helper on every valid stream of depth<=2", dd.Name, dside, di.name)
						}, func() *explore.Fail {
							for _, st := range valid {
								data, _ := streams.Wire(st.frames)
								for _, d := range hidden {
									vsync.ResetAll()
									var junk drivers.Result
									dd.Run(env.NewSrc(di.data(dside)), dside, drivers.Cfg{}, &junk)
									src := env.NewSrc(data)
									var res drivers.Result
									d.Run(src, st.side, drivers.Cfg{}, &res)
									if f := judge(d, st, &res, src); f != nil {
										f.Sig = "after-earlier-call:" + f.Sig
										f.Detail = fmt.Sprintf("second call: %s %s driver=%s\n%s", st.side, streams.Describe(st.frames), d.Name, f.Detail)
										return f
									}
								}
							}
							return nil
						})
					}
				}
			}
			t.Outcome("as-fresh")
			t.Note(fmt.Sprintf("%d first streams (valid, cut inside a character / header / control frame, invalid text, protocol errors, close) x %d helper entry points x 2 sides, each followed by every helper on each of %d valid streams", len(dirts), len(hidden), len(valid)))
		})

		// Payloads beyond every pooled buffer class and beyond the helpers' preallocation limit.
		r.Part("E5-large-payloads", func(t *explore.T) {
			sizes := []int{4095, 4096, 4097, 65535, 65536, 65537, 1 << 20, 1<<20 + 1}
			type job struct {
				st   stream
				desc string
			}
			var jobs []job
			for _, side := range []streams.Side{streams.Server, streams.Client} {
				for _, n := range sizes {
					p := make([]byte, n)
					for i := range p {
						p[i] = byte(i*31 + i>>8 + 1)
					}
					mk := func(op byte, fin bool, pl []byte) streams.Frame {
						return streams.Frame{H: refmodel.Hdr{Fin: fin, Op: op, Masked: side == streams.Server, Mask: streams.Masks[1]}, Payload: pl}
					}
					jobs = append(jobs,
						job{stream{side, []streams.Frame{mk(2, true, p), mk(1, true, []byte("next"))}}, fmt.Sprintf("%s Bin(%d bytes) Text(next)", side, n)},
						job{stream{side, []streams.Frame{mk(2, false, p[:n/3]), mk(9, true, []byte("pi")), mk(0, true, p[n/3:]), mk(1, true, []byte("next"))}}, fmt.Sprintf("%s Bin(%d bytes in 2 fragments around a Ping) Text(next)", side, n)},
					)
				}
			}
			// messages whose fragments add up beyond what the collecting helpers reserve up front
			// (1 MiB), in several shapes: a further fragment arriving when more than that is already
			// collected, longer than whatever room is left
			for _, side := range []streams.Side{streams.Server, streams.Client} {
				for _, shape := range [][]int{{1 << 20, 300 << 10}, {1<<20 + 1, 1, 3}, {600 << 10, 600 << 10, 600 << 10}, {1, 1 << 20, 1, 1 << 20, 1}, {1 << 19, 1 << 19, 1 << 19, 1 << 19, 7}} {
					var frames []streams.Frame
					for fi, n := range shape {
						p := make([]byte, n)
						for i := range p {
							p[i] = byte(i*13 + i>>11 + fi + 1)
						}
						op := byte(0)
						if fi == 0 {
							op = 2
						}
						frames = append(frames, streams.Frame{H: refmodel.Hdr{Fin: fi == len(shape)-1, Op: op, Masked: side == streams.Server, Mask: streams.Masks[fi%3]}, Payload: p})
					}
					frames = append(frames, streams.Frame{H: refmodel.Hdr{Fin: true, Op: 1, Masked: side == streams.Server, Mask: streams.Masks[1]}, Payload: []byte("next")})
					jobs = append(jobs, job{stream{side, frames}, fmt.Sprintf("%s Bin in fragments of %v bytes, Text(next)", side, shape)})
				}
			}
			t.Par(len(jobs), func(i int) {
				j := jobs[i]
				data, _ := streams.Wire(j.st.frames)
				for _, d := range append([]drivers.Driver{drivers.ReaderLoop(4096), drivers.ReaderLoop(65537)}, ds...) {
					if strings.HasPrefix(d.Name, "Reader/") && d.Name != "Reader/buf512" && d.Name != "Reader/buf4096" && d.Name != "Reader/buf65537" && d.Name != "Reader/io.Copy" && !strings.HasPrefix(d.Name, "Reader/discard") {
						continue // the drivers' iteration guard is sized for small payloads
					}
					for _, ch := range []int{0, 4093, 65536} {
						d, ch := d, ch
						t.Do(func() string { return fmt.Sprintf("%s driver=%s chunk=%d", j.desc, d.Name, ch) }, func() *explore.Fail {
							src := env.NewSrc(data)
							src.Policy = env.FixedChunk(ch)
							var res drivers.Result
							d.Run(src, j.st.side, drivers.Cfg{}, &res)
							return judge(d, j.st, &res, src)
						})
					}
				}
			})
			t.Outcome("delivered-as-model")
		})

		// A transport error that calls itself temporary (EAGAIN-like; a deadline that the
		// application then extends) exactly at a frame boundary - no byte of the next frame has
		// been taken - after which the application simply repeats the call: everything is still
		// delivered as the model says.
		r.Part("E6-transient-error-at-a-frame-boundary-then-retry", func(t *explore.T) {
			all := collect(t.Pick(3, 4), smallCtl)
			retry := []drivers.Driver{drivers.ReaderLoop(7), drivers.ReaderLoop(1), drivers.ReaderLazyHandler(0)}
			t.Par(len(all), func(i int) {
				st := all[i]
				data, ends := streams.Wire(st.frames)
				for bi := -1; bi < len(ends)-1; bi++ {
					at := 0
					if bi >= 0 {
						at = ends[bi]
					}
					for _, d := range retry {
						for _, timeout := range []bool{false, true} {
							at, d, timeout := at, d, timeout
							t.Do(func() string {
								return fmt.Sprintf("%s %s driver=%s transient error (timeout=%v) at offset %d, call repeated", st.side, streams.Describe(st.frames), d.Name, timeout, at)
							}, func() *explore.Fail {
								src := env.NewSrc(data)
								src.HiccupAt, src.HiccupErr = at, env.TempErr{IsTimeout: timeout}
								var res drivers.Result
								d.Run(src, st.side, drivers.Cfg{}, &res)
								if res.Retries == 0 {
									return explore.Failf("transient-error-not-reported:"+d.Name, "the transport failed once at offset %d but no call returned the error", at)
								}
								if f := judge(d, st, &res, src); f != nil {
									f.Sig = "after-transient-error:" + f.Sig
									return f
								}
								return nil
							})
						}
					}
				}
			})
			t.Outcome("delivered-as-model")
		})

		// The application replaces Reader.Source between two calls, exactly when the old source is
		// used up at a frame boundary (the buffered reader the handshake handed back is drained and
		// reading continues on the connection itself): the stream is the same stream.
		r.Part("E12-source-replaced-at-a-frame-boundary", func(t *explore.T) {
			all := collect(t.Pick(3, 4), smallCtl)
			swap := []drivers.Driver{drivers.ReaderLoop(7), drivers.ReaderLoop(1), drivers.ReaderLoop(512), drivers.ReaderLazyHandler(0), drivers.ReaderContinuationHandler(1)}
			t.Par(len(all), func(i int) {
				st := all[i]
				data, ends := streams.Wire(st.frames)
				for bi := 0; bi < len(ends)-1; bi++ {
					at := ends[bi]
					for _, d := range swap {
						at, d := at, d
						t.Do(func() string {
							return fmt.Sprintf("%s %s driver=%s Source replaced between two calls once the first source is used up at offset %d", st.side, streams.Describe(st.frames), d.Name, at)
						}, func() *explore.Fail {
							a, b := env.NewSrc(data[:at]), env.NewSrc(data[at:])
							swapped := false
							var res drivers.Result
							d.Run(a, st.side, drivers.Cfg{BetweenCalls: func(rd *wsutil.Reader) {
								if !swapped && a.Off == len(a.Data) {
									rd.Source = b
									swapped = true
								}
							}}, &res)
							if !swapped {
								return explore.Failf("first-source-not-used-up:"+d.Name, "consumed %d of %d, err=%v", a.Off, len(a.Data), res.Err)
							}
							if f := judge(d, st, &res, b); f != nil {
								f.Sig = "source-replaced-at-a-frame-boundary:" + f.Sig
								return f
							}
							return nil
						})
					}
				}
			})
			t.Outcome("delivered-as-model")
		})

		// With the text check switched on, every stream whose control frames carry payloads that
		// are not UTF-8 (they are opaque application data): the check is about text messages only,
		// so everything is delivered as the model says - also by a loop that takes single-frame
		// messages with exact-size reads and so never "finishes" an empty one.
		r.Part("E9-text-check-on-and-control-payloads-that-are-not-text", func(t *explore.T) {
			all := collect(t.Pick(3, 4), []streams.Ctl{{Op: 9, Payload: []byte{0xff, 0xfe}}, {Op: 10, Payload: []byte{0x80}}})
			t.Par(len(all), func(i int) {
				st := all[i]
				data, _ := streams.Wire(st.frames)
				for _, d := range ds {
					for _, ch := range []int{0, 1} {
						d, ch := d, ch
						t.Do(func() string {
							return fmt.Sprintf("%s %s driver=%s chunk=%d CheckUTF8=on", st.side, streams.Describe(st.frames), d.Name, ch)
						}, func() *explore.Fail {
							src := env.NewSrc(data)
							src.Policy = env.FixedChunk(ch)
							var res drivers.Result
							d.Run(src, st.side, drivers.Cfg{CheckUTF8: true}, &res)
							return judge(d, st, &res, src)
						})
					}
				}
			})
			t.Outcome("delivered-as-model")
		})

		// "The result does not depend on how the transport splits the bytes across reads": also
		// when the stream stops short. Every stream cut at every offset is run over the plain
		// source and over a standard bufio.Reader holding the same bytes (with its own Discard,
		// Peek, WriteTo): what is delivered and the error that ends the run are the same.
		r.Part("E10-cut-streams-over-plain-and-buffered-sources", func(t *explore.T) {
			all := collect(t.Pick(2, 3), smallCtl)
			t.Par(len(all), func(i int) {
				st := all[i]
				data, _ := streams.Wire(st.frames)
				for cut := 0; cut < len(data); cut++ {
					for _, d := range ds {
						cut, d := cut, d
						t.Do(func() string {
							return fmt.Sprintf("%s %s cut at %d of %d, driver=%s: plain source vs bufio.Reader", st.side, streams.Describe(st.frames), cut, len(data), d.Name)
						}, func() *explore.Fail {
							run := func(buffered bool) (string, string) {
								src := env.NewSrc(data[:cut])
								var rd io.Reader = src
								if buffered {
									br := bufio.NewReaderSize(src, 64)
									br.Peek(1)
									rd = br
								}
								var res drivers.Result
								d.Run(rd, st.side, drivers.Cfg{}, &res)
								return drivers.FmtEvents(res.Events) + fmt.Sprintf(" partial=%x", res.Partial), fmt.Sprint(res.Err)
							}
							pe, perr := run(false)
							be, berr := run(true)
							if pe != be || perr != berr {
								return explore.Failf("cut-stream-outcome-depends-on-the-reader-type:"+d.Name, "plain:    %s err=%s\nbuffered: %s err=%s", pe, perr, be, berr)
							}
							return nil
						})
					}
				}
			})
			t.Outcome("same")
		})

		// The receive loop of example/autobahn: msg, err = wsutil.ReadClientMessage(conn, msg[:0]) -
		// one message slice recycled for the life of the connection, whatever earlier messages have
		// left in its spare capacity. A first message of some size (whole or fragmented), then a
		// fragmented one with a ping between its fragments, then a third: every call returns exactly
		// the frames' payloads, control messages included.
		r.Part("E11-receive-loop-with-a-recycled-message-slice", func(t *explore.T) {
			type shape struct {
				first, frag1, frag2 int
				firstFragmented     bool
				ping                int
			}
			var shapes []shape
			for _, first := range []int{0, 5, 600, 2000, 70000} {
				for _, ff := range []bool{false, true} {
					for _, fr := range [][2]int{{5, 5}, {0, 3}, {300, 300}, {1, 1200}} {
						for _, ping := range []int{0, 12, 125} {
							shapes = append(shapes, shape{first, fr[0], fr[1], ff, ping})
						}
					}
				}
			}
			t.Par(len(shapes), func(i int) {
				sh := shapes[i]
				for _, side := range []streams.Side{streams.Server, streams.Client} {
					side := side
					t.Do(func() string {
						return fmt.Sprintf("%s first message %d bytes (fragmented=%v), then %d + ping(%d) + %d bytes, then a short one; ReadClient/ServerMessage(conn, msg[:0])", side, sh.first, sh.firstFragmented, sh.frag1, sh.ping, sh.frag2)
					}, func() *explore.Fail {
						gen := func(n int, seed byte) []byte {
							b := make([]byte, n)
							for k := range b {
								b[k] = seed + byte(k%23)
							}
							return b
						}
						mk := func(i int, op byte, fin bool, p []byte) streams.Frame {
							return streams.Frame{H: refmodel.Hdr{Fin: fin, Op: op, Masked: side == streams.Server, Mask: streams.Masks[i%3]}, Payload: p}
						}
						var frames []streams.Frame
						f := gen(sh.first, 'A')
						if sh.firstFragmented {
							frames = append(frames, mk(0, 2, false, f[:sh.first/2]), mk(1, 0, true, f[sh.first/2:]))
						} else {
							frames = append(frames, mk(0, 2, true, f))
						}
						frames = append(frames, mk(2, 2, false, gen(sh.frag1, 'a')), mk(3, 9, true, gen(sh.ping, '0')), mk(4, 0, true, gen(sh.frag2, 'k')), mk(5, 2, true, []byte("third")))
						data, _ := streams.Wire(frames)
						want, _ := refmodel.Messages(frames)
						src := env.NewSrc(data)
						var msg []wsutil.Message
						var got []drivers.Event
						for {
							var err error
							if side == streams.Server {
								msg, err = wsutil.ReadClientMessage(src, msg[:0])
							} else {
								msg, err = wsutil.ReadServerMessage(src, msg[:0])
							}
							if err != nil {
								if err != io.EOF {
									return explore.Failf("receive-loop-error", "%v", err)
								}
								break
							}
							for _, m := range msg {
								kind := "msg"
								if m.OpCode.IsControl() {
									kind = "ctl"
								}
								got = append(got, drivers.Event{Kind: kind, Op: byte(m.OpCode), Payload: append([]byte{}, m.Payload...)})
							}
						}
						if !drivers.EqualEvents(got, want) {
							return explore.Failf("recycled-message-slice-delivers-wrong-payloads", "got  %s\nwant %s", drivers.FmtEvents(got), drivers.FmtEvents(want))
						}
						return nil
					})
				}
			})
			t.Outcome("delivered-as-model")
		})

		// "Any number of fragments (including empty ones), control frames interleaved anywhere": a
		// message whose first and last fragment are separated by a long run of frames that carry no
		// message bytes - empty continuations, pings, pongs, or a mix - through every driver.
		r.Part("E8-long-runs-of-empty-fragments-and-control-frames", func(t *explore.T) {
			type job struct {
				st   stream
				desc string
			}
			var jobs []job
			for _, side := range []streams.Side{streams.Server, streams.Client} {
				for _, n := range []int{99, 100, 101, 257} {
					for _, mix := range []string{"empty-continuations", "empty-pings", "pongs(p)", "alternating"} {
						mk := func(i int, op byte, fin bool, pl []byte) streams.Frame {
							return streams.Frame{H: refmodel.Hdr{Fin: fin, Op: op, Masked: side == streams.Server, Mask: streams.Masks[i%3]}, Payload: pl}
						}
						frames := []streams.Frame{mk(0, 1, false, []byte("a"))}
						for i := 0; i < n; i++ {
							switch {
							case mix == "empty-continuations" || (mix == "alternating" && i%3 == 0):
								frames = append(frames, mk(i, 0, false, nil))
							case mix == "empty-pings" || (mix == "alternating" && i%3 == 1):
								frames = append(frames, mk(i, 9, true, nil))
							default:
								frames = append(frames, mk(i, 10, true, []byte("p")))
							}
						}
						frames = append(frames, mk(1, 0, true, []byte("z")), mk(2, 2, true, []byte("next")))
						jobs = append(jobs, job{stream{side, frames}, fmt.Sprintf("%s Text-(a) %d x %s Cont(z) Bin(next)", side, n, mix)})
					}
				}
			}
			t.Par(len(jobs), func(i int) {
				j := jobs[i]
				data, _ := streams.Wire(j.st.frames)
				for _, d := range ds {
					for _, ch := range []int{0, 1} {
						d, ch := d, ch
						t.Do(func() string { return fmt.Sprintf("%s driver=%s chunk=%d", j.desc, d.Name, ch) }, func() *explore.Fail {
							src := env.NewSrc(data)
							src.Policy = env.FixedChunk(ch)
							var res drivers.Result
							d.Run(src, j.st.side, drivers.Cfg{}, &res)
							return judge(d, j.st, &res, src)
						})
					}
				}
			})
			t.Outcome("delivered-as-model")
		})

		// Messages read through a chain of receive extensions: the peer compresses some messages
		// (RSV1 on the first frame, RFC 7692) and sends the others as they are; the application
		// asks the permessage-deflate message state of the chain whether to inflate. Whatever the
		// other extensions of the chain are and wherever the state stands in it, every message
		// comes out with the exact bytes that were sent and every ping reaches the handler.
		r.Part("E7-messages-through-an-extension-chain", func(t *explore.T) {
			type msg struct {
				compressed bool
				frags      int
				ping       bool
			}
			var menu []msg
			for _, c := range []bool{true, false} {
				for _, f := range []int{1, 2, 3} {
					for _, p := range []bool{false, true} {
						if p && f == 1 {
							continue
						}
						menu = append(menu, msg{c, f, p})
					}
				}
			}
			var seqs [][]msg
			var gen func(cur []msg, n int)
			gen = func(cur []msg, n int) {
				if len(cur) > 0 {
					seqs = append(seqs, append([]msg{}, cur...))
				}
				if n == 0 {
					return
				}
				for _, m := range menu {
					gen(append(cur, m), n-1)
				}
			}
			gen(nil, t.Pick(3, 4))
			texts := []string{strings.Repeat("compressed payload ", 12), "plain payload, sent as it is", strings.Repeat("ab", 70), "x"}
			chains := []string{"state", "marker,state", "state,marker", "marker,marker3,state", "identity,state"}
			t.Par(len(seqs), func(i int) {
				seq := seqs[i]
				for _, server := range []bool{false, true} {
					var wire []byte
					var wantMsgs []string
					pings := 0
					for mi, m := range seq {
						text := texts[(mi+len(seq))%len(texts)]
						wantMsgs = append(wantMsgs, text)
						p := []byte(text)
						if m.compressed {
							var err error
							p, err = wsflate.DefaultHelper.Compress(p)
							if err != nil {
								panic(err)
							}
						}
						for k := 0; k < m.frags; k++ {
							part := p[k*len(p)/m.frags : (k+1)*len(p)/m.frags]
							h := refmodel.Hdr{Fin: k == m.frags-1, Op: 0, Masked: server, Mask: streams.Masks[(mi+k)%3], Len: uint64(len(part))}
							if k == 0 {
								h.Op = 1
								if m.compressed {
									h.Rsv = 4
								}
							}
							wire = append(wire, refmodel.Frame{H: h, Payload: part}.Wire()...)
							if m.ping && k != m.frags-1 {
								wire = append(wire, refmodel.Frame{H: refmodel.Hdr{Fin: true, Op: 9, Masked: server, Mask: streams.Masks[1], Len: 2}, Payload: []byte("hi")}.Wire()...)
								pings++
							}
						}
					}
					for _, chain := range chains {
						for _, chunk := range []int{0, 1, 5} {
							server, chain, chunk := server, chain, chunk
							t.Do(func() string {
								return fmt.Sprintf("server=%v messages=%+v chain=[%s] transport chunk=%d", server, seq, chain, chunk)
							}, func() *explore.Fail {
								src := env.NewSrc(wire)
								src.Policy = env.FixedChunk(chunk)
								var state wsflate.MessageState
								var exts []wsutil.RecvExtension
								for _, name := range strings.Split(chain, ",") {
									switch name {
									case "state":
										exts = append(exts, &state)
									case "marker":
										exts = append(exts, wsutil.RecvExtensionFunc(func(h ws.Header) (ws.Header, error) {
											r1, _, r3 := ws.RsvBits(h.Rsv)
											h.Rsv = ws.Rsv(r1, false, r3)
											return h, nil
										}))
									case "marker3":
										exts = append(exts, wsutil.RecvExtensionFunc(func(h ws.Header) (ws.Header, error) {
											r1, r2, _ := ws.RsvBits(h.Rsv)
											h.Rsv = ws.Rsv(r1, r2, false)
											return h, nil
										}))
									case "identity":
										exts = append(exts, wsutil.RecvExtensionFunc(func(h ws.Header) (ws.Header, error) { return h, nil }))
									}
								}
								st := ws.StateClientSide | ws.StateExtended
								if server {
									st = ws.StateServerSide | ws.StateExtended
								}
								got := 0
								rd := &wsutil.Reader{Source: src, State: st, Extensions: exts,
									OnIntermediate: func(h ws.Header, r io.Reader) error {
										p, err := io.ReadAll(r)
										if h.OpCode == ws.OpPing && string(p) == "hi" {
											got++
										}
										return err
									}}
								fr := wsflate.NewReader(nil, func(r io.Reader) wsflate.Decompressor { return flate.NewReader(r) })
								for mi := range seq {
									h, err := rd.NextFrame()
									if err != nil {
										return explore.Failf("message-refused", "message %d: NextFrame: %v", mi, err)
									}
									if h.OpCode != ws.OpText {
										return explore.Failf("opcode-wrong", "message %d: %+v", mi, h)
									}
									var from io.Reader = rd
									if state.IsCompressed() {
										fr.Reset(rd)
										from = fr
									}
									p, err := io.ReadAll(from)
									if err != nil {
										return explore.Failf("message-read-fails", "message %d (compressed=%v, state says %v): %v", mi, seq[mi].compressed, state.IsCompressed(), err)
									}
									if string(p) != wantMsgs[mi] {
										return explore.Failf("payload-differs", "message %d (compressed=%v, state says %v): got %q want %q", mi, seq[mi].compressed, state.IsCompressed(), p, wantMsgs[mi])
									}
								}
								if _, err := rd.NextFrame(); err != io.EOF {
									return explore.Failf("end-not-EOF", "after the last message: %v", err)
								}
								if got != pings {
									return explore.Failf("pings-lost", "handler saw %d of %d pings", got, pings)
								}
								return nil
							})
						}
					}
				}
			})
			t.Outcome("delivered-as-sent")
		})

		// Text messages of 1..40 bytes with one multi-byte character at every offset (and a second
		// one right behind it or at the end): the read helpers and the UTF-8-checking reader
		// deliver them unchanged, under every chunking - a valid message is never refused.
		r.Part("E5b-text-with-a-character-at-every-offset", func(t *explore.T) {
			chars := []string{"\u00e9", "\u20ac", "\U0001F600"}
			var texts []string
			for L := 1; L <= 40; L++ {
				for i := 0; i < L; i++ {
					for ci, ch := range chars {
						if i+len(ch) > L {
							continue
						}
						b := []byte(strings.Repeat("abcdefghij", 5)[:L])
						copy(b[i:], ch)
						texts = append(texts, string(b))
						if ci == 1 && i+2*len(ch) <= L {
							copy(b[i+len(ch):], ch)
							texts = append(texts, string(b))
						}
					}
				}
			}
			checked := []drivers.Driver{drivers.ReadMessageLoop(), drivers.ReadSideMessageLoop(), drivers.ReadDataLoop("Generic"), drivers.ReadDataLoop("Text"), drivers.NextReaderLoop(), drivers.ReaderLoop(7), drivers.ReaderLoop(512), drivers.ReaderCopy()}
			t.Par(len(texts), func(ti int) {
				txt := texts[ti]
				for _, side := range []streams.Side{streams.Server, streams.Client} {
					mk := func(i int, op byte, fin bool, p string) streams.Frame {
						return streams.Frame{H: refmodel.Hdr{Fin: fin, Op: op, Masked: side == streams.Server, Mask: streams.Masks[(i+len(p))%3]}, Payload: []byte(p)}
					}
					st := stream{side, []streams.Frame{mk(0, 1, true, txt), mk(1, 1, false, txt[:len(txt)/2]), mk(2, 0, true, txt[len(txt)/2:])}}
					data, _ := streams.Wire(st.frames)
					for _, d := range checked {
						for _, ch := range []int{0, 1, 8, 9, 16} {
							d, ch := d, ch
							t.Do(func() string {
								return fmt.Sprintf("%s text %q whole and in two fragments, driver=%s chunk=%d", side, txt, d.Name, ch)
							}, func() *explore.Fail {
								src := env.NewSrc(data)
								src.Policy = env.FixedChunk(ch)
								var res drivers.Result
								d.Run(src, side, drivers.Cfg{CheckUTF8: true}, &res)
								return judge(d, st, &res, src)
							})
						}
					}
				}
			})
			t.Outcome("delivered-as-model")
		})
	})
}
