// C18: reset or pooled reuse makes writers, readers and negotiators behave as new.
package main

import (
	"bytes"
	"compress/flate"
	"errors"
	"fmt"
	"github.com/gobwas/httphead"
	"io"
	"sort"
	"strings"

	"github.com/gobwas/ws"
	"github.com/gobwas/ws/wsflate"
	"github.com/gobwas/ws/wsutil"
	"verifshim/vsync"

	"verifmc/drivers"
	"verifmc/env"
	"verifmc/explore"
	"verifmc/fp"
	"verifmc/refmodel"
	"verifmc/streams"
	"verifmc/wops"
)

// ---- fragmenting writer -------------------------------------------------------------

type preCfg struct {
	client, ext, noflush bool
	op                   ws.OpCode
	failAt               int // destination call index that fails during the pre-history (-1 none)
}

func (p preCfg) String() string {
	return fmt.Sprintf("pre{client=%v ext=%v noflush=%v op=%x failAt=%d}", p.client, p.ext, p.noflush, byte(p.op), p.failAt)
}

func observe(w *wsutil.Writer, d *env.Dst, c wops.Cfg, q []wops.Op) string {
	s := wops.NewSession(c, w, d)
	var b strings.Builder
	for _, o := range q {
		f := s.Apply(o)
		ob := s.Obs
		if len(ob) > 0 {
			x := ob[len(ob)-1]
			fmt.Fprintf(&b, "%s -> n=%d err=%q buf=%d avail=%d size=%d calls=%d frames=%s", x.Op, x.N, x.Err, x.Buffered, x.Available, x.Size, x.DestCalls, x.Frames)
		}
		if f != nil {
			fmt.Fprintf(&b, " !%s", f.Sig)
		}
		b.WriteString("\n")
		s.Obs = nil
	}
	frames, rest := drivers.ParseFrames(d.Bytes())
	for _, f := range frames {
		fmt.Fprintf(&b, "[fin=%v rsv=%d op=%x masked=%v %x]", f.H.Fin, f.H.Rsv, f.H.Op, f.H.Masked, f.Payload)
	}
	fmt.Fprintf(&b, " rest=%d", len(rest))
	return b.String()
}

func opsDesc(q []wops.Op) string {
	var p []string
	for _, o := range q {
		p = append(p, o.String())
	}
	return strings.Join(p, "; ")
}

func rawLen(w *wsutil.Writer) int { return fp.Field(w, "raw").Len() }

func writerPart(t *explore.T, how string, depthH, depthQ int) {
	// configurations before and after the reset
	var pres []preCfg
	for _, client := range []bool{false, true} {
		for _, ext := range []bool{false, true} {
			for _, nf := range []bool{false, true} {
				for _, fail := range []int{-1, 0, 1} {
					pres = append(pres, preCfg{client, ext, nf, ws.OpText, fail})
				}
			}
		}
	}
	type post struct {
		client bool
		op     ws.OpCode
	}
	posts := []post{{false, ws.OpBinary}, {true, ws.OpBinary}, {true, ws.OpText}}
	sizes := []int{16, 130}
	if how == "pool" {
		sizes = []int{128}
	}
	for _, n := range sizes {
		for _, pre := range pres {
			for _, po := range posts {
				if how == "ResetOp" && (po.client != pre.client || pre.failAt >= 0) {
					continue // ResetOp keeps the side; its behaviour after an I/O error is not specified
				}
				n, pre, po := n, pre, po
				// alphabets
				mk := func() (*wsutil.Writer, *env.Dst, wops.Cfg) {
					d := env.NewDst()
					d.FailAt = pre.failAt
					c := wops.Cfg{Ctor: "NewWriterSize", N: n, Client: pre.client, NoFlush: pre.noflush, Ext: pre.ext, OpCode: pre.op}
					w, _ := wops.Build(c, d)
					return w, d, c
				}
				w0, _, _ := mk()
				alphaH := wops.Alphabet(w0.Size())
				var hs [][]wops.Op
				var recH func(h []wops.Op)
				recH = func(h []wops.Op) {
					hs = append(hs, append([]wops.Op{}, h...))
					if len(h) == depthH {
						return
					}
					for _, o := range alphaH {
						if o.Kind == "ReadFrom" && o.Chunk != 0 {
							continue
						}
						recH(append(h, o))
					}
				}
				recH(nil)
				body := func(hi int) {
					h := hs[hi]
					// run the pre-history once to learn the buffer size the fresh twin needs
					wp, dp, cp := mk()
					sp := wops.NewSession(cp, wp, dp)
					for _, o := range h {
						sp.Apply(o)
					}
					S := wp.Size()
					raw := rawLen(wp)
					alphaQ := []wops.Op{{Kind: "Write", K: 1, Rel: "1"}, {Kind: "Write", K: S + 1, Rel: "S+1"}, {Kind: "WriteThrough", K: 2, Rel: "2"},
						{Kind: "FlushFragment"}, {Kind: "Flush"}, {Kind: "ReadFrom", K: S, Rel: "S"}}
					var qs [][]wops.Op
					var recQ func(q []wops.Op)
					recQ = func(q []wops.Op) {
						if len(q) > 0 {
							qs = append(qs, append(append([]wops.Op{}, q...), wops.Op{Kind: "Flush"}))
						}
						if len(q) == depthQ {
							return
						}
						for _, o := range alphaQ {
							recQ(append(q, o))
						}
					}
					recQ(nil)
					for _, q := range qs {
						q := q
						t.Do(func() string {
							return fmt.Sprintf("%s n=%d %s history=[%s] -> post{client=%v op=%x} then [%s]", how, n, pre, opsDesc(h), po.client, byte(po.op), opsDesc(q))
						}, func() *explore.Fail {
							if how == "pool" {
								vsync.SetMode(vsync.LIFO)
								vsync.ResetAll()
								defer vsync.SetMode(vsync.Passthrough)
							}
							w, d, c := mk()
							s := wops.NewSession(c, w, d)
							for _, o := range h {
								s.Apply(o)
							}
							st := ws.StateServerSide
							if po.client {
								st = ws.StateClientSide
							}
							d2 := env.NewDst()
							postCfg := wops.Cfg{Client: po.client, OpCode: po.op}
							var rw *wsutil.Writer
							switch how {
							case "Reset":
								w.Reset(d2, st, po.op)
								rw = w
							case "ResetOp":
								// keeps destination, side, extensions and flush mode
								w.ResetOp(po.op)
								rw = w
								d2 = d
								postCfg = wops.Cfg{Client: pre.client, OpCode: po.op, Ext: pre.ext, NoFlush: pre.noflush}
							case "pool":
								size := w.Size()
								wsutil.PutWriter(w)
								rw = wsutil.GetWriter(d2, st, po.op, size)
								if rw != w {
									t.Outcome("pool-did-not-recycle(size not a class)")
									return nil
								}
							}
							// fresh twin with the same buffer size
							var fd *env.Dst
							var fw *wsutil.Writer
							if how == "ResetOp" {
								fd = env.NewDst()
								// the twin's destination starts with what the recycled one already sent
								fd.Calls = append(fd.Calls, d.Calls...)
								fw = wsutil.NewWriterBuffer(fd, c.State(), po.op, make([]byte, rawLen(w)))
								wops.Configure(fw, postCfg)
							} else {
								fd = env.NewDst()
								fw = wsutil.NewWriterBuffer(fd, st, po.op, make([]byte, raw))
							}
							if how == "ResetOp" {
								nBefore := len(d.Bytes())
								got := observeFrom(rw, d2, postCfg, q, nBefore)
								want := observeFrom(fw, fd, postCfg, q, nBefore)
								if got != want {
									return explore.Failf("ResetOp-differs-from-fresh", "recycled:\n%s\nfresh:\n%s", got, want)
								}
								t.Outcome("same-as-fresh")
								return nil
							}
							got := observe(rw, d2, postCfg, q)
							want := observe(fw, fd, postCfg, q)
							if got != want {
								cls := "clean-history"
								if pre.failAt >= 0 && dp.Failed {
									cls = "after-io-error"
								}
								return explore.Failf(how+"-differs-from-fresh:"+cls, "recycled:\n%s\nfresh:\n%s", got, want)
							}
							t.Outcome("same-as-fresh")
							return nil
						})
					}
				}
				if how == "pool" {
					for hi := range hs {
						body(hi)
					}
				} else {
					t.Par(len(hs), body)
				}
			}
		}
	}
}

// observeFrom is observe for a destination that already holds nBefore bytes.
func observeFrom(w *wsutil.Writer, d *env.Dst, c wops.Cfg, q []wops.Op, nBefore int) string {
	var b strings.Builder
	for _, o := range q {
		before := len(d.Bytes())
		var n int64
		var err error
		switch o.Kind {
		case "Write":
			var k int
			k, err = w.Write(wops.Gen(0, o.K))
			n = int64(k)
		case "WriteThrough":
			var k int
			k, err = w.WriteThrough(wops.Gen(0, o.K))
			n = int64(k)
		case "FlushFragment":
			err = w.FlushFragment()
		case "Flush":
			err = w.Flush()
		case "ReadFrom":
			n, err = w.ReadFrom(bytes.NewReader(wops.Gen(0, o.K)))
		}
		frames, rest := drivers.ParseFrames(d.Bytes()[before:])
		fmt.Fprintf(&b, "%s -> n=%d err=%v buf=%d size=%d:", o, n, err, w.Buffered(), w.Size())
		for _, f := range frames {
			fmt.Fprintf(&b, "[fin=%v rsv=%d op=%x masked=%v %x]", f.H.Fin, f.H.Rsv, f.H.Op, f.H.Masked, f.Payload)
		}
		fmt.Fprintf(&b, " rest=%d\n", len(rest))
	}
	return b.String()
}

// ---- wsflate writer / reader ----------------------------------------------------------

type resettableDecomp struct{ r io.ReadCloser }

func (d *resettableDecomp) Read(p []byte) (int, error) { return d.r.Read(p) }
func (d *resettableDecomp) Reset(src io.Reader)        { d.r.(flate.Resetter).Reset(src, nil) }
func (d *resettableDecomp) Close() error               { return d.r.Close() }

type noResetComp struct{ f *flate.Writer }

func (n noResetComp) Write(p []byte) (int, error) { return n.f.Write(p) }
func (n noResetComp) Flush() error                { return n.f.Flush() }
func (n noResetComp) Close() error                { return n.f.Close() }

type badComp struct{ w io.Writer }

func (b badComp) Write(p []byte) (int, error) { return b.w.Write(p) }
func (b badComp) Flush() error                { return nil }

var errDst = errors.New("dst down")

func main() {
	explore.Main("C18", func(r *explore.Run) {
		r.Part("E1-Writer.Reset", func(t *explore.T) { writerPart(t, "Reset", t.Pick(2, 3), t.Pick(2, 3)) })
		r.Part("E2-Writer.ResetOp", func(t *explore.T) { writerPart(t, "ResetOp", t.Pick(2, 3), t.Pick(2, 3)) })
		r.Part("E3-PutWriter-GetWriter", func(t *explore.T) {
			writerPart(t, "pool", t.Pick(2, 2), t.Pick(2, 3))
			t.Note("shimmed pool in LIFO mode; instance identity asserted so the cycle is not vacuous")
		})

		// Whatever writer an application hands to PutWriter - one it built over a buffer of its own,
		// whose capacity may exceed its length - a later GetWriter(n) for any size gives a writer that
		// behaves like a fresh GetWriter(n): same Size(), same frames for the same writes.
		r.Part("E3b-GetWriter-after-PutWriter-of-application-built-writers", func(t *explore.T) {
			for _, client := range []bool{false, true} {
				for _, ln := range []int{20, 64, 200, 1000} {
					for _, cp := range []int{0, 128, 256, 1024, 4096} {
						if cp != 0 && cp <= ln {
							continue
						}
						client, ln, cp := client, ln, cp
						t.Do(func() string {
							return fmt.Sprintf("client=%v: a writer over an application buffer of len %d cap %d is written, flushed and given to PutWriter; then GetWriter for every size class", client, ln, cp)
						}, func() *explore.Fail {
							vsync.SetMode(vsync.LIFO)
							vsync.ResetAll()
							defer vsync.SetMode(vsync.Passthrough)
							st := ws.StateServerSide
							if client {
								st = ws.StateClientSide
							}
							buf := make([]byte, ln)
							if cp != 0 {
								buf = make([]byte, ln, cp)
							}
							w := wsutil.NewWriterBuffer(env.NewDst(), st, ws.OpText, buf)
							w.Write([]byte("hello"))
							w.Flush()
							wsutil.PutWriter(w)
							for _, n := range []int{128, 256, 512, 1024, 2048, 4096, 65536} {
								run := func(g *wsutil.Writer, d *env.Dst) string {
									g.Write(bytes.Repeat([]byte{'x'}, 300))
									g.Flush()
									fr, rest := drivers.ParseFrames(d.Bytes())
									var b strings.Builder
									fmt.Fprintf(&b, "size=%d rest=%d", g.Size(), len(rest))
									for _, f := range fr {
										fmt.Fprintf(&b, " [fin=%v op=%x len=%d]", f.H.Fin, f.H.Op, len(f.Payload))
									}
									return b.String()
								}
								d1 := env.NewDst()
								got := run(wsutil.GetWriter(d1, st, ws.OpBinary, n), d1)
								vsync.ResetAll()
								d2 := env.NewDst()
								want := run(wsutil.GetWriter(d2, st, ws.OpBinary, n), d2)
								if got != want {
									return explore.Failf("GetWriter-after-PutWriter-of-an-application-writer-differs-from-fresh", "GetWriter(%d): %s; on an empty pool: %s", n, got, want)
								}
								// put the odd writer back for the next class
								w2 := wsutil.NewWriterBuffer(env.NewDst(), st, ws.OpText, buf)
								wsutil.PutWriter(w2)
							}
							return nil
						})
					}
				}
			}
			t.Outcome("as-fresh")
		})

		r.Part("E4-wsflate.Writer.Reset", func(t *explore.T) {
			type ctor struct {
				name string
				mk   func(w io.Writer) wsflate.Compressor
			}
			ctors := []ctor{
				{"flate", func(w io.Writer) wsflate.Compressor { f, _ := flate.NewWriter(w, 6); return f }},
				{"flate-noreset", func(w io.Writer) wsflate.Compressor { f, _ := flate.NewWriter(w, 6); return noResetComp{f} }},
				{"bad", func(w io.Writer) wsflate.Compressor { return badComp{w} }},
			}
			type op struct {
				kind string
				data string
			}
			alpha := []op{{"Write", "hello hello hello"}, {"Write", ""}, {"Write", strings.Repeat("xyz", 500)}, {"Flush", ""}, {"Close", ""}}
			apply := func(w *wsflate.Writer, o op) error {
				switch o.kind {
				case "Write":
					_, err := w.Write([]byte(o.data))
					return err
				case "Flush":
					return w.Flush()
				default:
					return w.Close()
				}
			}
			var seqs [][]op
			var rec func(s []op, d int)
			rec = func(s []op, d int) {
				seqs = append(seqs, append([]op{}, s...))
				if len(s) == d {
					return
				}
				for _, o := range alpha {
					rec(append(s, o), d)
				}
			}
			rec(nil, t.Pick(2, 3))
			for _, c := range ctors {
				for _, failPre := range []int{-1, 0, 1} {
					for _, h := range seqs {
						for _, q := range seqs {
							if len(q) == 0 {
								continue
							}
							c, failPre, h, q := c, failPre, h, q
							t.Do(func() string {
								return fmt.Sprintf("compressor=%s preFailAt=%d history=%v post=%v", c.name, failPre, h, q)
							}, func() *explore.Fail {
								run := func(w *wsflate.Writer, d *env.Dst) string {
									var b strings.Builder
									for _, o := range q {
										err := apply(w, o)
										fmt.Fprintf(&b, "%s:%v err=%v;", o.kind, len(o.data), err)
									}
									fmt.Fprintf(&b, " out=%x Err=%v", d.Bytes(), w.Err())
									return b.String()
								}
								d1 := env.NewDst()
								d1.FailAt = failPre
								w := wsflate.NewWriter(d1, c.mk)
								for _, o := range h {
									apply(w, o)
								}
								d2 := env.NewDst()
								w.Reset(d2)
								got := run(w, d2)
								d3 := env.NewDst()
								want := run(wsflate.NewWriter(d3, c.mk), d3)
								if got != want {
									return explore.Failf("flate-writer-Reset-differs:"+c.name, "recycled: %s\nfresh:    %s", got, want)
								}
								t.Outcome("same-as-fresh")
								return nil
							})
						}
					}
				}
			}
		})

		// The same with destinations that can do more than Write - a buffered writer with a Flush
		// method of its own (bufio.Writer, wsutil.Writer), which also reads from readers and takes
		// strings: after Reset the old destination is never touched again, in any way, and the new
		// one sees exactly the calls a fresh writer's destination sees.
		r.Part("E4b-wsflate.Writer.Reset-with-destinations-that-have-more-methods", func(t *explore.T) {
			type op struct {
				kind string
				data string
			}
			alpha := []op{{"Write", "hello hello hello"}, {"Write", strings.Repeat("xyz", 500)}, {"Flush", ""}, {"Close", ""}}
			apply := func(w *wsflate.Writer, o op) {
				switch o.kind {
				case "Write":
					w.Write([]byte(o.data))
				case "Flush":
					w.Flush()
				default:
					w.Close()
				}
			}
			var seqs [][]op
			var rec func(s []op, d int)
			rec = func(s []op, d int) {
				seqs = append(seqs, append([]op{}, s...))
				if len(s) == d {
					return
				}
				for _, o := range alpha {
					rec(append(s, o), d)
				}
			}
			rec(nil, t.Pick(2, 3))
			mk := func(w io.Writer) wsflate.Compressor { f, _ := flate.NewWriter(w, 6); return f }
			for _, h := range seqs {
				for _, q := range seqs {
					if len(q) == 0 {
						continue
					}
					h, q := h, q
					t.Do(func() string { return fmt.Sprintf("history=%v Reset(other destination) post=%v", h, q) }, func() *explore.Fail {
						d1 := &richDst{}
						w := wsflate.NewWriter(d1, mk)
						for _, o := range h {
							apply(w, o)
						}
						before := len(d1.log)
						d2 := &richDst{}
						w.Reset(d2)
						for _, o := range q {
							apply(w, o)
						}
						d3 := &richDst{}
						f := wsflate.NewWriter(d3, mk)
						for _, o := range q {
							apply(f, o)
						}
						if len(d1.log) != before {
							return explore.Failf("flate-writer-touches-its-old-destination-after-Reset", "calls that arrived at the old destination after Reset: %v", d1.log[before:])
						}
						if got, want := strings.Join(d2.log, ";"), strings.Join(d3.log, ";"); got != want {
							return explore.Failf("flate-writer-Reset-differs:calls-at-the-destination", "recycled: %s\nfresh:    %s", got, want)
						}
						return nil
					})
				}
			}
			t.Outcome("same-as-fresh")
		})

		r.Part("E5-wsflate.Reader.Reset", func(t *explore.T) {
			comp := func(s string) []byte {
				var b bytes.Buffer
				w := wsflate.NewWriter(&b, func(w io.Writer) wsflate.Compressor { f, _ := flate.NewWriter(w, 6); return f })
				w.Write([]byte(s))
				w.Flush()
				return b.Bytes()
			}
			good1, good2 := comp("first message first message"), comp(strings.Repeat("second ", 300))
			corrupt := append([]byte{0xff, 0xff, 0xff}, good1...)
			type dctor struct {
				name                  string
				mk                    func(r io.Reader) wsflate.Decompressor
				good1, good2, corrupt []byte
			}
			// a peer pair that agreed on a preset dictionary: the streams only inflate with it
			dict := []byte("first message second message the quick brown fox ")
			compDict := func(s string) []byte {
				var b bytes.Buffer
				w := wsflate.NewWriter(&b, func(w io.Writer) wsflate.Compressor { f, _ := flate.NewWriterDict(w, 6, dict); return f })
				w.Write([]byte(s))
				w.Flush()
				return b.Bytes()
			}
			d1, d2 := compDict("first message first message"), compDict(strings.Repeat("second ", 300))
			dctors := []dctor{
				{"flate", func(r io.Reader) wsflate.Decompressor { return flate.NewReader(r) }, good1, good2, corrupt},
				{"flate-resettable", func(r io.Reader) wsflate.Decompressor { return &resettableDecomp{flate.NewReader(r)} }, good1, good2, corrupt},
				{"flate-with-preset-dictionary", func(r io.Reader) wsflate.Decompressor { return flate.NewReaderDict(r, dict) }, d1, d2, append([]byte{0xff, 0xff, 0xff}, d1...)},
			}
			srcKinds := []string{"bytes.Reader", "plain-chunk3", "plain-eof-with-data"}
			mkSrc := func(kind string, data []byte) io.Reader {
				switch kind {
				case "bytes.Reader":
					return bytes.NewReader(data)
				case "plain-chunk3":
					s := env.NewSrc(data)
					s.Policy = env.FixedChunk(3)
					return s
				}
				s := env.NewSrc(data)
				s.WithLast = true
				return s
			}
			pres := []string{"none", "partial-read", "full-read", "full-read+close", "corrupt-stream", "close-only", "partial-read+close"}
			for _, dc := range dctors {
				for _, k1 := range srcKinds {
					for _, k2 := range srcKinds {
						for _, pre := range pres {
							for _, second := range []string{"good2", "good1", "corrupt"} {
								dc, k1, k2, pre, second := dc, k1, k2, pre, second
								t.Do(func() string {
									return fmt.Sprintf("decompressor=%s src1=%s pre=%s -> Reset(src2=%s %s)", dc.name, k1, pre, k2, second)
								}, func() *explore.Fail {
									good1, corrupt := dc.good1, dc.corrupt
									data2 := map[string][]byte{"good2": dc.good2, "good1": dc.good1, "corrupt": dc.corrupt}[second]
									rd := wsflate.NewReader(mkSrc(k1, good1), dc.mk)
									switch pre {
									case "partial-read":
										rd.Read(make([]byte, 5))
									case "partial-read+close":
										rd.Read(make([]byte, 5))
										rd.Close()
									case "full-read":
										io.ReadAll(rd)
									case "full-read+close":
										io.ReadAll(rd)
										rd.Close()
									case "corrupt-stream":
										rd.Reset(mkSrc(k1, corrupt))
										io.ReadAll(rd)
									case "close-only":
										rd.Close()
									}
									rd.Reset(mkSrc(k2, data2))
									run := func(r *wsflate.Reader) string {
										p, err := io.ReadAll(r)
										cerr := r.Close()
										return fmt.Sprintf("%d bytes %x.. err=%v close=%v Err=%v", len(p), head(p), err, cerr, r.Err())
									}
									got := run(rd)
									want := run(wsflate.NewReader(mkSrc(k2, data2), dc.mk))
									if got != want {
										return explore.Failf("flate-reader-Reset-differs:"+pre, "recycled: %s\nfresh:    %s", got, want)
									}
									t.Outcome("same-as-fresh")
									return nil
								})
							}
						}
					}
				}
			}
		})

		// The permessage-deflate negotiator is reused across upgrades through Reset, and its owner
		// may reassign Parameters in between: after Reset it answers, and reports, exactly like a
		// fresh one configured the same way - whatever it negotiated, refused or failed on before.
		// The README's receive loop with compression: one wsutil.Reader for the connection and one
		// flate reader Reset *onto that same Reader* for every compressed message. The earlier
		// message may have been read to its end, read in part and discarded, or not read at all
		// (Discard), fragmented or not: the next message comes out as from a fresh flate reader.
		r.Part("E5c-flate-reader-reset-onto-the-same-source", func(t *explore.T) {
			compress := func(s string) []byte {
				var b bytes.Buffer
				w := wsflate.NewWriter(&b, func(w io.Writer) wsflate.Compressor { f, _ := flate.NewWriter(w, 6); return f })
				w.Write([]byte(s))
				w.Flush()
				return b.Bytes()
			}
			texts := []string{"Hello", strings.Repeat("first message ", 40), ""}
			for _, side := range []streams.Side{streams.Server, streams.Client} {
				for ti, t1 := range texts {
					for _, frags := range []int{1, 2, 3} {
						for _, consume := range []string{"ReadAll", "Read(3)+Discard", "Discard"} {
							for _, withPing := range []bool{false, true} {
								side, t1, frags, consume, withPing, ti := side, t1, frags, consume, withPing, ti
								t.Do(func() string {
									return fmt.Sprintf("%s compressed text #%d in %d fragment(s) (ping between=%v) taken by %s, then a second compressed message, flate reader Reset onto the same wsutil.Reader", side, ti, frags, withPing, consume)
								}, func() *explore.Fail {
									second := "second message, " + strings.Repeat("again ", 20)
									mk := func(i int, op byte, fin bool, rsv byte, p []byte) []byte {
										return streams.Frame{H: refmodel.Hdr{Fin: fin, Rsv: rsv, Op: op, Masked: side == streams.Server, Mask: streams.Masks[i%3]}, Payload: p}.Wire()
									}
									var data []byte
									c1 := compress(t1)
									for k := 0; k < frags; k++ {
										op, rsv := byte(0), byte(0)
										if k == 0 {
											op, rsv = 1, 4
										}
										data = append(data, mk(k, op, k == frags-1, rsv, c1[k*len(c1)/frags:(k+1)*len(c1)/frags])...)
										if withPing && k != frags-1 {
											data = append(data, mk(k, 9, true, 0, []byte("pi"))...)
										}
									}
									data = append(data, mk(5, 1, true, 4, compress(second))...)
									var ms wsflate.MessageState
									rd := &wsutil.Reader{Source: env.NewSrc(data), State: drivers.State(side) | ws.StateExtended, Extensions: []wsutil.RecvExtension{&ms},
										OnIntermediate: func(h ws.Header, r io.Reader) error { _, e := io.Copy(io.Discard, r); return e }}
									fr := wsflate.NewReader(nil, func(r io.Reader) wsflate.Decompressor { return flate.NewReader(r) })
									if _, err := rd.NextFrame(); err != nil {
										return explore.Failf("harness-first-frame", "%v", err)
									}
									fr.Reset(rd)
									switch consume {
									case "ReadAll":
										p, err := io.ReadAll(fr)
										if err != nil || string(p) != t1 {
											return explore.Failf("first-message-wrong", "%q %v", p, err)
										}
									case "Read(3)+Discard":
										fr.Read(make([]byte, 3))
										if err := rd.Discard(); err != nil {
											return explore.Failf("harness-discard", "%v", err)
										}
									default:
										if err := rd.Discard(); err != nil {
											return explore.Failf("harness-discard", "%v", err)
										}
									}
									h, err := rd.NextFrame()
									if err != nil || !ms.IsCompressed() {
										return explore.Failf("second-message-header", "%+v err=%v compressed=%v", h, err, ms.IsCompressed())
									}
									fr.Reset(rd)
									p, err := io.ReadAll(fr)
									if err != nil || string(p) != second {
										return explore.Failf("flate-reader-reset-onto-the-same-source-loses-the-next-message", "got %q err=%v", p, err)
									}
									return nil
								})
							}
						}
					}
				}
			}
			t.Outcome("as-fresh")
		})

		r.Part("E5b-wsflate.Extension.Reset", func(t *explore.T) {
			type P = wsflate.Parameters
			var ps []P
			for _, a := range []bool{false, true} {
				for _, b := range []bool{false, true} {
					for _, sw := range []wsflate.WindowBits{0, 9, 15} {
						for _, cw := range []wsflate.WindowBits{0, 1, 11} {
							ps = append(ps, P{ServerNoContextTakeover: a, ClientNoContextTakeover: b, ServerMaxWindowBits: sw, ClientMaxWindowBits: cw})
						}
					}
				}
			}
			var cfgs []P
			for _, p := range ps {
				if p.ClientMaxWindowBits != 1 {
					cfgs = append(cfgs, p)
				}
			}
			bogus := httphead.Option{Name: []byte("permessage-deflate")}
			bogus.Parameters.Set([]byte("bogus"), nil)
			render := func(o httphead.Option, err error, e *wsflate.Extension) string {
				var b strings.Builder
				fmt.Fprintf(&b, "err=%v name=%q", err != nil, o.Name)
				var kv []string
				o.Parameters.ForEach(func(k, v []byte) bool { kv = append(kv, string(k)+"="+string(v)); return true })
				sort.Strings(kv)
				got, ok := e.Accepted()
				fmt.Fprintf(&b, " params=%v accepted=%v/%+v", kv, ok, got)
				return b.String()
			}
			t.Par(len(cfgs), func(ci int) {
				cfgA := cfgs[ci]
				for _, history := range []string{"accepted", "accepted-then-refused", "refused", "declined-list", "ill-valued-with-parameters"} {
					for _, offA := range []P{{}, {ServerMaxWindowBits: 10, ClientMaxWindowBits: 1}} {
						history, offA := history, offA
						t.DoN(int64(len(cfgs)*len(ps)), func() string {
							return fmt.Sprintf("first upgrade config%+v offer%+v (%s); Reset; Parameters reassigned; every config x offer", cfgA, offA, history)
						}, func() *explore.Fail {
							for _, cfgB := range cfgs {
								for _, offB := range ps {
									e := &wsflate.Extension{Parameters: cfgA}
									switch history {
									case "accepted":
										e.Negotiate(offA.Option())
									case "accepted-then-refused":
										e.Negotiate(offA.Option())
										e.Negotiate(bogus)
									case "refused":
										e.Negotiate(bogus)
									case "ill-valued-with-parameters":
										bad := (P{ServerNoContextTakeover: true, ClientMaxWindowBits: 12}).Option()
										bad.Parameters.Set([]byte("server_max_window_bits"), []byte("99"))
										e.Negotiate(bad)
									case "declined-list":
										e.Negotiate(offA.Option())
										e.Negotiate(offA.Option())
										e.Negotiate(offA.Option())
									}
									e.Reset()
									if got, ok := e.Accepted(); ok || got != (P{}) {
										return explore.Failf("Extension-Reset-leaves-state:"+history, "Accepted() right after Reset reports %+v, %v", got, ok)
									}
									e.Parameters = cfgB
									a, aerr := e.Negotiate(offB.Option())
									f := &wsflate.Extension{Parameters: cfgB}
									b, berr := f.Negotiate(offB.Option())
									if x, y := render(a, aerr, e), render(b, berr, f); x != y {
										return explore.Failf("Extension-after-Reset-differs-from-fresh:"+history, "second upgrade config%+v offer%+v\nreused: %s\nfresh:  %s", cfgB, offB, x, y)
									}
								}
							}
							return nil
						})
					}
				}
			})
			t.Outcome("same-as-fresh")
		})

		r.Part("E6-cipher-utf8-resets", func(t *explore.T) {
			m1, m2 := [4]byte{1, 2, 3, 4}, [4]byte{0xaa, 0xbb, 0xcc, 0xdd}
			data := []byte("0123456789abcdef")
			for pre := 0; pre <= 7; pre++ {
				pre := pre
				t.Do(func() string { return fmt.Sprintf("CipherReader.Reset after %d bytes", pre) }, func() *explore.Fail {
					cr := wsutil.NewCipherReader(bytes.NewReader(data), m1)
					cr.Read(make([]byte, pre))
					cr.Reset(bytes.NewReader(data), m2)
					got, _ := io.ReadAll(cr)
					want, _ := io.ReadAll(wsutil.NewCipherReader(bytes.NewReader(data), m2))
					if !bytes.Equal(got, want) || !bytes.Equal(got, refmodel.XOR(data, m2, 0)) {
						return explore.Failf("CipherReader-Reset", "got %x want %x", got, want)
					}
					return nil
				})
				t.Do(func() string { return fmt.Sprintf("CipherWriter.Reset after %d bytes", pre) }, func() *explore.Fail {
					var b1, b2, b3 bytes.Buffer
					cw := wsutil.NewCipherWriter(&b1, m1)
					cw.Write(data[:pre])
					cw.Reset(&b2, m2)
					cw.Write(data)
					wsutil.NewCipherWriter(&b3, m2).Write(data)
					if !bytes.Equal(b2.Bytes(), b3.Bytes()) || !bytes.Equal(b2.Bytes(), refmodel.XOR(data, m2, 0)) {
						return explore.Failf("CipherWriter-Reset", "")
					}
					return nil
				})
			}
			pres := [][]byte{{}, []byte("a"), {0xe2}, {0xe2, 0x82}, {0xe2, 0x82, 0xac}, {0xff}, []byte("abc"), {0xf0, 0x9f, 0x98}, {0xc0, 0x80}}
			posts := [][]byte{{}, []byte("a"), {0xe2, 0x82, 0xac}, {0x82, 0xac}, {0xff}, {0xe2}}
			for _, p := range pres {
				for _, q := range posts {
					for _, chunk := range []int{0, 1, -1, -2} {
						p, q, chunk := p, q, chunk
						t.Do(func() string { return fmt.Sprintf("UTF8Reader.Reset pre=%x post=%x chunk=%d", p, q, chunk) }, func() *explore.Fail {
							obsv := func(u *wsutil.UTF8Reader, first bool) string {
								var b strings.Builder
								fmt.Fprintf(&b, "valid0=%v accepted0=%d;", u.Valid(), u.Accepted())
								buf := make([]byte, 8)
								for i := 0; i < 20; i++ {
									n, err := u.Read(buf)
									fmt.Fprintf(&b, "read=%d,%v valid=%v accepted=%d;", n, err, u.Valid(), u.Accepted())
									if err != nil {
										break
									}
								}
								return b.String()
							}
							// chunk -1: the pre-history is a single Read (not up to EOF);
							// chunk -2: the source returns its last bytes together with io.EOF
							mk := func(d []byte) io.Reader {
								s := env.NewSrc(d)
								if chunk > 0 {
									s.Policy = env.FixedChunk(chunk)
								}
								s.WithLast = chunk == -2
								return s
							}
							u := wsutil.NewUTF8Reader(mk(p))
							if chunk == -1 {
								u.Read(make([]byte, 16))
							} else {
								io.ReadAll(u)
							}
							u.Reset(mk(q))
							got := obsv(u, false)
							want := obsv(wsutil.NewUTF8Reader(mk(q)), true)
							if got != want {
								return explore.Failf("UTF8Reader-Reset-differs", "recycled: %s\nfresh:    %s", got, want)
							}
							return nil
						})
					}
				}
			}
			t.Outcome("same-as-fresh")
		})

		// A message that ends in an error the stream survives (a text message whose payload turns
		// out not to be UTF-8, read to its last byte or not), then Discard, then the next message:
		// the reader must treat that next message like a fresh reader does.
		r.Part("E7b-Reader-after-a-rejected-message", func(t *explore.T) {
			bad := [][]byte{{0xff}, {'a', 0xff}, {0xe2, 0x82}, {'a', 'b', 0xc3}, {0xf0, 0x9f, 0x98}, {0xed, 0xa0, 0x80}, {0xc3, 0xa9, 0x80}}
			consume := func(rd *wsutil.Reader, max int) string {
				var b strings.Builder
				for i := 0; i < max; i++ {
					h, err := rd.NextFrame()
					if err != nil {
						fmt.Fprintf(&b, "NextFrame:%v", err)
						break
					}
					p, err := io.ReadAll(rd)
					fmt.Fprintf(&b, "[op=%x %x err=%v]", byte(h.OpCode), p, err)
					if err != nil {
						break
					}
				}
				return b.String()
			}
			for _, side := range []streams.Side{streams.Server, streams.Client} {
				var probes [][]streams.Frame
				streams.Valid(streams.Opts{Depth: 2, Side: side}, func(fr []streams.Frame) {
					probes = append(probes, append([]streams.Frame{}, fr...))
				})
				for _, payload := range bad {
					for split := 0; split <= len(payload); split++ {
						for _, readAll := range []bool{true, false} {
							side, payload, split, readAll := side, payload, split, readAll
							t.DoN(int64(len(probes)), func() string {
								return fmt.Sprintf("%s text %x|%x (read to the end: %v), Discard, then every valid stream of depth<=2", side, payload[:split], payload[split:], readAll)
							}, func() *explore.Fail {
								mk := func(i int, op byte, fin bool, p []byte) []byte {
									return streams.Frame{H: refmodel.Hdr{Fin: fin, Op: op, Masked: side == streams.Server, Mask: streams.Masks[i%3]}, Payload: p}.Wire()
								}
								var hist []byte
								if split == 0 || split == len(payload) {
									hist = mk(0, 1, true, payload)
								} else {
									hist = append(mk(0, 1, false, payload[:split]), mk(0, 0, true, payload[split:])...)
								}
								for _, q := range probes {
									qd, _ := streams.Wire(q)
									rd := &wsutil.Reader{Source: env.NewSrc(append(append([]byte{}, hist...), qd...)), State: drivers.State(side), CheckUTF8: true}
									if _, err := rd.NextFrame(); err != nil {
										return explore.Failf("harness-history", "%v", err)
									}
									if readAll {
										io.ReadAll(rd)
									} else {
										rd.Read(make([]byte, 1))
									}
									if err := rd.Discard(); err != nil && err != wsutil.ErrInvalidUTF8 {
										return explore.Failf("Discard-after-rejected-message", "%v", err)
									}
									got := consume(rd, len(q)+1)
									fresh := &wsutil.Reader{Source: env.NewSrc(qd), State: drivers.State(side), CheckUTF8: true}
									want := consume(fresh, len(q)+1)
									if got != want {
										return explore.Failf("Reader-after-rejected-message-differs-from-fresh", "probe [%s]\nafter history: %s\nfresh reader:  %s", streams.Describe(q), got, want)
									}
								}
								return nil
							})
						}
					}
				}
			}
			t.Outcome("same-as-fresh")
		})

		// The caller's continuation handler fails on a fragment (the last one, or an earlier one)
		// of a message; the caller drains or discards what is left and reads on: from the next
		// message on the reader is as good as new.
		r.Part("E7c-Reader-after-a-failed-continuation-handler", func(t *explore.T) {
			errHandler := fmt.Errorf("continuation handler says no")
			consume := func(rd *wsutil.Reader, max int) string {
				var b strings.Builder
				for i := 0; i < max; i++ {
					h, err := rd.NextFrame()
					if err != nil {
						fmt.Fprintf(&b, "NextFrame:%v", err)
						break
					}
					p, err := io.ReadAll(rd)
					fmt.Fprintf(&b, "[op=%x %x err=%v]", byte(h.OpCode), p, err)
					if err != nil {
						break
					}
				}
				return b.String()
			}
			for _, side := range []streams.Side{streams.Server, streams.Client} {
				var probes [][]streams.Frame
				streams.Valid(streams.Opts{Depth: 2, Side: side}, func(fr []streams.Frame) {
					probes = append(probes, append([]streams.Frame{}, fr...))
				})
				for _, failAt := range []string{"final-fragment", "middle-fragment"} {
					for _, how := range []string{"drain-with-Read", "Discard"} {
						for _, skipCheck := range []bool{false, true} {
							side, failAt, how, skipCheck := side, failAt, how, skipCheck
							t.DoN(int64(len(probes)), func() string {
								return fmt.Sprintf("%s Text-(a) Cont-() Cont(), handler fails on the %s, caller %s (SkipHeaderCheck=%v); then every valid stream of depth<=2", side, failAt, how, skipCheck)
							}, func() *explore.Fail {
								mk := func(i int, op byte, fin bool, p string) []byte {
									return streams.Frame{H: refmodel.Hdr{Fin: fin, Op: op, Masked: side == streams.Server, Mask: streams.Masks[i%3]}, Payload: []byte(p)}.Wire()
								}
								// continuation fragments are empty, so that giving up inside one loses no position
								hist := append(append(mk(0, 1, false, "a"), mk(1, 0, false, "")...), mk(2, 0, true, "")...)
								for _, q := range probes {
									qd, _ := streams.Wire(q)
									rd := &wsutil.Reader{Source: env.NewSrc(append(append([]byte{}, hist...), qd...)), State: drivers.State(side), SkipHeaderCheck: skipCheck}
									calls := 0
									rd.OnContinuation = func(h ws.Header, r io.Reader) error {
										calls++
										if (failAt == "final-fragment" && h.Fin && calls == 2) || (failAt == "middle-fragment" && calls == 1) {
											return errHandler
										}
										return nil
									}
									if _, err := rd.NextFrame(); err != nil {
										return explore.Failf("harness-history", "%v", err)
									}
									for i := 0; i < 5; i++ {
										var err error
										if how == "Discard" {
											err = rd.Discard()
										} else {
											_, err = io.ReadAll(rd)
										}
										if err != errHandler {
											break
										}
									}
									rd.OnContinuation = nil
									got := consume(rd, len(q)+1)
									fresh := &wsutil.Reader{Source: env.NewSrc(qd), State: drivers.State(side), SkipHeaderCheck: skipCheck}
									want := consume(fresh, len(q)+1)
									if got != want {
										return explore.Failf("Reader-after-failed-continuation-handler-differs-from-fresh:"+failAt, "probe [%s]\nafter history: %s\nfresh reader:  %s", streams.Describe(q), got, want)
									}
								}
								return nil
							})
						}
					}
				}
			}
			t.Outcome("same-as-fresh")
		})

		r.Part("E7-Reader-consecutive-messages", func(t *explore.T) {
			depth := t.Pick(3, 4)
			probes := func(side streams.Side) [][]streams.Frame {
				var out [][]streams.Frame
				streams.Valid(streams.Opts{Depth: 2, Side: side}, func(fr []streams.Frame) {
					out = append(out, append([]streams.Frame{}, fr...))
				})
				return out
			}
			for _, side := range []streams.Side{streams.Server, streams.Client} {
				var hsAll [][]streams.Frame
				streams.Valid(streams.Opts{Depth: depth, Side: side}, func(fr []streams.Frame) {
					hsAll = append(hsAll, append([]streams.Frame{}, fr...))
				})
				ps := probes(side)
				side := side
				t.Par(len(hsAll), func(i int) {
					h := hsAll[i]
					hd, _ := streams.Wire(h)
					for _, mode := range []string{"read", "discard", "discard-after-1-byte"} {
						for _, q := range ps {
							mode, q := mode, q
							t.Do(func() string {
								return fmt.Sprintf("%s history=[%s] (%s) then [%s]", side, streams.Describe(h), mode, streams.Describe(q))
							}, func() *explore.Fail {
								qd, _ := streams.Wire(q)
								// recycled: one Reader consumes history then the probe
								d := drivers.ReaderLoop(7)
								if mode == "discard" {
									d = drivers.ReaderDiscard(0)
								} else if mode == "discard-after-1-byte" {
									// may stop inside a multi-byte sequence of a text message
									d = drivers.ReaderDiscard(1)
								}
								var res drivers.Result
								d.Run(env.NewSrc(append(append([]byte{}, hd...), qd...)), side, drivers.Cfg{CheckUTF8: true}, &res)
								evH, _ := refmodel.Messages(h)
								nH := len(d.Expect(evH))
								if len(res.Events) < nH {
									return explore.Failf("history-not-delivered", "")
								}
								got := fmt.Sprintf("%s err=%v", drivers.FmtEvents(res.Events[nH:]), res.Err)
								var fres drivers.Result
								d.Run(env.NewSrc(qd), side, drivers.Cfg{CheckUTF8: true}, &fres)
								want := fmt.Sprintf("%s err=%v", drivers.FmtEvents(fres.Events), fres.Err)
								if got != want {
									return explore.Failf("Reader-next-message-differs-from-fresh:"+mode, "after history: %s\nfresh reader:  %s", got, want)
								}
								// internal state equals a fresh reader's that read the same probe
								if a, b := fp.Of(nil, stripReader(res.Reader)), fp.Of(nil, stripReader(fres.Reader)); a != b {
									return explore.Failf("Reader-internal-state-differs-from-fresh:"+mode, "")
								}
								return nil
							})
						}
					}
				})
			}
			t.Outcome("same-as-fresh")
		})
	})
}

// stripReader renders the reader's state without its source and scratch header bytes.
func stripReader(r *wsutil.Reader) string {
	return fmt.Sprintf("state=%d opCode=%v frame=%v rawN=%v utf8=%v/%v", r.State, fp.Field(r, "opCode").Uint(), !fp.Field(r, "frame").IsNil(),
		fp.Field(r, "raw").FieldByName("N").Int(), fp.Field(r, "utf8").FieldByName("state").Uint(), fp.Field(r, "utf8").FieldByName("codep").Uint())
}

func head(p []byte) []byte {
	if len(p) > 8 {
		return p[:8]
	}
	return p
}

// richDst is a destination with the optional methods buffered writers have; it logs every
// call that reaches it.
type richDst struct{ log []string }

func (d *richDst) Write(p []byte) (int, error) {
	d.log = append(d.log, fmt.Sprintf("Write(%x)", p))
	return len(p), nil
}
func (d *richDst) Flush() error { d.log = append(d.log, "Flush()"); return nil }
func (d *richDst) WriteString(s string) (int, error) {
	d.log = append(d.log, fmt.Sprintf("WriteString(%x)", s))
	return len(s), nil
}
func (d *richDst) WriteByte(c byte) error {
	d.log = append(d.log, fmt.Sprintf("WriteByte(%x)", c))
	return nil
}
func (d *richDst) Close() error { d.log = append(d.log, "Close()"); return nil }
