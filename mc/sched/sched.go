// Package sched is the cooperative scheduler of C19: harness threads are goroutines that hold
// a baton; a thread gives the baton back at every hooked operation (before and after each
// Get/Put of the shimmed sync.Pool). Which thread continues is the explorer's choice.
package sched

import (
	"fmt"
	"math/rand"
	"runtime"
	"runtime/debug"
	"sync"

	"verifmc/explore"
)

type Thread struct {
	ID     int
	Name   string
	body   func(t *Thread)
	resume chan struct{}
	done   bool
	PC     int // scheduling points passed
	Log    []string
	panicV string
}

func (t *Thread) Logf(format string, a ...interface{}) {
	t.Log = append(t.Log, fmt.Sprintf(format, a...))
}

type Sched struct {
	threads []*Thread
	cur     *Thread
	yield   chan *Thread
	abort   chan struct{}
	aborted bool
	wg      sync.WaitGroup
	// KeyFn, when set, computes the global state key at every scheduling decision.
	KeyFn func() string
	// Preemptions taken in this execution.
	Preemptions int
	Steps       int
	Trace       []int
}

func New() *Sched { return &Sched{yield: make(chan *Thread), abort: make(chan struct{})} }

func (s *Sched) Go(name string, body func(t *Thread)) *Thread {
	t := &Thread{ID: len(s.threads), Name: name, body: body, resume: make(chan struct{})}
	s.threads = append(s.threads, t)
	return t
}

// Point is called by the hooks in the running thread: hand the baton back and wait.
func (s *Sched) Point() {
	t := s.cur
	if t == nil {
		return // not under the scheduler (solo reference runs)
	}
	t.PC++
	s.yield <- t
	select {
	case <-t.resume:
	case <-s.abort:
		runtime.Goexit()
	}
}

// Current returns the running thread.
func (s *Sched) Current() *Thread { return s.cur }

// Run executes all threads to completion; at every scheduling point the chooser picks who
// continues: choice 0 = the thread that was running (if still enabled), then ascending ids.
// Switching away from a thread that could continue costs one preemption.
func (s *Sched) Run(c *explore.Chooser) (deadlock bool) {
	for _, t := range s.threads {
		t := t
		s.wg.Add(1)
		go func() {
			defer s.wg.Done()
			select {
			case <-t.resume:
			case <-s.abort:
				return
			}
			defer func() {
				if e := recover(); e != nil {
					t.panicV = fmt.Sprintf("%v\n%s", e, debug.Stack())
				}
				if s.aborted {
					return
				}
				t.done = true
				s.yield <- t
			}()
			t.body(t)
		}()
	}
	// if the explorer abandons this execution (state pruned, divergence) release the parked
	// goroutines so that they do not accumulate
	defer func() {
		if e := recover(); e != nil {
			s.aborted = true
			s.cur = nil
			close(s.abort)
			s.wg.Wait() // zombies must be gone before the next execution touches the pools
			panic(e)
		}
	}()
	var last *Thread
	for {
		var enabled []*Thread
		if last != nil && !last.done {
			enabled = append(enabled, last)
		}
		for _, t := range s.threads {
			if !t.done && t != last {
				enabled = append(enabled, t)
			}
		}
		if len(enabled) == 0 {
			return false
		}
		if s.KeyFn != nil {
			c.Key(s.KeyFn())
		}
		cost := 0
		if last != nil && !last.done {
			cost = 1
		}
		v := 0
		if len(enabled) > 1 {
			v = c.Choose(len(enabled), cost, "run")
		}
		t := enabled[v]
		if v != 0 && cost == 1 {
			s.Preemptions++
		}
		s.Trace = append(s.Trace, t.ID)
		s.Steps++
		// per-thread deterministic randomness: the global math/rand source is reseeded from
		// (thread, pc) at every hand-off, so masks and nonces do not depend on the schedule
		rand.Seed(int64(t.ID)*1000003 + int64(t.PC)*7919 + 12345)
		s.cur = t
		t.resume <- struct{}{}
		<-s.yield
		s.cur = nil
		last = t
	}
}

// Panics returns the panics of all threads.
func (s *Sched) Panics() []string {
	var out []string
	for _, t := range s.threads {
		if t.panicV != "" {
			out = append(out, t.Name+": "+t.panicV)
		}
	}
	return out
}

func (s *Sched) Threads() []*Thread { return s.threads }
