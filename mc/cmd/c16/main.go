// C16: truncated or failing transports never yield a complete-looking message.
package main

import (
	"bufio"
	"bytes"
	"fmt"
	"io"
	"net/url"
	"strings"

	"github.com/gobwas/ws"
	"github.com/gobwas/ws/wsflate"
	"github.com/gobwas/ws/wsutil"

	"verifmc/hs"

	"verifmc/drivers"
	"verifmc/env"
	"verifmc/explore"
	"verifmc/refmodel"
	"verifmc/streams"
	"verifmc/wops"
)

type stream struct {
	side   streams.Side
	frames []streams.Frame
}

func collect(depth int) []stream {
	var out []stream
	ctls := []streams.Ctl{{Op: 9, Payload: []byte("0123456789")}, {Op: 10, Payload: []byte("po")}}
	for _, side := range []streams.Side{streams.Server, streams.Client} {
		streams.Valid(streams.Opts{Depth: depth, Side: side, Controls: ctls}, func(fr []streams.Frame) {
			out = append(out, stream{side, append([]streams.Frame{}, fr...)})
		})
	}
	return out
}

// bounds computes, for a cut offset, the events that must have been delivered (lower), may
// have been delivered (upper) and whether the cut is a clean end of stream.
func bounds(frames []streams.Frame, ends []int, cut int) (lower, upper []drivers.Event, clean bool, where string) {
	k := 0 // number of frames wholly before the cut
	for k < len(ends) && ends[k] <= cut {
		k++
	}
	upper, open := refmodel.Messages(frames[:k])
	start := 0
	if k > 0 {
		start = ends[k-1]
	}
	atBoundary := cut == start
	clean = atBoundary && !open
	switch {
	case !atBoundary:
		f := frames[k]
		hl := len(refmodel.HdrEncode(f.H))
		if cut-start < hl {
			where = "inside-header"
		} else {
			where = "inside-payload"
		}
		if refmodel.IsControl(f.H.Op) {
			where += "-of-control"
		}
	case open:
		where = "between-fragments"
	default:
		where = "between-messages"
	}
	lower = upper
	// events after the start of a message that is incomplete at the cut need not be delivered
	// by helpers that return a whole message at a time
	msgOpen := open
	if !atBoundary && (frames[k].H.Op == 0 || refmodel.IsControl(frames[k].H.Op) && open) {
		msgOpen = true
	}
	if msgOpen {
		last := -1
		for i := 0; i < k; i++ {
			if !refmodel.IsControl(frames[i].H.Op) && frames[i].H.Op != 0 {
				last = i
			}
		}
		if last >= 0 {
			lower, _ = refmodel.Messages(frames[:last])
		}
	}
	return
}

func main() {
	explore.Main("C16", func(r *explore.Run) {
		D := r.Pick(3, 4)
		ds := []drivers.Driver{drivers.ReaderLoop(7), drivers.ReaderLoop(1), drivers.ReaderDiscard(1), drivers.NextReaderLoop(), drivers.ReadMessageLoop(),
			drivers.WithSkipHeaderCheck(drivers.ReaderLoop(7)), drivers.WithSkipHeaderCheck(drivers.ReaderDiscard(1)),
			drivers.ReadDataLoop("Generic"), drivers.ReadDataLoop("Text"), drivers.ReaderCopyHandler()}
		r.Part("E1-read-side-every-cut", func(t *explore.T) {
			all := collect(D)
			t.Par(len(all), func(i int) {
				st := all[i]
				data, ends := streams.Wire(st.frames)
				var pings [][]byte
				for _, f := range st.frames {
					if f.H.Op == 9 {
						pings = append(pings, f.Payload)
					}
				}
				for cut := 0; cut < len(data); cut++ {
					lower, upper, clean, where := bounds(st.frames, ends, cut)
					// when the transport hands over the last bytes together with its error, the unit
					// those bytes complete may or may not be delivered: the lower bound is that of cut-1
					lowerWL := lower
					if cut > 0 {
						lowerWL, _, _, _ = bounds(st.frames, ends, cut-1)
					}
					headerCutNoMsg := strings.HasPrefix(where, "inside-header") && len(lower) == len(upper) && !openAt(st.frames, ends, cut)
					// "/bufio": the same source behind a *bufio.Reader (16-byte buffer), the usual way a
					// connection reaches the library; it offers Discard, Peek, WriteTo besides Read
					for _, kind := range []string{"EOF", "error", "error-with-last-bytes", "EOF-with-last-bytes", "EOF/bufio", "error/bufio", "error-temporary"} {
						for _, d := range ds {
							cut, kind, d := cut, kind, d
							t.Do(func() string {
								return fmt.Sprintf("%s %s cut=%d/%d(%s) end=%s driver=%s", st.side, streams.Describe(st.frames), cut, len(data), where, kind, d.Name)
							}, func() *explore.Fail {
								src := env.NewSrc(data)
								src.Cut = cut
								if strings.HasPrefix(kind, "error") {
									src.EndErr = env.ErrInjected
								}
								if kind == "error-temporary" {
									// a transport error that calls itself temporary (and a timeout) and persists
									src.EndErr = env.TempErr{IsTimeout: true}
								}
								src.WithLast = strings.HasSuffix(kind, "-with-last-bytes")
								var res drivers.Result
								if strings.HasSuffix(kind, "/bufio") {
									d.Run(bufio.NewReaderSize(src, 16), st.side, drivers.Cfg{}, &res)
								} else {
									d.Run(src, st.side, drivers.Cfg{}, &res)
								}
								cls := d.Name + ":" + where + ":" + kind
								var got []drivers.Event
								for _, e := range res.Events {
									if e.Kind == "ctl?" {
										e.Kind = "ctl"
									}
									got = append(got, e)
								}
								lo, up := d.Expect(lower), d.Expect(upper)
								if strings.HasSuffix(kind, "-with-last-bytes") {
									lo = d.Expect(lowerWL)
								}
								if d.Name == "NextReader" {
									k := 0
									for k < len(ends) && ends[k] <= cut {
										k++
									}
									up = drivers.DropIntermediate(st.frames[:k])
									lo = nil
								}
								if !drivers.IsPrefixEvents(got, up) {
									return explore.Failf("delivered-not-in-stream:"+cls, "got %s\nallowed %s\nerr=%v", drivers.FmtEvents(got), drivers.FmtEvents(up), res.Err)
								}
								if len(got) < len(lo) {
									return explore.Failf("complete-message-not-delivered:"+cls, "got %s\nmust %s\nerr=%v", drivers.FmtEvents(got), drivers.FmtEvents(lo), res.Err)
								}
								if res.Err == nil {
									return explore.Failf("no-error:"+cls, "")
								}
								eofKind := strings.HasPrefix(kind, "EOF")
								if res.Err == io.EOF && !(clean && eofKind) {
									if headerCutNoMsg && eofKind {
										// A stream that ends inside a frame header while no message is open
										// delivers nothing of that frame and returns an error value (io.EOF):
										// the statement requires non-EOF only for cut payloads and for cuts
										// while a fragmented message is open. Recorded, not judged.
										t.Outcome("header-cut-no-message-open:io.EOF(open)")
										return nil
									}
									return explore.Failf("clean-EOF-for-cut-unit:"+cls, "cut %s reported as io.EOF", where)
								}
								if len(res.HandlerShort) > 0 {
									return explore.Failf("handler-got-short-payload:"+cls, "%v", res.HandlerShort)
								}
								// replies must be whole pongs for whole pings
								rf, rest := drivers.ParseFrames(res.Replies)
								if len(rest) != 0 {
									return explore.Failf("reply-partial:"+cls, "%x", res.Replies)
								}
								if len(rf) > len(pings) {
									return explore.Failf("too-many-replies:"+cls, "")
								}
								for i, f := range rf {
									if f.H.Op != 10 || !bytes.Equal(f.Payload, pings[i]) {
										return explore.Failf("reply-from-shortened-payload:"+cls, "reply %d payload %q, ping was %q", i, f.Payload, pings[i])
									}
								}
								t.Outcome(where + ":" + kind)
								return nil
							})
						}
					}
				}
			})
			t.Note(fmt.Sprintf("every valid stream of depth<=%d (controls: 10-byte Ping, 2-byte Pong) x every cut offset x {EOF, transport error, error together with the last bytes} x 7 drivers", D))
		})

		// A long-lived reader is discarding a fragmented message when the transport reports a
		// temporary error at a frame boundary (an idle timeout); the caller carries on with the
		// same reader, and then the stream ends for good - at every later offset before the final
		// fragment is complete. No call reports success for the message that was cut, and the end
		// of the stream is never reported as a clean one.
		r.Part("E1c-cut-after-a-temporary-error-while-discarding", func(t *explore.T) {
			for _, side := range []streams.Side{streams.Server, streams.Client} {
				mk := func(i int, op byte, fin bool, p string) []byte {
					return streams.Frame{H: refmodel.Hdr{Fin: fin, Op: op, Masked: side == streams.Server, Mask: streams.Masks[i%3]}, Payload: []byte(p)}.Wire()
				}
				for _, withPing := range []bool{false, true} {
					parts := [][]byte{mk(0, 1, false, "ab"), mk(1, 0, false, "cd")}
					if withPing {
						parts = append(parts, mk(2, 9, true, "pi"))
					}
					parts = append(parts, mk(0, 0, true, "ef"))
					var data []byte
					var ends []int
					for _, p := range parts {
						data = append(data, p...)
						ends = append(ends, len(data))
					}
					for hi := 0; hi < len(ends)-1; hi++ {
						for cut := ends[hi]; cut < len(data); cut++ {
							for _, consume := range []string{"Discard", "Read"} {
								side, hiccupAt, cut, consume, withPing := side, ends[hi], cut, consume, withPing
								t.Do(func() string {
									return fmt.Sprintf("%s Text-(ab) Cont-(cd) ping=%v Cont(ef): temporary error at offset %d while the caller %ss, then the stream ends at %d of %d", side, withPing, hiccupAt, consume, cut, len(data))
								}, func() *explore.Fail {
									src := env.NewSrc(data)
									src.Cut = cut
									var source io.Reader = src
									if cut > hiccupAt {
										src.HiccupAt, src.HiccupErr = hiccupAt, env.TempErr{IsTimeout: true}
									} else {
										// the stream ends right where the temporary error was: the error first, then the end
										source = &tempAtEnd{src: src}
									}
									rd := &wsutil.Reader{Source: source, State: drivers.State(side)}
									rd.OnIntermediate = func(h ws.Header, r io.Reader) error {
										_, err := io.Copy(io.Discard, r)
										return err
									}
									if _, err := rd.NextFrame(); err != nil {
										return explore.Failf("harness-first-frame", "%v", err)
									}
									sawTemp := false
									for i := 0; i < 8; i++ {
										var err error
										if consume == "Discard" {
											err = rd.Discard()
										} else {
											_, err = io.ReadAll(rd)
										}
										if _, temp := err.(env.TempErr); temp {
											sawTemp = true
											continue
										}
										if err == nil {
											return explore.Failf("cut-message-reported-complete-after-temporary-error:"+consume, "%s returned nil although the stream ended at %d of %d", consume, cut, len(data))
										}
										if err == io.EOF {
											return explore.Failf("clean-EOF-inside-a-message-after-temporary-error:"+consume, "%s returned io.EOF", consume)
										}
										// the message is lost; a caller that asks for the next frame anyway is not told
										// that the stream ended cleanly
										if _, nerr := rd.NextFrame(); cut <= ends[len(ends)-2] && (nerr == nil || nerr == io.EOF) {
											return explore.Failf("clean-end-of-stream-inside-a-message-after-temporary-error:"+consume, "after %s failed with %v, NextFrame returned %v", consume, err, nerr)
										}
										if !sawTemp {
											return explore.Failf("harness-no-temporary-error", "")
										}
										t.Outcome("cut-reported")
										return nil
									}
									return explore.Failf("harness-loop", "")
								})
							}
						}
					}
				}
			}
		})

		r.Part("E1b-ReadFrame-every-cut", func(t *explore.T) {
			for _, n := range []int{0, 1, 5, 125, 126, 300, 65536, 1 << 20, 1<<20 + 1, 1<<21 + 3} {
				for _, masked := range []bool{false, true} {
					f := refmodel.Frame{H: refmodel.Hdr{Fin: true, Op: 2, Masked: masked, Mask: [4]byte{1, 2, 3, 4}}, Payload: bytes.Repeat([]byte{7}, n)}
					data := f.Wire()
					for cut := 0; cut < len(data); cut++ {
						if n > 1000 && cut > 20 && cut < len(data)-3 && cut != len(data)/2 && cut != 1<<20 && cut != 1<<20+8 {
							continue // big frames: every cut in the header, a few in the payload, the last three
						}
						for _, kind := range []string{"EOF", "error"} {
							cut, kind := cut, kind
							t.Do(func() string { return fmt.Sprintf("ReadFrame len=%d masked=%v cut=%d end=%s", n, masked, cut, kind) }, func() *explore.Fail {
								src := env.NewSrc(data)
								src.Cut = cut
								if kind == "error" {
									src.EndErr = env.ErrInjected
								}
								_, err := ws.ReadFrame(src)
								if err == nil {
									return explore.Failf("ReadFrame-success-on-cut-frame", "")
								}
								t.Outcome(kind)
								return nil
							})
						}
					}
				}
			}
		})

		r.Part("E2-handshake-every-cut", func(t *explore.T) {
			reqs := map[string][]byte{}
			for _, q := range []hs.Req{
				make(hs.Req, len(hs.ReqFields)),
				withField(hs.ReqFields, "protocol", "a, b"),
				withField(hs.ReqFields, "extensions", "pmd"),
				withField(hs.ReqFields, "lineend", "LF"),
				withField(hs.ReqFields, "extra", "between"),
			} {
				reqs[q.String()] = q.Build()
			}
			for name, data := range reqs {
				for cut := 0; cut < len(data); cut++ {
					for _, kind := range []string{"EOF", "error", "error-with-last-bytes"} {
						for _, bufSize := range []int{0, 16} {
							name, data, cut, kind, bufSize := name, data, cut, kind, bufSize
							t.Do(func() string {
								return fmt.Sprintf("Upgrader request{%s} cut=%d/%d end=%s readbuf=%d", name, cut, len(data), kind, bufSize)
							}, func() *explore.Fail {
								src := env.NewSrc(data)
								src.Cut = cut
								if kind != "EOF" {
									src.EndErr = env.ErrInjected
								}
								src.WithLast = kind == "error-with-last-bytes"
								e := &wsflate.Extension{Parameters: wsflate.DefaultParameters}
								u := ws.Upgrader{ReadBufferSize: bufSize, Protocol: func(b []byte) bool { return true }, Negotiate: e.Negotiate}
								out, _, err := hs.RunUpgrader(u, src)
								if err == nil {
									return explore.Failf("upgrade-succeeds-on-cut-request", "wrote %q", out)
								}
								if bytes.Contains(out, []byte(" 101 ")) {
									return explore.Failf("101-written-for-cut-request", "%q", out)
								}
								t.Outcome("request:" + kind)
								return nil
							})
						}
					}
				}
			}
			theURL, _ := url.ParseRequestURI("ws://example.com/")
			for _, rs := range []hs.Resp{
				make(hs.Resp, len(hs.RespFields)),
				hs.Resp(withField(hs.RespFields, "protocol", "a")),
				hs.Resp(withField(hs.RespFields, "extensions", "x;p=1")),
				hs.Resp(withField(hs.RespFields, "lineend", "LF")),
				hs.Resp(withField(hs.RespFields, "extra", "after")),
			} {
				c := hs.DialCfg{1, 1, 0, 0, 0}
				_, probe := rs.Build(hs.CanonKey, c.ReadBuf())
				for cut := 0; cut < len(probe); cut++ {
					for _, kind := range []string{"EOF", "error", "error-with-last-bytes"} {
						for _, rb := range []int{0, 1} {
							rs, cut, kind, rb := rs, cut, kind, rb
							t.Do(func() string {
								return fmt.Sprintf("Dialer response{%s} cut=%d/%d end=%s readbuf#%d", rs, cut, len(probe), kind, rb)
							}, func() *explore.Fail {
								cc := hs.DialCfg{1, 1, rb, 0, 0}
								d := cc.Dialer()
								conn := &hs.LazyConn{}
								conn.Respond = func(req []byte) []byte {
									_, data := rs.Build(hs.KeyOf(req), cc.ReadBuf())
									return data
								}
								// cut the response stream
								conn.Policy = nil
								var src *env.Src
								conn.OnRead = func(p []byte, off int) {}
								br, _, err := dialCut(d, conn, theURL, cut, kind, &src)
								if err == nil {
									return explore.Failf("dial-succeeds-on-cut-response", "")
								}
								if br != nil {
									return explore.Failf("reader-returned-for-cut-response", "")
								}
								t.Outcome("response:" + kind)
								return nil
							})
						}
					}
				}
			}
			t.Note("5 request and 5 response shapes x every cut offset x {EOF, error, error with last bytes} x 2 read buffer sizes")
		})

		// The transport fails while the handshake is being *written* (request or response longer
		// than the write buffer, so several writes; the k-th one fails, having taken nothing, a part
		// or - reporting the error all the same - everything): the handshake is reported as failed,
		// whatever the peer, who may have answered early, has sent.
		r.Part("E2b-handshake-writes-that-fail", func(t *explore.T) {
			theURL, _ := url.ParseRequestURI("ws://example.com/chat")
			longs := []ws.HandshakeHeader{
				ws.HandshakeHeaderString("X-Long-A: " + strings.Repeat("a", 90) + "\r\nX-Long-B: " + strings.Repeat("b", 90) + "\r\n"),
				// one header handed over in a single Write, larger than twice the default write buffer:
				// the buffered writer passes it straight through to the connection
				ws.HandshakeHeaderBytes("X-Huge: " + strings.Repeat("h", 1500) + "\r\n"),
				ws.HandshakeHeaderBytes("X-Mid: " + strings.Repeat("m", 600) + "\r\n"),
			}
			for li, long := range longs {
				for _, wb := range []int{0, 64} {
					for k := 0; k < 8; k++ {
						for _, taken := range []string{"nothing", "half", "all-but-error"} {
							for _, eager := range []bool{false, true} {
								wb, k, taken, eager := wb, k, taken, eager
								t.Do(func() string {
									return fmt.Sprintf("Dialer.Upgrade write buffer %d, extra header #%d: write #%d to the connection fails having taken %s; peer answers 101 early=%v", wb, li, k, taken, eager)
								}, func() *explore.Fail {
									d := ws.Dialer{WriteBufferSize: wb, Header: long, Protocols: []string{"a"}}
									conn := &failWriteConn{failAt: k, taken: taken}
									conn.Respond = func(req []byte) []byte {
										if !eager && conn.failed {
											return nil
										}
										return []byte("HTTP/1.1 101 Switching Protocols\r\nUpgrade: websocket\r\nConnection: Upgrade\r\nSec-WebSocket-Accept: " + hs.Accept(hs.KeyOf(conn.attempted.Bytes())) + "\r\n\r\n")
									}
									_, _, err := d.Upgrade(conn, theURL)
									if !conn.failed {
										if err != nil {
											return explore.Failf("harness-clean-dial-fails", "%v", err)
										}
										t.Outcome("no-such-write")
										return nil
									}
									if err == nil {
										return explore.Failf("dial-succeeds-although-a-request-write-failed", "write #%d failed (%s taken), Upgrade returned nil", k, taken)
									}
									t.Outcome("request-write-failure-reported")
									return nil
								})
							}
							wb, k, taken := wb, k, taken
							t.Do(func() string {
								return fmt.Sprintf("Upgrader.Upgrade write buffer %d, extra header #%d: write #%d of the response fails having taken %s", wb, li, k, taken)
							}, func() *explore.Fail {
								u := ws.Upgrader{WriteBufferSize: wb, Header: long, Protocol: func([]byte) bool { return true }}
								req := make(hs.Req, len(hs.ReqFields)).Build()
								dst := &failDst{failAt: k, taken: taken}
								_, err := u.Upgrade(struct {
									io.Reader
									io.Writer
								}{bytes.NewReader(req), dst})
								if !dst.failed {
									if err != nil {
										return explore.Failf("harness-clean-upgrade-fails", "%v", err)
									}
									t.Outcome("no-such-write")
									return nil
								}
								if err == nil {
									return explore.Failf("upgrade-succeeds-although-a-response-write-failed", "write #%d failed (%s taken), Upgrade returned nil", k, taken)
								}
								t.Outcome("response-write-failure-reported")
								return nil
							})
						}
					}
				}
			}
		})

		r.Part("E3-write-side-every-failing-call", func(t *explore.T) {
			Dw := t.Pick(3, 4)
			var cfgs []wops.Cfg
			for _, n := range []int{9, 16, 130} {
				for _, client := range []bool{false, true} {
					for _, nf := range []bool{false, true} {
						cfgs = append(cfgs, wops.Cfg{Ctor: "NewWriterBuffer", N: n, Client: client, NoFlush: nf, OpCode: ws.OpBinary})
					}
				}
			}
			t.Par(len(cfgs), func(ci int) {
				c := cfgs[ci]
				w0, ok := wops.Build(c, env.NewDst())
				if !ok {
					return
				}
				S := w0.Size()
				alpha := append(wops.Alphabet(S), wops.Op{Kind: "ResetOp-if-failed"})
				var rec func(h []wops.Op)
				rec = func(h []wops.Op) {
					if len(h) > 0 {
						hh := append(append([]wops.Op{}, h...), wops.Op{Kind: "Flush"})
						// fault-free run: number of destination calls and reference frames
						d0 := env.NewDst()
						w, _ := wops.Build(c, d0)
						s0 := wops.NewSession(c, w, d0)
						for _, o := range hh {
							s0.Apply(o)
						}
						ref, _ := drivers.ParseFrames(d0.Bytes())
						for j := 0; j < len(d0.Calls); j++ {
							for _, partial := range []int{0, 1, -1} {
								j, partial := j, partial
								// partial -1: the destination fails with an error that calls itself a timeout (a write
								// deadline that passed); it is a failed write like any other
								var derr error = env.ErrInjected
								if partial < 0 {
									partial, derr = 0, env.TempErr{IsTimeout: true}
								}
								t.Do(func() string {
									return histDesc(c, S, hh) + fmt.Sprintf(" | dest call %d fails after %d byte(s) with %q", j, partial, derr)
								}, func() *explore.Fail {
									d := env.NewDst()
									d.FailAt, d.Partial, d.Err = j, partial, derr
									w, _ := wops.Build(c, d)
									s := wops.NewSession(c, w, d)
									for _, o := range hh {
										wasFailed := d.Failed
										callsBefore := len(d.Calls)
										if f := s.Apply(o); f != nil {
											return f
										}
										obs := s.Obs[len(s.Obs)-1]
										if d.After != 0 {
											return explore.Failf("dest-called-after-failure", "%s reached the destination after it failed", o)
										}
										_ = callsBefore
										if wasFailed && obs.Err == "" && o.Kind != "Grow" && o.Kind != "ReadFrom" && o.Kind != "ReadFromErr" {
											return explore.Failf("later-call-succeeds-after-failure:"+o.Kind, "%s returned nil after the destination failed", o)
										}
										if wasFailed && obs.Err != "" && obs.Err != derr.Error() && (o.Kind == "Write" || o.Kind == "WriteThrough" || o.Kind == "FlushFragment" || o.Kind == "Flush") {
											// "reports the error": the destination's, not some other complaint
											return explore.Failf("later-call-reports-another-error:"+o.Kind, "%s returned %q after the destination had failed with %q", o, obs.Err, derr.Error())
										}
										if !wasFailed && d.Failed && obs.Err == "" && o.Kind != "Grow" && o.Kind != "ReadFromErr" {
											return explore.Failf("failing-call-reports-nil:"+o.Kind, "%s returned nil although the destination failed during it", o)
										}
									}
									// bytes before the failure form a prefix of the fault-free stream
									got, _ := drivers.ParseFrames(d.Bytes())
									if len(got) > len(ref) {
										return explore.Failf("more-frames-than-fault-free", "")
									}
									for i := range got {
										if got[i].H.Fin != ref[i].H.Fin || got[i].H.Op != ref[i].H.Op || !bytes.Equal(got[i].Payload, ref[i].Payload) {
											return explore.Failf("not-prefix-of-fault-free", "frame %d differs", i)
										}
									}
									t.Outcome("sticky")
									return nil
								})
							}
						}
					}
					if len(h) == Dw {
						return
					}
					for _, o := range alpha {
						if o.Kind == "Grow" && o.Rel != "S" {
							continue
						}
						rec(append(h, o))
					}
				}
				rec(nil)
			})
			t.Note(fmt.Sprintf("every writer history of <=%d ops (C06 alphabet) + Flush on 12 configurations x every index of the destination Write call that fails x {0,1} bytes accepted", Dw))
		})
	})
}

func withField(fields []hs.Field, name, variant string) hs.Req {
	q := make(hs.Req, len(fields))
	for i, f := range fields {
		if f.Name == name {
			for v, vn := range f.Variants {
				if vn == variant {
					q[i] = v
					return q
				}
			}
		}
	}
	panic("no such field/variant " + name + "/" + variant)
}

// cutConn wraps the lazy peer so that its answer ends at offset cut.
type cutConn struct {
	*hs.LazyConn
	cut  int
	kind string
}

func (c *cutConn) Read(p []byte) (int, error) {
	if c.LazyConn.Src == nil {
		n, err := c.LazyConn.Read(p[:0])
		_, _ = n, err
		c.LazyConn.Src.Cut = c.cut
		if c.kind != "EOF" {
			c.LazyConn.Src.EndErr = env.ErrInjected
		}
		c.LazyConn.Src.WithLast = c.kind == "error-with-last-bytes"
	}
	return c.LazyConn.Read(p)
}

// failDst is a destination whose failAt-th Write fails, having taken nothing, half, or all of
// the bytes (and reporting an error all the same).
type failDst struct {
	failAt int
	taken  string
	calls  int
	failed bool
	got    bytes.Buffer
}

func (f *failDst) Write(p []byte) (int, error) {
	if f.failed {
		return 0, env.ErrInjected
	}
	f.calls++
	if f.calls-1 == f.failAt {
		f.failed = true
		n := 0
		switch f.taken {
		case "half":
			n = len(p) / 2
		case "all-but-error":
			n = len(p)
		}
		f.got.Write(p[:n])
		return n, env.ErrInjected
	}
	f.got.Write(p)
	return len(p), nil
}

// failWriteConn is a client connection whose failAt-th Write fails; the peer sees (and may answer)
// whatever was attempted.
type failWriteConn struct {
	hs.LazyConn
	failAt    int
	taken     string
	calls     int
	failed    bool
	attempted bytes.Buffer
}

func (c *failWriteConn) Write(p []byte) (int, error) {
	c.attempted.Write(p)
	if c.failed {
		return 0, env.ErrInjected
	}
	c.calls++
	if c.calls-1 == c.failAt {
		c.failed = true
		n := 0
		switch c.taken {
		case "half":
			n = len(p) / 2
		case "all-but-error":
			n = len(p)
		}
		c.LazyConn.Write(p[:n])
		return n, env.ErrInjected
	}
	return c.LazyConn.Write(p)
}

// tempAtEnd reports one temporary error when its source has nothing more to give, then the end.
type tempAtEnd struct {
	src   *env.Src
	fired bool
}

func (t *tempAtEnd) Read(p []byte) (int, error) {
	if !t.fired && t.src.Cut >= 0 && t.src.Off >= t.src.Cut {
		t.fired = true
		return 0, env.TempErr{IsTimeout: true}
	}
	return t.src.Read(p)
}

func dialCut(d ws.Dialer, conn *hs.LazyConn, u *url.URL, cut int, kind string, _ **env.Src) (*bufio.Reader, ws.Handshake, error) {
	return d.Upgrade(&cutConn{LazyConn: conn, cut: cut, kind: kind}, u)
}

// openAt reports whether a fragmented message is open at the cut.
func openAt(frames []streams.Frame, ends []int, cut int) bool {
	k := 0
	for k < len(ends) && ends[k] <= cut {
		k++
	}
	_, open := refmodel.Messages(frames[:k])
	return open
}

func histDesc(c wops.Cfg, S int, h []wops.Op) string {
	var parts []string
	for _, o := range h {
		parts = append(parts, o.String())
	}
	return fmt.Sprintf("%s S=%d: %s", c, S, strings.Join(parts, "; "))
}
