// C12: permessage-deflate payloads round-trip and interoperate with standard DEFLATE.
package main

import (
	"bytes"
	"compress/flate"
	"fmt"
	"io"
	"strings"

	"github.com/gobwas/ws"
	"github.com/gobwas/ws/wsflate"

	"verifmc/env"
	"verifmc/explore"
	"verifmc/refmodel"
	"verifmc/zpy"
)

var tail = []byte{0, 0, 0xff, 0xff}

type payload struct {
	name string
	data []byte
}

func lcg(n int, seed uint32) []byte {
	p := make([]byte, n)
	x := seed
	for i := range p {
		x = x*1664525 + 1013904223
		p[i] = byte(x >> 24)
	}
	return p
}

func payloads(large bool) []payload {
	pat := make([]byte, 40000)
	for i := range pat {
		pat[i] = byte("abcdefghij"[i%10] + byte(i/4000))
	}
	ps := []payload{
		{"empty", nil},
		{"a", []byte("a")},
		{"hello", []byte("hello")},
		{"600xab", []byte(strings.Repeat("ab", 600))},
		{"64-incompressible", lcg(64, 7)},
		{"tail-lookalike", []byte{1, 2, 0, 0, 0xff, 0xff}},
	}
	if large {
		ps = append(ps, payload{"40000-patterned", pat}, payload{"70000-random", lcg(70000, 99)})
	}
	return ps
}

// failingComp is a flate compressor that fails with its own error in a chosen call.
type failingComp struct {
	f          *flate.Writer
	out        io.Writer
	where      string
	at         int
	emitsFirst bool
	err        error
	calls      map[string]int
}

func (c *failingComp) hit(kind string) bool {
	if c.calls == nil {
		c.calls = map[string]int{}
	}
	n := c.calls[kind]
	c.calls[kind]++
	if kind == c.where && n == c.at {
		if c.emitsFirst {
			c.out.Write([]byte{0x4a, 0x4b})
		}
		return true
	}
	return false
}

func (c *failingComp) Write(p []byte) (int, error) {
	if c.hit("Write") {
		return 0, c.err
	}
	return c.f.Write(p)
}

func (c *failingComp) Flush() error {
	if c.hit("Flush") {
		return c.err
	}
	return c.f.Flush()
}

func (c *failingComp) Close() error {
	if c.hit("Close") {
		return c.err
	}
	return c.f.Close()
}

type compCtor struct {
	name string
	mk   func(w io.Writer) wsflate.Compressor
}

// noReset hides the Reset method so that wsflate.Writer.Reset must construct a new one.
type noReset struct{ f *flate.Writer }

func (n noReset) Write(p []byte) (int, error) { return n.f.Write(p) }
func (n noReset) Flush() error                { return n.f.Flush() }
func (n noReset) Close() error                { return n.f.Close() }

func compressors() []compCtor {
	var out []compCtor
	for _, lv := range []int{1, 6, 9, flate.HuffmanOnly, flate.NoCompression} {
		lv := lv
		out = append(out, compCtor{fmt.Sprintf("flate(%d)", lv), func(w io.Writer) wsflate.Compressor {
			f, _ := flate.NewWriter(w, lv)
			return f
		}})
	}
	out = append(out, compCtor{"flate(6)-noreset", func(w io.Writer) wsflate.Compressor {
		f, _ := flate.NewWriter(w, 6)
		return noReset{f}
	}})
	// the constructor the package's own helper uses, as an application that wants "the defaults" does
	out = append(out, compCtor{"DefaultHelper.Compressor", func(w io.Writer) wsflate.Compressor { return wsflate.DefaultHelper.Compressor(w) }})
	return out
}

func newDecomp(r io.Reader) wsflate.Decompressor { return flate.NewReader(r) }

// splits returns the write split patterns for n bytes: <=3 writes at {1, middle, n-1}.
func splits(n int) [][]int {
	out := [][]int{{n}}
	if n < 2 {
		return out
	}
	cuts := map[int]bool{1: true, n / 2: true, n - 1: true}
	var cs []int
	for c := range cuts {
		if c > 0 && c < n {
			cs = append(cs, c)
		}
	}
	for i := 1; i < len(cs); i++ {
		for j := i; j > 0 && cs[j] < cs[j-1]; j-- {
			cs[j], cs[j-1] = cs[j-1], cs[j]
		}
	}
	for _, c := range cs {
		out = append(out, []int{c, n - c})
	}
	for i := 0; i < len(cs); i++ {
		for j := i + 1; j < len(cs); j++ {
			out = append(out, []int{cs[i], cs[j] - cs[i], n - cs[j]})
		}
	}
	return out
}

// byteSrc is a chunking source that optionally implements io.ByteReader.
type byteSrc struct{ *env.Src }

func (b byteSrc) ReadByte() (byte, error) {
	var p [1]byte
	n, err := b.Src.Read(p[:])
	if n == 1 {
		return p[0], nil
	}
	return 0, err
}

type delivery struct {
	name string
	mk   func(data []byte) io.Reader
}

func deliveries(thorough bool) []delivery {
	out := []delivery{{"bytes.Reader", func(d []byte) io.Reader { return bytes.NewReader(d) }}}
	for _, ch := range []int{1, 2, 3, 7, 0} {
		ch := ch
		out = append(out, delivery{fmt.Sprintf("chunk%d-bytereader", ch), func(d []byte) io.Reader {
			s := env.NewSrc(d)
			s.Policy = env.FixedChunk(ch)
			return byteSrc{s}
		}})
		out = append(out, delivery{fmt.Sprintf("chunk%d-plainreader", ch), func(d []byte) io.Reader {
			s := env.NewSrc(d)
			s.Policy = env.FixedChunk(ch)
			return s
		}})
		// sources that return the last bytes together with io.EOF (as wsutil.Reader does)
		out = append(out, delivery{fmt.Sprintf("chunk%d-plainreader-eof-with-data", ch), func(d []byte) io.Reader {
			s := env.NewSrc(d)
			s.Policy = env.FixedChunk(ch)
			s.WithLast = true
			return s
		}})
	}
	// sources that now and then return (0, nil) before carrying on - legal for an io.Reader, and what
	// wsutil.Reader.Read does once for every control frame between two fragments: any number of such
	// reads may be scattered over a long message
	for _, ch := range []int{1, 7} {
		ch := ch
		out = append(out, delivery{fmt.Sprintf("chunk%d-plainreader-idle-read-every-3rd-call", ch), func(d []byte) io.Reader {
			s := env.NewSrc(d)
			s.Policy = env.FixedChunk(ch)
			s.ZeroEvery = 3
			return s
		}})
	}
	return out
}

// readBack runs the library Reader over compressed bytes (tail already removed).
func readBack(comp []byte, want []byte, dl delivery) *explore.Fail {
	r := wsflate.NewReader(dl.mk(comp), newDecomp)
	got, err := io.ReadAll(r)
	if err != nil {
		return explore.Failf("reader-error:"+dl.name, "%v (got %d of %d bytes)", err, len(got), len(want))
	}
	if !bytes.Equal(got, want) {
		return explore.Failf("reader-output-differs:"+dl.name, "got %d bytes want %d", len(got), len(want))
	}
	if n, err := r.Read(make([]byte, 1)); n != 0 || err != io.EOF {
		return explore.Failf("reader-no-EOF-after-end:"+dl.name, "n=%d err=%v", n, err)
	}
	if err := r.Close(); err != nil {
		return explore.Failf("reader-close-error:"+dl.name, "%v", err)
	}
	return nil
}

// cutReader delivers data[:k] in one read and the rest in another.
func cutDelivery(k int, byteReader bool) delivery {
	return delivery{fmt.Sprintf("cut@%d-bytereader=%v", k, byteReader), func(d []byte) io.Reader {
		s := env.NewSrc(d)
		first := true
		s.Policy = func(max, off int) int {
			if first && off < k {
				if k-off < max {
					return k - off
				}
			}
			first = false
			return max
		}
		if byteReader {
			return byteSrc{s}
		}
		return s
	}}
}

func main() {
	explore.Main("C12", func(r *explore.Run) {
		py := zpy.Available()
		if !py {
			r.Assume("python3/zlib coprocess not available: foreign-codec half skipped, refmodel.Inflate and the harness encoder are the only independent codecs")
		} else {
			r.Assume("python3 zlib (tools/zcodec.py) is the foreign DEFLATE codec; refmodel.Inflate is a second independent decoder")
		}
		type produced struct {
			name string
			comp []byte
			want []byte
		}
		var corpusMu = make(chan struct{}, 1)
		corpusMu <- struct{}{}
		var corpus []produced

		r.Part("E0-reference-decoder-selftest", func(t *explore.T) {
			for _, p := range payloads(true) {
				for _, lv := range []int{0, 1, 6, 9, -2} {
					p, lv := p, lv
					t.Do(func() string { return fmt.Sprintf("selftest %s level %d", p.name, lv) }, func() *explore.Fail {
						var b bytes.Buffer
						f, _ := flate.NewWriter(&b, lv)
						f.Write(p.data)
						f.Close()
						out, _, err := refmodel.Inflate(b.Bytes())
						if err != nil || !bytes.Equal(out, p.data) {
							return explore.Failf("refmodel-inflate-broken", "%v", err)
						}
						if py {
							out2, _, err := zpy.Inflate(b.Bytes())
							if err != nil || !bytes.Equal(out2, p.data) {
								return explore.Failf("python-inflate-broken", "%v", err)
							}
						}
						return nil
					})
				}
			}
			t.Outcome("ok")
		})

		r.Part("E1-writer", func(t *explore.T) {
			ps := payloads(true)
			cs := compressors()
			endings := []string{"Flush", "Close", "Flush+Close", "Flush+Flush"}
			type job struct {
				p       payload
				c       compCtor
				split   []int
				flushes bool
				ending  string
			}
			var jobs []job
			for _, p := range ps {
				for _, c := range cs {
					if len(p.data) > 10000 && !t.Thorough() && c.name != "flate(1)" && c.name != "flate(9)" && c.name != "flate(0)" {
						continue
					}
					for _, sp := range splits(len(p.data)) {
						for _, fl := range []bool{false, true} {
							for _, e := range endings {
								jobs = append(jobs, job{p, c, sp, fl, e})
							}
						}
					}
				}
			}
			t.Par(len(jobs), func(i int) {
				j := jobs[i]
				t.Do(func() string {
					return fmt.Sprintf("payload=%s compressor=%s writes=%v flushEach=%v ending=%s", j.p.name, j.c.name, j.split, j.flushes, j.ending)
				}, func() *explore.Fail {
					d := env.NewDst()
					w := wsflate.NewWriter(d, j.c.mk)
					off := 0
					for _, k := range j.split {
						n, err := w.Write(j.p.data[off : off+k])
						if err != nil || n != k {
							return explore.Failf("write-error", "n=%d err=%v", n, err)
						}
						off += k
						if j.flushes {
							if err := w.Flush(); err != nil {
								return explore.Failf("flush-error", "%v", err)
							}
						}
					}
					for _, e := range strings.Split(j.ending, "+") {
						var err error
						if e == "Flush" {
							err = w.Flush()
						} else {
							err = w.Close()
						}
						if err != nil {
							return explore.Failf("ending-error:"+j.ending, "%v", err)
						}
					}
					comp := d.Bytes()
					full := append(append([]byte{}, comp...), tail...)
					out, _, err := refmodel.Inflate(full)
					if err != nil {
						return explore.Failf("independent-inflate-error:"+j.ending, "%v", err)
					}
					if !bytes.Equal(out, j.p.data) {
						return explore.Failf("independent-inflate-differs:"+j.ending, "got %d bytes want %d", len(out), len(j.p.data))
					}
					if py {
						out2, _, err := zpy.Inflate(full)
						if err != nil {
							return explore.Failf("zlib-inflate-error:"+j.ending, "%v", err)
						}
						if !bytes.Equal(out2, j.p.data) {
							return explore.Failf("zlib-inflate-differs:"+j.ending, "got %d bytes want %d", len(out2), len(j.p.data))
						}
					}
					if f := readBack(comp, j.p.data, deliveries(false)[0]); f != nil {
						return f
					}
					if len(comp) <= 4096 && len(j.split) == 1 && !j.flushes {
						<-corpusMu
						corpus = append(corpus, produced{fmt.Sprintf("ws:%s/%s/%s", j.p.name, j.c.name, j.ending), comp, j.p.data})
						corpusMu <- struct{}{}
					}
					t.Outcome(j.ending)
					return nil
				})
			})
		})

		// a destination that fails (once, or from some call on): either an API call reports
		// an error or the output is intact - never silence over a stream with a hole in it
		// One Writer serves many messages (Reset between them). Whatever the previous message
		// was and however it ended - Flush, Close, both, on a failing destination, nothing written
		// at all - the next message's output followed by the tail is a DEFLATE stream of its own
		// that inflates to exactly that message, the empty message included.
		r.Part("E1c-writer-reused-across-messages", func(t *explore.T) {
			small := payloads(false)
			endings := []string{"Flush", "Close", "Flush+Close", "Flush+Flush", "none", "Flush-on-failing-destination"}
			for _, c := range compressors() {
				for _, first := range small {
					for _, e1 := range endings {
						for _, second := range small {
							for _, e2 := range endings[:4] {
								c, first, e1, second, e2 := c, first, e1, second, e2
								for _, style := range []string{"Write", "NewWriter(nil), Reset per message, io.Copy"} {
									style := style
									if style != "Write" && len(first.data) > 5 {
										continue
									}
									t.Do(func() string {
										return fmt.Sprintf("compressor=%s first=%s ending=%s; Reset; second=%s ending=%s; messages written by %s", c.name, first.name, e1, second.name, e2, style)
									}, func() *explore.Fail {
										d1 := env.NewDst()
										if e1 == "Flush-on-failing-destination" {
											d1.FailAt = 0
										}
										w := wsflate.NewWriter(d1, c.mk)
										if style != "Write" {
											// the README's loop: the writer is made once without a destination; an empty
											// message passes through io.Copy without a single Write call
											w = wsflate.NewWriter(nil, c.mk)
											w.Reset(d1)
											io.Copy(w, bytes.NewReader(first.data))
										} else {
											w.Write(first.data)
										}
										for _, e := range strings.Split(e1, "+") {
											switch e {
											case "Flush", "Flush-on-failing-destination":
												w.Flush()
											case "Close":
												w.Close()
											}
										}
										d := env.NewDst()
										w.Reset(d)
										// while this writer's second message is open, other connections compress as well: through
										// the package's helper and through a writer of their own made by the same constructor
										otherMsg := []byte("another connection's message, another connection's message")
										if _, err := wsflate.DefaultHelper.Compress(otherMsg); err != nil {
											return explore.Failf("harness-default-helper", "%v", err)
										}
										var ob bytes.Buffer
										ow := wsflate.NewWriter(&ob, c.mk)
										ow.Write(otherMsg[:20])
										if style != "Write" {
											if n, err := io.Copy(w, bytes.NewReader(second.data)); err != nil || int(n) != len(second.data) {
												return explore.Failf("write-error-after-Reset", "io.Copy: n=%d err=%v", n, err)
											}
										} else if n, err := w.Write(second.data); err != nil || n != len(second.data) {
											return explore.Failf("write-error-after-Reset", "n=%d err=%v", n, err)
										}
										for _, e := range strings.Split(e2, "+") {
											var err error
											if e == "Flush" {
												err = w.Flush()
											} else {
												err = w.Close()
											}
											if err != nil {
												return explore.Failf("ending-error-after-Reset:"+e2, "%v", err)
											}
										}
										ow.Write(otherMsg[20:])
										if err := ow.Flush(); err != nil {
											return explore.Failf("other-connections-writer-fails", "%v", err)
										}
										if oo, _, err := refmodel.Inflate(append(append([]byte{}, ob.Bytes()...), tail...)); err != nil || !bytes.Equal(oo, otherMsg) {
											return explore.Failf("other-connections-message-wrong", "%v: %q", err, oo)
										}
										full := append(append([]byte{}, d.Bytes()...), tail...)
										out, _, err := refmodel.Inflate(full)
										if err != nil {
											return explore.Failf("second-message-does-not-inflate:"+e2, "%x: %v", full, err)
										}
										if !bytes.Equal(out, second.data) {
											return explore.Failf("second-message-inflates-to-other-bytes:"+e2, "got %d bytes want %d", len(out), len(second.data))
										}
										return readBack(d.Bytes(), second.data, deliveries(false)[0])
									})
								}
							}
						}
					}
				}
			}
			t.Outcome("standalone")
		})

		r.Part("E1b-writer-failing-destination", func(t *explore.T) {
			ps := payloads(false)
			ps = append(ps, payload{"3000-mixed", append(lcg(1500, 3), bytes.Repeat([]byte("abc"), 500)...)})
			for _, p := range ps {
				for _, c := range compressors()[:3] {
					for _, pattern := range []string{"W;F;C", "W;F;W;F", "W;W;C", "W;F;W;F;C"} {
						// fault-free run to learn the number of destination calls
						d0 := env.NewDst()
						runPattern(wsflate.NewWriter(d0, c.mk), p.data, pattern)
						for j := 0; j < len(d0.Calls); j++ {
							for _, mode := range []string{"transient", "permanent", "transient-temporary-0-bytes", "transient-temporary-1-byte", "transient-temporary-half", "transient-timeout-half"} {
								p, c, pattern, j, mode := p, c, pattern, j, mode
								transient := mode != "permanent"
								t.Do(func() string {
									return fmt.Sprintf("payload=%s compressor=%s pattern=%s destination call %d fails (%s)", p.name, c.name, pattern, j, mode)
								}, func() *explore.Fail {
									d := &flakyDst{failAt: j, transient: transient}
									switch mode {
									case "transient-temporary-0-bytes":
										d.err = env.TempErr{}
									case "transient-temporary-1-byte":
										d.err, d.partial = env.TempErr{}, 1
									case "transient-temporary-half":
										d.err, d.partial = env.TempErr{}, -1
									case "transient-timeout-half":
										d.err, d.partial = env.TempErr{IsTimeout: true}, -1
									}
									w := wsflate.NewWriter(d, c.mk)
									err := runPattern(w, p.data, pattern)
									if err != nil || w.Err() != nil {
										t.Outcome("error-reported")
										return nil
									}
									out, _, ierr := refmodel.Inflate(append(append([]byte{}, d.buf.Bytes()...), tail...))
									if ierr != nil || !bytes.Equal(out, p.data) {
										return explore.Failf("destination-failure-swallowed", "every call returned nil although destination call %d failed; output does not inflate to the message (%v)", j, ierr)
									}
									t.Outcome("failure-harmless")
									return nil
								})
							}
						}
					}
				}
			}
		})

		// A compressor that fails on its own (Write, Flush or Close returning its error, at the first
		// or a later call, before or after it has emitted bytes): the writer reports that error - not
		// a complaint about the stream tail, which is the diagnosis for a compressor that *claims*
		// success - now and on every later call.
		r.Part("E1d-compressor-failing-on-its-own", func(t *explore.T) {
			errComp := fmt.Errorf("compressor: out of memory")
			for _, where := range []string{"Write", "Flush", "Close"} {
				for _, at := range []int{0, 1} {
					for _, emitsFirst := range []bool{false, true} {
						for _, end := range []string{"Flush", "Close"} {
							where, at, emitsFirst, end := where, at, emitsFirst, end
							t.Do(func() string {
								return fmt.Sprintf("compressor fails in its %s call #%d (has emitted bytes before: %v); writer ended with %s", where, at, emitsFirst, end)
							}, func() *explore.Fail {
								var dst bytes.Buffer
								w := wsflate.NewWriter(&dst, func(out io.Writer) wsflate.Compressor {
									f, _ := flate.NewWriter(out, 6)
									return &failingComp{f: f, out: out, where: where, at: at, emitsFirst: emitsFirst, err: errComp}
								})
								var first error
								note := func(e error) {
									if first == nil {
										first = e
									}
								}
								_, e := w.Write([]byte("hello hello hello"))
								note(e)
								_, e = w.Write([]byte(" and more"))
								note(e)
								if end == "Flush" {
									note(w.Flush())
									note(w.Flush())
								} else {
									note(w.Close())
								}
								fc := false
								if first != nil {
									fc = true
								}
								if !fc {
									// the failing call was not reached in this combination
									t.Outcome("not-reached")
									return nil
								}
								if first != errComp {
									return explore.Failf("compressor-error-replaced", "the compressor failed with %q, the writer reports %q", errComp, first)
								}
								if w.Err() != errComp {
									return explore.Failf("compressor-error-not-kept", "Err() = %v", w.Err())
								}
								return nil
							})
						}
					}
				}
			}
			t.Outcome("reported")
		})

		r.Part("E2-reader", func(t *explore.T) {
			// foreign and hand-built streams
			var srcs []produced
			srcs = append(srcs, corpus...)
			small := payloads(false)
			if py {
				for _, p := range payloads(true) {
					for _, lv := range []int{0, 1, 6, 9} {
						for _, sp := range splits(len(p.data)) {
							if len(p.data) > 10000 && len(sp) > 1 {
								continue
							}
							var parts [][]byte
							off := 0
							for _, k := range sp {
								parts = append(parts, p.data[off:off+k])
								off += k
							}
							comp, err := zpy.Deflate(lv, parts)
							if err != nil || len(comp) < 4 || !bytes.Equal(comp[len(comp)-4:], tail) {
								t.Do(func() string { return "zlib deflate " + p.name }, func() *explore.Fail {
									return explore.Failf("harness-zlib-deflate", "err=%v", err)
								})
								continue
							}
							srcs = append(srcs, produced{fmt.Sprintf("zlib:%s/L%d/%v", p.name, lv, sp), comp[:len(comp)-4], p.data})
						}
					}
				}
			}
			for _, p := range small {
				n := len(p.data)
				// stored blocks at every split
				for c := 0; c <= n; c++ {
					var w refmodel.BitWriter
					w.Stored(p.data[:c], false)
					w.Stored(p.data[c:], false)
					srcs = append(srcs, produced{fmt.Sprintf("stored:%s@%d", p.name, c), w.SyncFlushStripped(), p.data})
					if n > 64 {
						c += 97
					}
				}
				// fixed Huffman literal blocks
				{
					var w refmodel.BitWriter
					w.Fixed(p.data[:n/2], false)
					w.Fixed(p.data[n/2:], false)
					srcs = append(srcs, produced{"fixed:" + p.name, w.SyncFlushStripped(), p.data})
				}
				// BFINAL block followed by the empty stored block (RFC 7692 7.2.3.4)
				{
					var w refmodel.BitWriter
					w.Fixed(p.data, true)
					w.Align()
					w.Out = append(w.Out, 0x00)
					srcs = append(srcs, produced{"bfinal+empty:" + p.name, w.Out, p.data})
				}
			}
			dls := deliveries(t.Thorough())
			t.Par(len(srcs), func(i int) {
				s := srcs[i]
				// sanity: the independent decoder agrees on what the stream means
				t.Do(func() string { return "source " + s.name + " self-check" }, func() *explore.Fail {
					out, _, err := refmodel.Inflate(append(append([]byte{}, s.comp...), tail...))
					if err != nil || !bytes.Equal(out, s.want) {
						return explore.Failf("harness-source-not-valid", "%s: %v", s.name, err)
					}
					return nil
				})
				for _, dl := range dls {
					if len(s.comp) > 20000 && strings.HasPrefix(dl.name, "chunk1-") && !t.Thorough() {
						continue
					}
					dl := dl
					t.Do(func() string { return fmt.Sprintf("source=%s (%d bytes) delivery=%s", s.name, len(s.comp), dl.name) }, func() *explore.Fail {
						return readBack(s.comp, s.want, dl)
					})
				}
				if len(s.comp) <= 64 {
					for k := 1; k < len(s.comp); k++ {
						for _, br := range []bool{false, true} {
							dl := cutDelivery(k, br)
							t.Do(func() string { return fmt.Sprintf("source=%s (%d bytes) delivery=%s", s.name, len(s.comp), dl.name) }, func() *explore.Fail {
								return readBack(s.comp, s.want, dl)
							})
						}
					}
				}
			})
			t.Outcome("recovered")
			t.Note(fmt.Sprintf("%d compressed sources: the library writer's own outputs, python zlib at levels 0/1/6/9 sync-flushed after each part, harness-encoded stored blocks at every split, fixed-Huffman blocks, BFINAL+empty block; 18 delivery modes (incl. two whose every third Read returns 0, nil) + a cut at every position for streams <=64 bytes", len(srcs)))
		})

		// One Reader serves many messages (Reset between them). However the previous message
		// was left - read to its end, read in part, not read at all, corrupt - and whatever kind of
		// source it came from, the next message reads back exactly.
		r.Part("E2c-reader-reused-across-messages", func(t *explore.T) {
			compress := func(p []byte) []byte {
				var b bytes.Buffer
				w := wsflate.NewWriter(&b, compressors()[1].mk)
				w.Write(p)
				w.Flush()
				return b.Bytes()
			}
			firsts := []payload{{"hello", []byte("hello")}, {"600xab", []byte(strings.Repeat("ab", 600))}, {"40000-patterned", payloads(true)[6].data}, {"empty", nil}}
			seconds := []payload{{"a", []byte("a")}, {"3000-bytes", lcg(3000, 5)}, {"empty", nil}}
			kinds := []delivery{deliveries(false)[0], deliveries(false)[13], deliveries(false)[14]} // bytes.Reader, chunked byte reader, chunked plain reader
			for _, f := range firsts {
				fc := compress(f.data)
				for _, how := range []string{"read-all", "read-1-byte", "read-half", "not-read", "corrupt"} {
					for _, k1 := range kinds {
						for _, k2 := range kinds {
							for _, sec := range seconds {
								f, how, k1, k2, sec := f, how, k1, k2, sec
								t.Do(func() string {
									return fmt.Sprintf("first=%s from %s (%s); Reset; second=%s from %s", f.name, k1.name, how, sec.name, k2.name)
								}, func() *explore.Fail {
									src := fc
									if how == "corrupt" {
										src = append([]byte{0x07, 0xff, 0xff}, fc...)
									}
									rd := wsflate.NewReader(k1.mk(src), newDecomp)
									switch how {
									case "read-all", "corrupt":
										io.Copy(io.Discard, rd)
									case "read-1-byte":
										rd.Read(make([]byte, 1))
									case "read-half":
										io.CopyN(io.Discard, rd, int64(len(f.data)/2))
									}
									rd.Reset(k2.mk(compress(sec.data)))
									got, err := io.ReadAll(rd)
									if err != nil {
										return explore.Failf("reused-reader-error", "%v (got %d of %d bytes)", err, len(got), len(sec.data))
									}
									if !bytes.Equal(got, sec.data) {
										return explore.Failf("reused-reader-output-differs", "got %d bytes want %d", len(got), len(sec.data))
									}
									return nil
								})
							}
						}
					}
				}
			}
			t.Outcome("exact")
		})

		// "For every message": messages at the far end of what DEFLATE can do - megabytes of one
		// byte or of a 2..4-byte period compress about 1000:1 - through the writer, the reader and
		// every helper that inflates; and incompressible megabytes for the other end.
		r.Part("E2d-extreme-compression-ratios", func(t *explore.T) {
			type big struct {
				name string
				data []byte
			}
			var bigs []big
			for _, n := range []int{3 << 20, 6 << 20, 8<<20 + 5} {
				bigs = append(bigs, big{fmt.Sprintf("%d x 'a'", n), bytes.Repeat([]byte{'a'}, n)})
			}
			bigs = append(bigs, big{"4 MiB of zero bytes", make([]byte, 4<<20)}, big{"5 MiB of abcd", bytes.Repeat([]byte("abcd"), 5<<18)}, big{"2 MiB incompressible", lcg(2<<20, 5)})
			t.Par(len(bigs), func(i int) {
				b := bigs[i]
				for _, lv := range []int{1, 6, 9} {
					lv := lv
					t.Do(func() string {
						return fmt.Sprintf("%s, compressor level %d: Writer, then Reader and the inflating helpers", b.name, lv)
					}, func() *explore.Fail {
						var cb bytes.Buffer
						w := wsflate.NewWriter(&cb, func(w io.Writer) wsflate.Compressor {
							f, _ := flate.NewWriter(w, lv)
							return f
						})
						if _, err := w.Write(b.data); err != nil {
							return explore.Failf("big-write", "%v", err)
						}
						if err := w.Flush(); err != nil {
							return explore.Failf("big-flush", "%v", err)
						}
						comp := append([]byte{}, cb.Bytes()...)
						out, _, ierr := refmodel.Inflate(append(append([]byte{}, comp...), tail...))
						if ierr != nil || !bytes.Equal(out, b.data) {
							return explore.Failf("big-writer-output-not-deflate", "%v (%d of %d bytes)", ierr, len(out), len(b.data))
						}
						got, err := io.ReadAll(wsflate.NewReader(bytes.NewReader(comp), newDecomp))
						if err != nil || !bytes.Equal(got, b.data) {
							return explore.Failf("big-reader", "%v (%d of %d bytes)", err, len(got), len(b.data))
						}
						h := wsflate.Helper{Compressor: func(w io.Writer) wsflate.Compressor {
							f, _ := flate.NewWriter(w, lv)
							return f
						}, Decompressor: newDecomp}
						for _, hh := range []*wsflate.Helper{&h, &wsflate.DefaultHelper} {
							d, err := hh.Decompress(comp)
							if err != nil || !bytes.Equal(d, b.data) {
								return explore.Failf("big-Helper.Decompress", "%v: %d of %d bytes (%d compressed)", err, len(d), len(b.data), len(comp))
							}
							var db bytes.Buffer
							if err := hh.DecompressTo(&db, comp); err != nil || !bytes.Equal(db.Bytes(), b.data) {
								return explore.Failf("big-Helper.DecompressTo", "%v: %d of %d bytes", err, db.Len(), len(b.data))
							}
							f, err := hh.DecompressFrame(ws.Frame{Header: ws.Header{Fin: true, Rsv: 4, OpCode: ws.OpBinary, Length: int64(len(comp))}, Payload: comp})
							if err != nil || !bytes.Equal(f.Payload, b.data) || f.Header.Length != int64(len(b.data)) {
								return explore.Failf("big-Helper.DecompressFrame", "%v: %d of %d bytes", err, len(f.Payload), len(b.data))
							}
							c2, err := hh.Compress(b.data)
							if err != nil {
								return explore.Failf("big-Helper.Compress", "%v", err)
							}
							if d2, err := hh.Decompress(c2); err != nil || !bytes.Equal(d2, b.data) {
								return explore.Failf("big-Helper-roundtrip", "%v: %d of %d bytes", err, len(d2), len(b.data))
							}
						}
						return nil
					})
				}
			})
			t.Outcome("recovered")
		})

		r.Part("E3-frame-helpers", func(t *explore.T) {
			for _, p := range payloads(false) {
				for fin := 0; fin < 2; fin++ {
					for _, rsv := range []byte{0, 2, 3} {
						for _, op := range []ws.OpCode{ws.OpText, ws.OpBinary, ws.OpContinuation, ws.OpPing} {
							for _, buffered := range []bool{false, true} {
								p, fin, rsv, op, buffered := p, fin, rsv, op, buffered
								t.Do(func() string {
									return fmt.Sprintf("CompressFrame payload=%s fin=%d rsv=%d op=%x buffer=%v", p.name, fin, rsv, op, buffered)
								}, func() *explore.Fail {
									f := ws.Frame{Header: ws.Header{Fin: fin == 1, Rsv: rsv, OpCode: op, Length: int64(len(p.data))}, Payload: append([]byte{}, p.data...)}
									var c ws.Frame
									var err error
									if buffered {
										var b bytes.Buffer
										c, err = wsflate.CompressFrameBuffer(&b, f)
									} else {
										c, err = wsflate.CompressFrame(f)
									}
									if fin == 0 {
										if err == nil {
											return explore.Failf("non-final-frame-compressed", "")
										}
										var b bytes.Buffer
										g := f
										g.Header.Rsv |= 4
										if _, err := wsflate.DecompressFrameBuffer(&b, g); err == nil {
											return explore.Failf("non-final-frame-decompressed", "")
										}
										// a non-final frame is refused whatever its bits say: the helpers work on whole
										// messages only, and a fragment without RSV1 may well belong to a compressed one
										if _, err := wsflate.DecompressFrameBuffer(&b, f); err == nil {
											return explore.Failf("non-final-frame-decompressed:rsv1-clear", "DecompressFrameBuffer")
										}
										if _, err := wsflate.DecompressFrame(f); err == nil {
											return explore.Failf("non-final-frame-decompressed:rsv1-clear", "DecompressFrame")
										}
										if _, err := wsflate.DefaultHelper.DecompressFrame(g); err == nil {
											return explore.Failf("non-final-frame-decompressed", "Helper.DecompressFrame")
										}
										if _, err := wsflate.DefaultHelper.CompressFrame(g); err == nil {
											return explore.Failf("non-final-frame-compressed", "Helper.CompressFrame with RSV1 already set")
										}
										t.Outcome("non-final-refused")
										return nil
									}
									if err != nil {
										return explore.Failf("compress-frame-error", "%v", err)
									}
									if !bytes.Equal(f.Payload, p.data) {
										return explore.Failf("compress-frame-mutates-input", "")
									}
									if op != ws.OpText && op != ws.OpBinary {
										// compressing a continuation or control frame is outside what the
										// extension allows; recorded, not judged
										t.Outcome("non-data-first(open)")
										return nil
									}
									if c.Header.Rsv != rsv|4 || c.Header.Length != int64(len(c.Payload)) || c.Header.OpCode != op || !c.Header.Fin {
										return explore.Failf("compressed-frame-header", "%+v", c.Header)
									}
									out, _, ierr := refmodel.Inflate(append(append([]byte{}, c.Payload...), tail...))
									if ierr != nil || !bytes.Equal(out, p.data) {
										return explore.Failf("compressed-frame-payload-not-deflate", "%v", ierr)
									}
									var d ws.Frame
									if buffered {
										var b bytes.Buffer
										d, err = wsflate.DecompressFrameBuffer(&b, c)
									} else {
										d, err = wsflate.DecompressFrame(c)
									}
									if err != nil {
										return explore.Failf("decompress-frame-error", "%v", err)
									}
									want := f.Header
									if d.Header != want || !bytes.Equal(d.Payload, p.data) {
										return explore.Failf("frame-roundtrip-differs", "header %+v want %+v; payload %d bytes want %d", d.Header, want, len(d.Payload), len(p.data))
									}
									// RSV1 clear -> returned unchanged
									u, err := wsflate.DecompressFrame(f)
									if err != nil || u.Header != f.Header || !bytes.Equal(u.Payload, f.Payload) {
										return explore.Failf("uncompressed-frame-not-passed-through", "%v", err)
									}
									t.Outcome("roundtrip")
									return nil
								})
							}
						}
					}
				}
				p := p
				t.Do(func() string { return "Helper.Compress/Decompress " + p.name }, func() *explore.Fail {
					h := wsflate.DefaultHelper
					c, err := h.Compress(p.data)
					if err != nil {
						return explore.Failf("helper-compress", "%v", err)
					}
					out, _, ierr := refmodel.Inflate(append(append([]byte{}, c...), tail...))
					if ierr != nil || !bytes.Equal(out, p.data) {
						return explore.Failf("helper-compress-not-deflate", "%v", ierr)
					}
					d, err := h.Decompress(c)
					if err != nil || !bytes.Equal(d, p.data) {
						return explore.Failf("helper-roundtrip", "%v", err)
					}
					// the payload handed in is a window into a larger receive buffer (two frames parsed
					// without copying): what lies behind it in that buffer is not the helpers' to touch
					for _, which := range []string{"Decompress", "DecompressTo", "DecompressFrame", "Compress", "CompressFrame"} {
						in := c
						if which == "Compress" || which == "CompressFrame" {
							in = p.data
						}
						big := append(append([]byte{}, in...), bytes.Repeat([]byte{0x5A}, 32)...)
						win := big[:len(in)]
						var err error
						switch which {
						case "Decompress":
							_, err = h.Decompress(win)
						case "DecompressTo":
							err = h.DecompressTo(io.Discard, win)
						case "DecompressFrame":
							_, err = h.DecompressFrame(ws.Frame{Header: ws.Header{Fin: true, Rsv: 4, OpCode: ws.OpText, Length: int64(len(win))}, Payload: win})
						case "Compress":
							_, err = h.Compress(win)
						case "CompressFrame":
							_, err = h.CompressFrame(ws.NewTextFrame(win))
						}
						if err != nil {
							return explore.Failf("helper-error:"+which, "%v", err)
						}
						if !bytes.Equal(big[:len(in)], in) || !bytes.Equal(big[len(in):], bytes.Repeat([]byte{0x5A}, 32)) {
							return explore.Failf("helper-writes-into-callers-buffer:"+which, "the %d-byte window or the bytes behind it changed", len(in))
						}
					}
					// the streaming variants, into the caller's writer (several payloads through one
					// writer: each call appends exactly its own output), and with helpers the
					// application configured itself
					helpers := []wsflate.Helper{h,
						{Compressor: compressors()[0].mk, Decompressor: newDecomp},
						{Compressor: compressors()[5].mk, Decompressor: newDecomp}}
					for hi := range helpers {
						hp := &helpers[hi]
						var cb, db bytes.Buffer
						cb.WriteString("PREFIX")
						if err := hp.CompressTo(&cb, p.data); err != nil {
							return explore.Failf("helper-CompressTo", "helper #%d: %v", hi, err)
						}
						cc := cb.Bytes()[len("PREFIX"):]
						if out, _, ierr := refmodel.Inflate(append(append([]byte{}, cc...), tail...)); ierr != nil || !bytes.Equal(out, p.data) {
							return explore.Failf("helper-CompressTo-not-deflate", "helper #%d: %v", hi, ierr)
						}
						db.WriteString("PREFIX")
						if err := hp.DecompressTo(&db, cc); err != nil || !bytes.Equal(db.Bytes()[len("PREFIX"):], p.data) {
							return explore.Failf("helper-DecompressTo", "helper #%d: err=%v got %d bytes want %d", hi, err, db.Len()-6, len(p.data))
						}
						// a second call on the same helper and the same writers
						if err := hp.DecompressTo(&db, cc); err != nil || !bytes.Equal(db.Bytes()[len("PREFIX")+len(p.data):], p.data) {
							return explore.Failf("helper-DecompressTo-second-call", "helper #%d: err=%v", hi, err)
						}
					}
					return nil
				})
			}
			// bad compressors
			type bad struct {
				name string
				mk   func(w io.Writer) wsflate.Compressor
			}
			bads := []bad{
				{"passthrough", func(w io.Writer) wsflate.Compressor { return passthrough{w} }},
				{"byte-after-tail", func(w io.Writer) wsflate.Compressor {
					f, _ := flate.NewWriter(w, 6)
					return &extraByte{f: f, w: w}
				}},
				{"flush-writes-nothing", func(w io.Writer) wsflate.Compressor {
					f, _ := flate.NewWriter(w, 6)
					return &noFlush{f}
				}},
			}
			for i := 0; i < 4; i++ {
				for _, x := range []byte{0x01, 0xfe} {
					i, x := i, x
					bads = append(bads, bad{fmt.Sprintf("tail-byte%d^%02x", i, x), func(w io.Writer) wsflate.Compressor {
						f, _ := flate.NewWriter(io.Discard, 6)
						c := &corruptTail{w: w, i: i, x: x}
						f.Reset(&c.buf)
						c.f = f
						return c
					}})
				}
			}
			// a compressor that does its job for the first message and, after the Writer's Reset,
			// stops emitting anything on Flush: the second message either fails or is a real DEFLATE
			// stream of its payload - what the first message left in the writer plays no part
			for _, p := range payloads(false) {
				for _, firstEnding := range []string{"Flush", "Close", "Flush+Close"} {
					p, firstEnding := p, firstEnding
					t.Do(func() string {
						return fmt.Sprintf("compressor turns bad after Reset: first message ended by %s, second payload=%s", firstEnding, p.name)
					}, func() *explore.Fail {
						d1 := env.NewDst()
						w := wsflate.NewWriter(d1, func(cw io.Writer) wsflate.Compressor {
							f, _ := flate.NewWriter(cw, 6)
							return &lateNoFlush{f: f}
						})
						w.Write([]byte("hello"))
						for _, e := range strings.Split(firstEnding, "+") {
							if e == "Flush" {
								w.Flush()
							} else {
								w.Close()
							}
						}
						d2 := env.NewDst()
						w.Reset(d2)
						w.Write(p.data)
						if err := w.Flush(); err != nil {
							t.Outcome("bad-compressor-reported")
							return nil
						}
						out, _, ierr := refmodel.Inflate(append(append([]byte{}, d2.Bytes()...), tail...))
						if ierr != nil || !bytes.Equal(out, p.data) {
							return explore.Failf("bad-compressor-not-reported-after-Reset", "Flush returned nil; the destination got %x, which with the tail inflates to %d bytes (err=%v), payload had %d", d2.Bytes(), len(out), ierr, len(p.data))
						}
						t.Outcome("bad-compressor-output-happens-to-be-valid")
						return nil
					})
				}
			}
			for _, b := range bads {
				for _, p := range payloads(false) {
					for _, ending := range []string{"Flush", "Close", "Flush+Close"} {
						b, p, ending := b, p, ending
						t.Do(func() string { return fmt.Sprintf("bad compressor %s payload=%s ending=%s", b.name, p.name, ending) }, func() *explore.Fail {
							d := env.NewDst()
							rec := &recorder{}
							w := wsflate.NewWriter(d, func(cw io.Writer) wsflate.Compressor {
								rec.w = cw
								return b.mk(rec)
							})
							w.Write(p.data)
							var err error
							for _, e := range strings.Split(ending, "+") {
								if e == "Flush" {
									err = w.Flush()
								} else {
									err = w.Close()
								}
								if err != nil {
									break
								}
								// the call succeeded: then what the compressor emitted so far must end
								// with the tail, otherwise the bad compressor went unreported
								if !bytes.HasSuffix(rec.buf.Bytes(), tail) {
									return explore.Failf("bad-compressor-not-reported:"+b.name, "%s returned nil although the compressor's output ends with %x", e, lastN(rec.buf.Bytes(), 4))
								}
							}
							if err != nil {
								t.Outcome("bad-compressor-reported")
								return nil
							}
							// no error and the output does end with the tail (a pass-through compressor fed a
							// message that itself ends in 00 00 ff ff, or a Close that emits the final block):
							// outside the statement's premise; recorded, not judged.
							t.Outcome("bad-compressor-output-happens-to-be-valid")
							return nil
						})
					}
				}
			}
		})
	})
}

// corruptTail is flate whose flush output has one byte of the final four altered.
type corruptTail struct {
	f   *flate.Writer
	buf bytes.Buffer
	w   io.Writer
	i   int
	x   byte
}

func (c *corruptTail) Write(b []byte) (int, error) { return c.f.Write(b) }
func (c *corruptTail) Flush() error {
	if err := c.f.Flush(); err != nil {
		return err
	}
	p := append([]byte{}, c.buf.Bytes()...)
	c.buf.Reset()
	if len(p) >= 4 {
		p[len(p)-4+c.i] ^= c.x
	}
	_, err := c.w.Write(p)
	return err
}

type recorder struct {
	w   io.Writer
	buf bytes.Buffer
}

func (r *recorder) Write(p []byte) (int, error) {
	r.buf.Write(p)
	return r.w.Write(p)
}

func lastN(b []byte, n int) []byte {
	if len(b) > n {
		return b[len(b)-n:]
	}
	return b
}

// flakyDst fails its failAt-th Write (only that one when transient, every later one otherwise).
type flakyDst struct {
	buf       bytes.Buffer
	calls     int
	failAt    int
	transient bool
	// partial: the failing call accepts this many bytes (-1: half) before it reports err
	partial int
	err     error
}

func (f *flakyDst) Write(p []byte) (int, error) {
	i := f.calls
	f.calls++
	if i == f.failAt || (!f.transient && i > f.failAt) {
		n := f.partial
		if n < 0 {
			n = len(p) / 2
		}
		if n > len(p) {
			n = len(p)
		}
		f.buf.Write(p[:n])
		if f.err != nil {
			return n, f.err
		}
		return n, env.ErrInjected
	}
	return f.buf.Write(p)
}

// runPattern applies W(rite half)/F(lush)/C(lose) steps and returns the first error.
func runPattern(w *wsflate.Writer, data []byte, pattern string) error {
	steps := strings.Split(pattern, ";")
	nw := strings.Count(pattern, "W")
	off, k := 0, 0
	var first error
	for _, s := range steps {
		var err error
		switch s {
		case "W":
			k++
			end := len(data) * k / nw
			_, err = w.Write(data[off:end])
			off = end
		case "F":
			err = w.Flush()
		case "C":
			err = w.Close()
		}
		if err != nil && first == nil {
			first = err
		}
	}
	return first
}

type passthrough struct{ w io.Writer }

func (p passthrough) Write(b []byte) (int, error) { return p.w.Write(b) }
func (p passthrough) Flush() error                { return nil }

type extraByte struct {
	f *flate.Writer
	w io.Writer
}

func (e *extraByte) Write(b []byte) (int, error) { return e.f.Write(b) }
func (e *extraByte) Flush() error {
	if err := e.f.Flush(); err != nil {
		return err
	}
	_, err := e.w.Write([]byte{0x42})
	return err
}

type noFlush struct{ f *flate.Writer }

func (n *noFlush) Write(b []byte) (int, error) { return n.f.Write(b) }
func (n *noFlush) Flush() error                { return nil }

// lateNoFlush compresses properly until it is Reset for the first time; from then on Flush
// emits nothing (a compressor that starts batching its flushes).
type lateNoFlush struct {
	f      *flate.Writer
	resets int
}

func (l *lateNoFlush) Write(b []byte) (int, error) { return l.f.Write(b) }
func (l *lateNoFlush) Close() error                { return l.f.Close() }
func (l *lateNoFlush) Reset(w io.Writer)           { l.resets++; l.f.Reset(w) }
func (l *lateNoFlush) Flush() error {
	if l.resets > 0 {
		return nil
	}
	return l.f.Flush()
}
