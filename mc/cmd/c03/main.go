// C03: header and close-payload validity checks decide exactly the RFC 6455 rules.
package main

import (
	"bytes"
	"fmt"
	"github.com/gobwas/ws/wsutil"
	"io"
	"strings"
	"unicode/utf8"
	"verifmc/env"

	"github.com/gobwas/ws"

	"verifmc/explore"
	"verifmc/refmodel"
)

// which rule(s) does each ws error name
var errRule = map[error]string{
	ws.ErrProtocolOpCodeReserved:         refmodel.RuleReservedOp,
	ws.ErrProtocolControlPayloadOverflow: refmodel.RuleControlTooLong,
	ws.ErrProtocolControlNotFinal:        refmodel.RuleControlNotFinal,
	ws.ErrProtocolNonZeroRsv:             refmodel.RuleRsv,
	ws.ErrProtocolMaskRequired:           refmodel.RuleMaskRequired,
	ws.ErrProtocolMaskUnexpected:         refmodel.RuleMaskUnexpected,
	ws.ErrProtocolContinuationExpected:   refmodel.RuleContinuationExp,
	ws.ErrProtocolContinuationUnexpected: refmodel.RuleContinuationUnex,
}

func main() {
	explore.Main("C03", func(r *explore.Run) {
		r.Part("E1-CheckHeader", func(t *explore.T) {
			lens := []int64{0, 1, 125, 126, 127, 65535, 65536, 1<<63 - 1}
			for fin := 0; fin < 2; fin++ {
				for rsv := byte(0); rsv < 8; rsv++ {
					for op := byte(0); op < 16; op++ {
						for m := 0; m < 2; m++ {
							for _, ln := range lens {
								for st := 0; st < 16; st++ {
									h := refmodel.Hdr{Fin: fin == 1, Rsv: rsv, Op: op, Masked: m == 1, Len: uint64(ln)}
									s := refmodel.St{Server: st&1 != 0, Client: st&2 != 0, Extended: st&4 != 0, Fragmented: st&8 != 0}
									state := ws.State(st)
									t.Do(func() string { return fmt.Sprintf("hdr %v state=%+v", h, s) }, func() *explore.Fail {
										broken := refmodel.CheckRules(h, s)
										err := ws.CheckHeader(ws.Header{Fin: h.Fin, Rsv: h.Rsv, OpCode: ws.OpCode(h.Op), Masked: h.Masked, Length: ln}, state)
										if len(broken) == 0 {
											if err != nil {
												return explore.Failf("rejects-valid", "no rule broken but got %v", err)
											}
											t.Outcome("accept")
											return nil
										}
										if err == nil {
											return explore.Failf("accepts-invalid:"+firstKey(broken), "rules broken %v but accepted", keys(broken))
										}
										rule, ok := errRule[err]
										if !ok {
											return explore.Failf("unknown-error", "%v", err)
										}
										if !broken[rule] {
											return explore.Failf("names-unbroken-rule:"+rule, "error %q but broken rules are %v", err, keys(broken))
										}
										if _, isPE := err.(ws.ProtocolError); !isPE {
											return explore.Failf("not-protocol-error", "%T", err)
										}
										t.Outcome("reject:" + rule)
										return nil
									})
								}
							}
						}
					}
				}
			}
		})

		r.Part("E1b-opcode-status-predicates", func(t *explore.T) {
			for op := 0; op < 256; op++ {
				o := ws.OpCode(op)
				t.Do(func() string { return fmt.Sprintf("opcode %#x", op) }, func() *explore.Fail {
					if op < 16 {
						if o.IsControl() != (op >= 8) || o.IsData() != (op < 8) {
							return explore.Failf("IsControl/IsData", "op=%d", op)
						}
						if o.IsReserved() != refmodel.IsReserved(byte(op)) {
							return explore.Failf("IsReserved", "op=%d", op)
						}
					}
					t.Outcome("ok")
					return nil
				})
			}
			// reserved-bit helpers and state arithmetic, all values
			for rsv := 0; rsv < 256; rsv++ {
				rsv := byte(rsv)
				t.Do(func() string { return fmt.Sprintf("rsv byte %#x", rsv) }, func() *explore.Fail {
					h := ws.Header{Rsv: rsv}
					r1, r2, r3 := ws.RsvBits(rsv)
					if r1 != (rsv&4 != 0) || r2 != (rsv&2 != 0) || r3 != (rsv&1 != 0) || h.Rsv1() != r1 || h.Rsv2() != r2 || h.Rsv3() != r3 {
						return explore.Failf("rsv-bit-helpers", "rsv=%03b: RsvBits=%v,%v,%v Header=%v,%v,%v", rsv, r1, r2, r3, h.Rsv1(), h.Rsv2(), h.Rsv3())
					}
					if rsv < 8 && ws.Rsv(r1, r2, r3) != rsv {
						return explore.Failf("Rsv-not-inverse-of-RsvBits", "rsv=%03b", rsv)
					}
					st := ws.State(rsv)
					for _, v := range []ws.State{ws.StateServerSide, ws.StateClientSide, ws.StateExtended, ws.StateFragmented, ws.StateServerSide | ws.StateExtended} {
						if st.Set(v) != st|v || st.Clear(v) != st&^v || st.Is(v) != (st&v != 0) {
							return explore.Failf("state-arithmetic", "state=%08b v=%08b", st, v)
						}
					}
					if st.ServerSide() != (st&ws.StateServerSide != 0) || st.ClientSide() != (st&ws.StateClientSide != 0) || st.Extended() != (st&ws.StateExtended != 0) || st.Fragmented() != (st&ws.StateFragmented != 0) {
						return explore.Failf("state-predicates", "state=%08b", st)
					}
					return nil
				})
			}
			for c := 0; c < 65536; c++ {
				code := ws.StatusCode(c)
				t.Do(func() string { return fmt.Sprintf("status %d", c) }, func() *explore.Fail {
					in := func(lo, hi int) bool { return c >= lo && c <= hi }
					if code.IsNotUsed() != in(0, 999) || code.IsProtocolSpec() != in(1000, 2999) ||
						code.IsApplicationSpec() != in(3000, 3999) || code.IsPrivateSpec() != in(4000, 4999) {
						return explore.Failf("range-predicate", "code=%d", c)
					}
					if code.Empty() != (c == 0) {
						return explore.Failf("Empty", "code=%d", c)
					}
					// the exported ranges and the range test itself, with ranges of the caller's own
					if code.In(ws.StatusRangeNotInUse) != in(0, 999) || code.In(ws.StatusRangeProtocol) != in(1000, 2999) ||
						code.In(ws.StatusRangeApplication) != in(3000, 3999) || code.In(ws.StatusRangePrivate) != in(4000, 4999) {
						return explore.Failf("In(exported-range)", "code=%d", c)
					}
					for _, rg := range [][2]int{{0, 0}, {c, c}, {c, 65535}, {0, c}, {c + 1, 65535}, {1000, 1000}, {999, 1000}, {65535, 65535}, {2000, 1000}} {
						if rg[0] > 65535 {
							continue
						}
						if code.In(ws.StatusCodeRange{Min: ws.StatusCode(rg[0]), Max: ws.StatusCode(rg[1])}) != in(rg[0], rg[1]) {
							return explore.Failf("In(range)", "code=%d range=%v", c, rg)
						}
					}
					defined := in(1000, 1003) || in(1005, 1011) || c == 1015
					if code.IsProtocolDefined() != defined {
						return explore.Failf("IsProtocolDefined", "code=%d", c)
					}
					if code.IsProtocolReserved() != (c == 1005 || c == 1006 || c == 1015) {
						return explore.Failf("IsProtocolReserved", "code=%d", c)
					}
					t.Outcome("ok")
					return nil
				})
			}
		})

		// reason shapes: every string of <=3 units over valid, replacement-character, malformed
		// and truncated sequences (the verdict must be utf8.Valid of the whole reason, wherever
		// the first suspicious byte sits), for a handful of acceptable codes
		r.Part("E2b-reason-shapes", func(t *explore.T) {
			units := []string{"a", "\u00e9", "\u20ac", "\ufffd", "\U0001F600", "\xff", "\xe2\x82", "\xc0\x80", "\xed\xa0\x80", "\x80", "\xef\xbf"}
			var reasons []string
			var gen func(cur string, k int)
			gen = func(cur string, k int) {
				reasons = append(reasons, cur)
				if k == 3 {
					return
				}
				for _, u := range units {
					gen(cur+u, k+1)
				}
			}
			gen("", 0)
			for _, c := range []int{1000, 1001, 1003, 1011, 3000, 4999} {
				for _, reason := range reasons {
					c, reason := c, reason
					t.Do(func() string { return fmt.Sprintf("code=%d reason=%q", c, reason) }, func() *explore.Fail {
						err := ws.CheckCloseFrameData(ws.StatusCode(c), reason)
						if ok := utf8.ValidString(reason); ok != (err == nil) {
							if ok {
								return explore.Failf("refuses-valid-close", "reason %q: %v", reason, err)
							}
							return explore.Failf("accepts-bad-utf8-reason", "reason %q accepted", reason)
						}
						if err != nil && err != ws.ErrProtocolInvalidUTF8 {
							return explore.Failf("bad-reason-wrong-error", "%v", err)
						}
						t.Outcome(fmt.Sprintf("valid=%v", err == nil))
						return nil
					})
				}
			}
		})

		// A reason obtained through the zero-copy parser shares memory with the frame buffer, which
		// the application reuses for the next frame: the verdict on a reason is a function of the
		// bytes it holds when it is checked - not of what that string, or an equal one, held at an
		// earlier check.
		r.Part("E2d-reason-verdict-has-no-memory", func(t *explore.T) {
			units := []string{"a", "\u00e9", "\u20ac", "\xff", "\xe2\x82", "\x80", "bye"}
			byLen := map[int][]string{}
			var gen func(cur string, k int)
			gen = func(cur string, k int) {
				if k > 0 {
					byLen[len(cur)] = append(byLen[len(cur)], cur)
				}
				if k == 3 {
					return
				}
				for _, u := range units {
					gen(cur+u, k+1)
				}
			}
			gen("", 0)
			for n, rs := range byLen {
				n, rs := n, rs
				t.DoN(int64(len(rs)*len(rs)), func() string {
					return fmt.Sprintf("every ordered pair of the %d reasons of %d bytes through one reused frame buffer", len(rs), n)
				}, func() *explore.Fail {
					for _, first := range rs {
						for _, second := range rs {
							body := ws.NewCloseFrameBody(1000, first)
							code, reason := ws.ParseCloseFrameDataUnsafe(body)
							e1 := ws.CheckCloseFrameData(code, reason)
							if (e1 == nil) != utf8.ValidString(first) {
								return explore.Failf("verdict", "reason %q: %v", first, e1)
							}
							copy(body[2:], second) // the buffer now holds the next close frame
							e2 := ws.CheckCloseFrameData(code, reason)
							e3 := ws.CheckCloseFrameData(code, string(append([]byte{}, second...)))
							want := utf8.ValidString(second)
							// (in the copying build of the library the view does not follow the buffer:
							// the in-place verdict is about whatever the string holds now)
							if (e2 == nil) != utf8.ValidString(reason) || (e3 == nil) != want {
								return explore.Failf("reason-verdict-depends-on-earlier-check", "buffer held %q (checked: %v), now holds %q: in place %v, fresh copy %v, want valid=%v", first, e1, second, e2, e3, want)
							}
						}
					}
					return nil
				})
			}
			t.Outcome("memoryless")
		})

		// long reasons: an ASCII reason of every length up to 123 with one position (or two
		// adjacent ones) replaced by a malformed byte, a truncated sequence or a valid 2-byte
		// character - wherever it sits relative to any block a validator may scan at a time
		r.Part("E2c-long-reasons-one-bad-position", func(t *explore.T) {
			subs := [][]byte{{0xff}, {0x80}, {0xc3}, {0xc3, 0xa9}, {0xe2, 0x82}, {0xc0, 0x80}}
			t.Par(124, func(L int) {
				for i := 0; i < L; i++ {
					for si, sub := range subs {
						if i+len(sub) > L {
							continue
						}
						i, si, sub := i, si, sub
						t.Do(func() string { return fmt.Sprintf("reason of %d ASCII bytes with %x at offset %d", L, sub, i) }, func() *explore.Fail {
							b := []byte(strings.Repeat("going away, bye! ", 8)[:L])
							copy(b[i:], sub)
							reason := string(b)
							err := ws.CheckCloseFrameData(1000, reason)
							if ok := utf8.ValidString(reason); ok != (err == nil) {
								if ok {
									return explore.Failf("refuses-valid-close", "reason %q: %v", reason, err)
								}
								return explore.Failf("accepts-bad-utf8-reason", "reason %q accepted (substitute #%d at offset %d of %d)", reason, si, i, L)
							}
							t.Outcome(fmt.Sprintf("valid=%v", err == nil))
							return nil
						})
					}
				}
			})
		})

		r.Part("E2-CheckCloseFrameData", func(t *explore.T) {
			reasons := []string{"", "ok", "€", "\xff", "\xe2\x82", "\xc0\x80", "\xed\xa0\x80"}
			for c := 0; c < 65536; c++ {
				for _, reason := range reasons {
					c, reason := c, reason
					t.Do(func() string { return fmt.Sprintf("code=%d reason=%q", c, reason) }, func() *explore.Fail {
						err := ws.CheckCloseFrameData(ws.StatusCode(c), reason)
						cls := refmodel.CloseCodeClass(uint16(c))
						okReason := utf8.ValidString(reason)
						switch {
						case cls > 0 && okReason:
							if err != nil {
								return explore.Failf("refuses-valid-close", "%v", err)
							}
							t.Outcome("accept")
						case cls < 0:
							if err == nil {
								return explore.Failf("accepts-bad-code", "code %d accepted", c)
							}
							t.Outcome("refuse-code")
						case cls > 0 && !okReason:
							if err == nil {
								return explore.Failf("accepts-bad-utf8-reason", "reason %q accepted", reason)
							}
							if err != ws.ErrProtocolInvalidUTF8 {
								return explore.Failf("bad-reason-wrong-error", "%v", err)
							}
							t.Outcome("refuse-reason")
						default: // open code
							if err == nil && !okReason {
								return explore.Failf("accepts-bad-utf8-reason", "open code %d with reason %q accepted", c, reason)
							}
							t.Outcome("open")
						}
						if err != nil {
							if _, ok := err.(ws.ProtocolError); !ok {
								return explore.Failf("not-protocol-error", "%T", err)
							}
						}
						return nil
					})
				}
			}
		})

		r.Part("E3-close-bodies", func(t *explore.T) {
			codes := []int{0, 999, 2999, 3000, 4999, 65535}
			for c := 1000; c <= 1016; c++ {
				codes = append(codes, c)
			}
			for _, c := range codes {
				for n := 0; n <= 130; n++ {
					for variant := 0; variant < 14; variant++ {
						c, n, variant := c, n, variant
						t.Do(func() string { return fmt.Sprintf("NewCloseFrameBody code=%d reasonlen=%d variant=%d", c, n, variant) }, func() *explore.Fail {
							var reason string
							if variant == 0 {
								reason = strings.Repeat("r", n)
							} else if variant == 1 {
								reason = strings.Repeat("€", n/3) + strings.Repeat("x", n%3)
							} else {
								// multibyte characters of 2, 3 and 4 bytes after 0..3 ASCII bytes, so that
								// the 123-byte crop falls at every position inside a character
								ch := []string{"é", "€", "😀"}[(variant-2)%3]
								pad := (variant - 2) / 3
								if n < pad {
									return nil
								}
								reason = strings.Repeat("p", pad) + strings.Repeat(ch, (n-pad)/len(ch))
								reason += strings.Repeat("x", n-len(reason))
							}
							// built twice: the first body is the caller's to do with as it likes (a client
							// masks it in place before sending), which must not reach the second one
							for round := 0; round < 2; round++ {
								body := ws.NewCloseFrameBody(ws.StatusCode(c), reason)
								if len(body) > 125 {
									return explore.Failf("body-too-long", "%d", len(body))
								}
								wantReason := reason
								if len(wantReason) > 123 {
									wantReason = wantReason[:123]
								}
								if len(body) != 2+len(wantReason) {
									return explore.Failf("body-length", "got %d want %d", len(body), 2+len(wantReason))
								}
								for _, parse := range []func([]byte) (ws.StatusCode, string){ws.ParseCloseFrameData, ws.ParseCloseFrameDataUnsafe} {
									gc, gr := parse(body)
									if int(gc) != c || gr != wantReason {
										return explore.Failf("parse-back", "got (%d,%q) want (%d,%q)", gc, gr, c, wantReason)
									}
								}
								// PutCloseFrameBody round trip
								if n <= 123 {
									p := make([]byte, 2+n)
									ws.PutCloseFrameBody(p, ws.StatusCode(c), reason)
									if !bytes.Equal(p, body) {
										return explore.Failf("PutCloseFrameBody", "differs from NewCloseFrameBody")
									}
								}
								// in-place re-encode through the zero-copy parser: the reason handed to
								// PutCloseFrameBody is a view of the very buffer it writes to
								{
									buf := append([]byte{}, body...)
									_, view := ws.ParseCloseFrameDataUnsafe(buf)
									other := ws.StatusCode(c ^ 1)
									ws.PutCloseFrameBody(buf, other, view)
									gc, gr := ws.ParseCloseFrameData(buf)
									if gc != other || gr != wantReason {
										return explore.Failf("PutCloseFrameBody-in-place", "re-encoding (%d,%q) in place as code %d gives (%d,%q)", c, wantReason, other, gc, gr)
									}
								}
								f := ws.NewCloseFrame(body)
								if !f.Header.Fin || f.Header.OpCode != ws.OpClose || f.Header.Length != int64(len(body)) {
									return explore.Failf("NewCloseFrame-header", "%+v", f.Header)
								}
								ws.MaskFrameInPlaceWith(f, [4]byte{0x12, 0x34, 0x56, 0x78})
								for i := range body[:cap(body)] {
									body[:cap(body)][i] ^= 0xA5
								}
							}
							t.Outcome("ok")
							return nil
						})
					}
				}
			}
			for n := 0; n < 2; n++ {
				n := n
				t.Do(func() string { return fmt.Sprintf("parse short payload len=%d", n) }, func() *explore.Fail {
					p := []byte{0x03, 0xe8}[:n]
					for _, parse := range []func([]byte) (ws.StatusCode, string){ws.ParseCloseFrameData, ws.ParseCloseFrameDataUnsafe} {
						c, rs := parse(p)
						if c != 0 || rs != "" {
							return explore.Failf("short-payload-not-empty", "(%d,%q)", c, rs)
						}
					}
					t.Outcome("no-code")
					return nil
				})
			}
			// every 2-byte code parses back exactly
			for c := 0; c < 65536; c++ {
				c := c
				t.Do(func() string { return fmt.Sprintf("parse code %d", c) }, func() *explore.Fail {
					p := []byte{byte(c >> 8), byte(c), 'h', 'i'}
					gc, gr := ws.ParseCloseFrameData(p)
					if int(gc) != c || gr != "hi" {
						return explore.Failf("parse-code", "got (%d,%q)", gc, gr)
					}
					return nil
				})
			}
		})

		// The close-payload check as the library's own close handling applies it: for a received
		// close frame the handler's verdict (the peer's code and reason reported, or a protocol
		// error) is the verdict of CheckCloseFrameData on the unmasked payload - whichever way the
		// transport delivers the masked bytes.
		r.Part("E4-the-check-as-applied-by-the-close-handler", func(t *explore.T) {
			reasons := []string{"", "bye", "going away, bye!", "\u20ac", "\xff", "by\xe2\x82", "ok\xc0\x80"}
			codes := []int{1000, 1001, 1005, 1006, 1011, 1015, 2999, 3000, 4999, 999, 0}
			mask := [4]byte{0x37, 0xfa, 0x21, 0x3d}
			for _, c := range codes {
				for _, reason := range reasons {
					for _, delivery := range []string{"all-at-once", "chunks-of-3", "last-bytes-with-EOF", "chunks-of-3-last-with-EOF"} {
						for _, masked := range []bool{true, false} {
							for _, bits := range []ws.State{0, ws.StateExtended, ws.StateFragmented} {
								if bits != 0 && delivery != "all-at-once" {
									continue
								}
								c, reason, delivery, masked, bits := c, reason, delivery, masked, bits
								t.Do(func() string {
									return fmt.Sprintf("close code=%d reason=%q masked=%v delivered %s, further state bits %08b", c, reason, masked, delivery, bits)
								}, func() *explore.Fail {
									body := append([]byte{byte(c >> 8), byte(c)}, reason...)
									want := ws.CheckCloseFrameData(ws.StatusCode(c), reason)
									h := ws.Header{Fin: true, OpCode: ws.OpClose, Length: int64(len(body)), Masked: masked, Mask: mask}
									wire := body
									st := ws.StateClientSide
									if masked {
										wire = refmodel.XOR(body, mask, 0)
										st = ws.StateServerSide
									}
									src := env.NewSrc(wire)
									if strings.HasPrefix(delivery, "chunks-of-3") {
										src.Policy = env.FixedChunk(3)
									}
									src.WithLast = strings.HasSuffix(delivery, "with-EOF")
									// (the state the caller tracks may say more than the side: a negotiated extension, a
									// fragmented message open around this close frame)
									err := wsutil.ControlHandler{Src: src, Dst: env.NewDst(), State: st | bits}.Handle(h)
									ce, closed := err.(wsutil.ClosedError)
									if want == nil {
										if !closed || int(ce.Code) != c || ce.Reason != reason {
											return explore.Failf("acceptable-close-not-reported-as-received", "handler returned %#v; CheckCloseFrameData accepts (%d,%q)", err, c, reason)
										}
										t.Outcome("accepted")
										return nil
									}
									if closed {
										return explore.Failf("unacceptable-close-reported-as-clean", "handler reported (%d,%q); CheckCloseFrameData: %v", ce.Code, ce.Reason, want)
									}
									if err != want {
										return explore.Failf("close-verdict-differs-from-the-check", "handler: %v; CheckCloseFrameData: %v", err, want)
									}
									t.Outcome("refused")
									return nil
								})
							}
						}
					}
				}
			}
		})

		// The header check as the streaming reader applies it, with the endpoint state the reader
		// keeps: after every prefix of a small stream the next header is accepted exactly when
		// CheckHeader accepts it in the state the RFC gives that prefix (a message open or not) -
		// also when the caller met a temporary transport error at a frame boundary on the way and
		// simply repeated the call (NextFrame by NextFrame, or while discarding the open message).
		r.Part("E5-the-check-with-the-state-the-reader-keeps", func(t *explore.T) {
			type fr struct {
				op  byte
				fin bool
			}
			type pre struct {
				name   string
				frames []fr
				open   bool
			}
			pres := []pre{
				{"nothing", nil, false},
				{"Text", []fr{{1, true}}, false},
				{"Text-", []fr{{1, false}}, true},
				{"Text- Ping", []fr{{1, false}, {9, true}}, true},
				{"Bin- Cont-", []fr{{2, false}, {0, false}}, true},
				{"Bin- Cont", []fr{{2, false}, {0, true}}, false},
			}
			// long open messages: the state is "a message is open" after any number of non-final
			// fragments, also around the widths a counter might have
			for _, k := range []int{255, 256, 257, 65535, 65536, 65537} {
				fs := []fr{{2, false}}
				for i := 0; i < k; i++ {
					fs = append(fs, fr{0, false})
				}
				pres = append(pres, pre{fmt.Sprintf("Bin- then %d x Cont-", k), fs, true})
			}
			for _, server := range []bool{true, false} {
				for _, p := range pres {
					for _, mode := range []string{"frame-by-frame", "discarding", "frame-by-frame, the continuation handler objecting to every continuation"} {
						if len(p.frames) > 10 && mode != "frame-by-frame" {
							continue
						}
						if mode == "discarding" && !p.open {
							continue
						}
						if strings.HasPrefix(mode, "frame-by-frame,") && !strings.Contains(p.name, "Cont") {
							continue
						}
						for hiccup := -1; hiccup <= len(p.frames); hiccup++ {
							if hiccup == 0 || (mode == "discarding" && hiccup != len(p.frames)) || (len(p.frames) > 10 && hiccup != -1) {
								continue
							}
							for op := byte(0); op < 16; op++ {
								for _, fin := range []bool{true, false} {
									server, p, mode, hiccup, op, fin := server, p, mode, hiccup, op, fin
									t.Do(func() string {
										return fmt.Sprintf("server=%v after [%s] (%s; temporary error behind frame %d) next header op=%x fin=%v", server, p.name, mode, hiccup, op, fin)
									}, func() *explore.Fail {
										var data []byte
										var ends []int
										for _, f := range p.frames {
											data = append(data, refmodel.Frame{H: refmodel.Hdr{Fin: f.fin, Op: f.op, Masked: server, Mask: [4]byte{1, 2, 3, 4}}}.Wire()...)
											ends = append(ends, len(data))
										}
										h := refmodel.Hdr{Fin: fin, Op: op, Masked: server, Mask: [4]byte{5, 6, 7, 8}}
										probeAt := len(data)
										data = append(data, refmodel.HdrEncode(h)...)
										src := env.NewSrc(data)
										if hiccup > 0 {
											src.HiccupAt, src.HiccupErr = ends[hiccup-1], env.TempErr{IsTimeout: true}
										}
										st := ws.StateClientSide
										if server {
											st = ws.StateServerSide
										}
										rd := &wsutil.Reader{Source: src, State: st}
										errObject := fmt.Errorf("continuation handler objects")
										if strings.HasPrefix(mode, "frame-by-frame,") {
											// (the state is the stream's, not the handler's: an objection changes nothing)
											rd.OnContinuation = func(ws.Header, io.Reader) error { return errObject }
										}
										next := func() error {
											for i := 0; i < 4; i++ {
												_, e := rd.NextFrame()
												if _, temp := e.(env.TempErr); !temp {
													return e
												}
											}
											return fmt.Errorf("harness: temporary error repeats")
										}
										var got error
										if strings.HasPrefix(mode, "frame-by-frame") {
											for range p.frames {
												if err := next(); err != nil && err != errObject {
													return explore.Failf("harness-prefix", "NextFrame: %v", err)
												}
											}
											got = next()
											if got == errObject {
												got = nil // the probe was a continuation the check let through
											}
										} else {
											if err := next(); err != nil {
												return explore.Failf("harness-prefix", "NextFrame: %v", err)
											}
											// discard the open message: the first attempt meets the temporary error
											// right in front of the probe, the second one meets the probe
											for i := 0; i < 4; i++ {
												got = rd.Discard()
												if _, temp := got.(env.TempErr); !temp {
													break
												}
											}
											if got == io.ErrUnexpectedEOF || got == io.EOF {
												got = nil // the probe was taken as a fragment and the stream ended there
											}
											if got == nil && src.Off == probeAt {
												got = next()
											}
										}
										want := refmodel.CheckRules(h, refmodel.St{Server: server, Client: !server, Fragmented: p.open})
										if (got == nil) != (len(want) == 0) {
											return explore.Failf("reader-applies-the-check-with-a-wrong-state:"+mode, "reader: %v; rule list with fragmented=%v: %v", got, p.open, want)
										}
										return nil
									})
								}
							}
						}
					}
				}
			}
			// Two refused headers in a row on the same reader (the caller logs the first refusal and
			// asks again; the frames carry no payload, so the stream stays in step): each refusal names
			// a rule that the header it is about actually breaks.
			for _, server := range []bool{true, false} {
				for _, open := range []bool{false, true} {
					for op1 := byte(0); op1 < 16; op1++ {
						for _, m1 := range []bool{false, true} {
							for op2 := byte(0); op2 < 16; op2++ {
								for _, fin2 := range []bool{true, false} {
									for _, m2 := range []bool{false, true} {
										for _, rsv2 := range []byte{0, 4} {
											st := refmodel.St{Server: server, Client: !server, Fragmented: open}
											h1 := refmodel.Hdr{Fin: true, Op: op1, Masked: m1, Mask: [4]byte{1, 2, 3, 4}}
											h2 := refmodel.Hdr{Fin: fin2, Rsv: rsv2, Op: op2, Masked: m2, Mask: [4]byte{5, 6, 7, 8}}
											b1, b2 := refmodel.CheckRules(h1, st), refmodel.CheckRules(h2, st)
											if len(b1) == 0 || len(b2) == 0 {
												continue
											}
											server, open, h1, h2, b2 := server, open, h1, h2, b2
											t.Do(func() string {
												return fmt.Sprintf("server=%v message open=%v: refused header {%v} followed by refused header {%v}", server, open, h1, h2)
											}, func() *explore.Fail {
												var data []byte
												if open {
													data = refmodel.Frame{H: refmodel.Hdr{Op: 2, Masked: server, Mask: [4]byte{9, 9, 9, 9}}}.Wire()
												}
												data = append(append(data, refmodel.HdrEncode(h1)...), refmodel.HdrEncode(h2)...)
												sst := ws.StateClientSide
												if server {
													sst = ws.StateServerSide
												}
												rd := &wsutil.Reader{Source: env.NewSrc(data), State: sst}
												if open {
													if _, err := rd.NextFrame(); err != nil {
														return explore.Failf("harness-prefix", "%v", err)
													}
												}
												if _, err := rd.NextFrame(); err == nil {
													return explore.Failf("reader-accepts-invalid", "first header {%v}", h1)
												}
												_, err := rd.NextFrame()
												if err == nil {
													return explore.Failf("reader-accepts-invalid", "second header {%v}", h2)
												}
												rule, ok := errRule[err]
												if !ok {
													return explore.Failf("second-refusal-unknown-error", "%v", err)
												}
												if !b2[rule] {
													return explore.Failf("second-refusal-names-unbroken-rule:"+rule, "error %q but the header breaks %v", err, keys(b2))
												}
												return nil
											})
										}
									}
								}
							}
						}
					}
				}
			}
			t.Outcome("as-CheckHeader")
		})
	})
}

func keys(m map[string]bool) []string {
	var out []string
	for k := range m {
		out = append(out, k)
	}
	return out
}
func firstKey(m map[string]bool) string {
	best := ""
	for k := range m {
		if best == "" || k < best {
			best = k
		}
	}
	return best
}
