// Package vctx stands in for package context in the overlay build of dialer.go (C20):
// aliases of the standard package, except that WithDeadline/WithTimeout can be routed to
// the harness (virtual timers, no helper goroutines).
package vctx

import (
	"context"
	"time"
)

type (
	Context    = context.Context
	CancelFunc = context.CancelFunc
)

var (
	Canceled         = context.Canceled
	DeadlineExceeded = context.DeadlineExceeded
)

// Virtual, when set, creates deadline contexts.
var Virtual func(parent Context, d time.Time) (Context, CancelFunc)

func Background() Context { return context.Background() }
func TODO() Context       { return context.TODO() }

func WithCancel(parent Context) (Context, CancelFunc) { return context.WithCancel(parent) }

func WithDeadline(parent Context, d time.Time) (Context, CancelFunc) {
	if v := Virtual; v != nil {
		return v(parent, d)
	}
	return context.WithDeadline(parent, d)
}

func WithTimeout(parent Context, t time.Duration) (Context, CancelFunc) {
	if v := Virtual; v != nil {
		return v(parent, nowFn().Add(t))
	}
	return context.WithTimeout(parent, t)
}

func WithValue(parent Context, key, val interface{}) Context {
	return context.WithValue(parent, key, val)
}

// nowFn is set by the harness together with Virtual.
var nowFn = time.Now

func SetNow(f func() time.Time) { nowFn = f }

// ---- the rest of package context, unchanged (a changed tree may use any of it) ----------

type CancelCauseFunc = context.CancelCauseFunc

// Cause is context.Cause, except that a harness context that carries a cause of its own
// (method Cause() error; the standard library cannot be taught about foreign context types)
// reports that one.
func Cause(c Context) error {
	if hc, ok := c.(interface{ Cause() error }); ok {
		return hc.Cause()
	}
	return context.Cause(c)
}

func WithCancelCause(parent Context) (Context, CancelCauseFunc) {
	return context.WithCancelCause(parent)
}

func WithDeadlineCause(parent Context, d time.Time, cause error) (Context, CancelFunc) {
	if v := Virtual; v != nil {
		return v(parent, d)
	}
	return context.WithDeadlineCause(parent, d, cause)
}

func WithTimeoutCause(parent Context, t time.Duration, cause error) (Context, CancelFunc) {
	if v := Virtual; v != nil {
		return v(parent, nowFn().Add(t))
	}
	return context.WithTimeoutCause(parent, t, cause)
}

func WithoutCancel(parent Context) Context { return context.WithoutCancel(parent) }

func AfterFunc(ctx Context, f func()) (stop func() bool) { return context.AfterFunc(ctx, f) }
