// C10: the client handshake sends a compliant request and accepts only a valid 101.
package main

import (
	"bufio"
	"bytes"
	"context"
	"encoding/base64"
	"fmt"
	"io"
	"net"
	"net/http"
	"net/url"
	"strings"
	"sync"
	"time"
	"verifmc/env"

	"github.com/gobwas/ws"
	"github.com/gobwas/ws/wsutil"

	"verifmc/explore"
	"verifmc/hs"
)

var urls = []string{
	"ws://h", "ws://h/", "ws://h:8080/p?q=1", "wss://h", "wss://h:8443/x", "ws://[::1]/", "ws://[::1]:99/a", "ws://h/%20a?b=%2F",
	"wss://[fe80::1]/z", "ws://example.com:80/", "ws://h?x=1",
}

type fakeConn struct {
	net.Conn
	buf bytes.Buffer
}

func (f *fakeConn) Write(p []byte) (int, error)      { return f.buf.Write(p) }
func (f *fakeConn) Read(p []byte) (int, error)       { return 0, fmt.Errorf("peer: no answer") }
func (f *fakeConn) Close() error                     { return nil }
func (f *fakeConn) SetDeadline(time.Time) error      { return nil }
func (f *fakeConn) SetReadDeadline(time.Time) error  { return nil }
func (f *fakeConn) SetWriteDeadline(time.Time) error { return nil }

func main() {
	explore.Main("C10", func(r *explore.Run) {
		var cfgs []hs.DialCfg
		hs.EnumReq(hs.DialFields, 5, func(q hs.Req) { cfgs = append(cfgs, hs.DialCfg(q)) })

		r.Part("E1-request-and-dial-target", func(t *explore.T) {
			seenKeys := map[string]bool{}
			dup := 0
			for _, us := range urls {
				for _, c := range cfgs {
					us, c := us, c
					t.Do(func() string { return fmt.Sprintf("url=%s dialer{%s}", us, c) }, func() *explore.Fail {
						u, err := url.ParseRequestURI(us)
						if err != nil {
							return explore.Failf("harness-url", "%v", err)
						}
						d := c.Dialer()
						var network, addr, tlsHost string
						tlsCalls := 0
						fc := &fakeConn{}
						d.NetDial = func(ctx context.Context, n, a string) (net.Conn, error) {
							network, addr = n, a
							return fc, nil
						}
						d.TLSClient = func(conn net.Conn, hostname string) net.Conn {
							tlsCalls++
							tlsHost = hostname
							return conn
						}
						_, _, _, derr := d.Dial(context.Background(), us)
						if derr == nil {
							return explore.Failf("dial-succeeds-without-response", "")
						}
						// dial target
						host := u.Hostname()
						port := u.Port()
						wantTLS := u.Scheme == "wss"
						if port == "" {
							port = "80"
							if wantTLS {
								port = "443"
							}
						}
						wantAddr := net.JoinHostPort(host, port)
						if network != "tcp" || addr != wantAddr {
							return explore.Failf("dial-target", "dialed (%q,%q) want (tcp,%q)", network, addr, wantAddr)
						}
						if wantTLS != (tlsCalls == 1) {
							return explore.Failf("tls-usage", "scheme %s tls calls %d", u.Scheme, tlsCalls)
						}
						if wantTLS {
							wantHost := u.Host
							if i := strings.LastIndex(wantHost, ":"); i > strings.Index(wantHost, "]") {
								wantHost = wantHost[:i]
							}
							if tlsHost != wantHost {
								return explore.Failf("tls-hostname", "got %q want %q", tlsHost, wantHost)
							}
						}
						// request bytes
						req := fc.buf.Bytes()
						h := hs.ParseHead(req)
						if !h.OK || len(h.Rest) != 0 {
							return explore.Failf("request-malformed", "%q", req)
						}
						if h.Line[0] != "GET" || h.Line[1] != u.RequestURI() || h.Line[2] != "HTTP/1.1" {
							return explore.Failf("request-line", "%q want GET %s HTTP/1.1", h.Line, u.RequestURI())
						}
						hr, err := http.ReadRequest(bufio.NewReader(bytes.NewReader(req)))
						if err != nil {
							return explore.Failf("request-refused-by-net/http", "%v", err)
						}
						wantHostHdr := u.Host
						if c.V("host") != "" {
							wantHostHdr = c.V("host")
						}
						one := func(name, want string, fold bool) *explore.Fail {
							g := h.Get(name)
							if len(g) != 1 {
								return explore.Failf("request-header-count:"+name, "%v", g)
							}
							if g[0] != want && !(fold && strings.EqualFold(g[0], want)) {
								return explore.Failf("request-header-value:"+name, "got %q want %q", g[0], want)
							}
							return nil
						}
						for _, x := range []struct {
							n, w string
							f    bool
						}{{"Host", wantHostHdr, false}, {"Upgrade", "websocket", true}, {"Connection", "Upgrade", true}, {"Sec-WebSocket-Version", "13", false}} {
							if f := one(x.n, x.w, x.f); f != nil {
								return f
							}
						}
						if hr.Host != wantHostHdr {
							return explore.Failf("request-host-net/http", "%q", hr.Host)
						}
						keys := h.Get("Sec-WebSocket-Key")
						if len(keys) != 1 {
							return explore.Failf("request-key-count", "%v", keys)
						}
						raw, err := base64.StdEncoding.DecodeString(keys[0])
						if err != nil || len(raw) != 16 || len(keys[0]) != 24 {
							return explore.Failf("request-key-not-16-bytes", "%q", keys[0])
						}
						if seenKeys[keys[0]] {
							dup++
						}
						seenKeys[keys[0]] = true
						gp := h.Get("Sec-WebSocket-Protocol")
						if ps := c.Protocols(); len(ps) == 0 {
							if len(gp) != 0 {
								return explore.Failf("request-protocol-unexpected", "%v", gp)
							}
						} else if len(gp) != 1 || strings.Join(hs.Tokens(gp[0]), ",") != strings.Join(ps, ",") {
							return explore.Failf("request-protocols", "got %v want %v", gp, ps)
						}
						ge := h.Get("Sec-WebSocket-Extensions")
						if xs := c.ExtNames(); len(xs) == 0 {
							if len(ge) != 0 {
								return explore.Failf("request-extensions-unexpected", "%v", ge)
							}
						} else {
							if len(ge) != 1 || strings.Join(hs.ExtNames(ge[0]), ",") != strings.Join(xs, ",") {
								return explore.Failf("request-extensions", "got %v want %v", ge, xs)
							}
							if c.V("extensions") == "x,y;q=2" && !strings.Contains(strings.ReplaceAll(ge[0], " ", ""), "y;q=2") {
								return explore.Failf("request-extension-params", "%v", ge)
							}
						}
						if c.V("header") == "one" {
							if g := h.Get("X-Client"); len(g) != 1 || g[0] != "verif" {
								return explore.Failf("request-extra-header", "%v", g)
							}
						}
						t.Outcome(u.Scheme)
						return nil
					})
				}
			}
			t.Do(func() string { return "keys of all dials pairwise distinct" }, func() *explore.Fail {
				if dup > 0 {
					return explore.Failf("key-repeated", "%d repeated keys among %d dials", dup, len(seenKeys))
				}
				return nil
			})
		})

		r.Part("E2-response-grammar", func(t *explore.T) {
			k := t.Pick(2, 3)
			t.Bound(k)
			var resps []hs.Resp
			hs.EnumReq(hs.RespFields, k, func(q hs.Req) { resps = append(resps, hs.Resp(q)) })
			var dcs []hs.DialCfg
			hs.EnumReq(hs.DialFields[:3], 3, func(q hs.Req) { dcs = append(dcs, hs.DialCfg(append(q, 0, 0))) })
			u, _ := url.ParseRequestURI("ws://example.com/chat")
			t.Par(len(resps), func(i int) {
				rs := resps[i]
				for _, c := range dcs {
					c := c
					t.Do(func() string { return fmt.Sprintf("response{%s} dialer{%s}", rs, c) }, func() *explore.Fail {
						res := hs.RunDialer(c.Dialer(), c, rs, u, nil)
						sig, detail := hs.JudgeClient(rs, c, res)
						if sig != "" {
							return explore.Failf(sig, "%s", detail)
						}
						t.Outcome(detail)
						return nil
					})
				}
			})
			t.Note(fmt.Sprintf("response grammar of 12 fields, every response with <=%d non-canonical fields (%d) x %d dialer configurations (protocols x extensions x read buffer)", k, len(resps), len(dcs)))
		})

		// A transport error that calls itself temporary after every number of response bytes, the
		// rest arriving afterwards: the dialer gives up with an error, or carries on to exactly
		// the outcome of the undisturbed response - never a success the undisturbed response does
		// not get, never other handshake data.
		r.Part("E3-transient-read-error-at-every-offset", func(t *explore.T) {
			head := "HTTP/1.1 101 Switching Protocols\r\nUpgrade: websocket\r\nConnection: Upgrade\r\n"
			resps := map[string]string{
				"valid":                           head + "Sec-WebSocket-Accept: ACCEPT\r\nSec-WebSocket-Protocol: b\r\n\r\nTAIL",
				"accept only inside another":      head + "X-Note: Sec-WebSocket-Accept: ACCEPT\r\n\r\n",
				"protocol not offered":            head + "Sec-WebSocket-Accept: ACCEPT\r\nSec-WebSocket-Protocol: zzz\r\n\r\n",
				"offered protocol inside another": head + "Sec-WebSocket-Accept: ACCEPT\r\nX-Note: Sec-WebSocket-Protocol: b\r\nSec-WebSocket-Protocol: zzz\r\n\r\n",
				"status 200":                      "HTTP/1.1 200 OK\r\nUpgrade: websocket\r\nConnection: Upgrade\r\nSec-WebSocket-Accept: ACCEPT\r\n\r\n",
			}
			u, _ := url.ParseRequestURI("ws://example.com/chat")
			run := func(resp string, at int, timeout bool, bufSize int) (ok bool, proto, tail string) {
				conn := &hs.LazyConn{}
				conn.Respond = func(req []byte) []byte {
					return []byte(strings.ReplaceAll(resp, "ACCEPT", hs.Accept(hs.KeyOf(req))))
				}
				if at >= 0 {
					conn.HiccupAt, conn.HiccupErr = at, env.TempErr{IsTimeout: timeout}
				}
				d := ws.Dialer{ReadBufferSize: bufSize, Protocols: []string{"a", "b"}}
				br, h, err := d.Upgrade(conn, u)
				if br != nil {
					// drain what follows the head (the application repeats a read that failed temporarily)
					var b []byte
					buf := make([]byte, 64)
					for i := 0; i < 1000; i++ {
						k, e := br.Read(buf)
						b = append(b, buf[:k]...)
						if _, temp := e.(env.TempErr); e != nil && !temp {
							break
						}
					}
					tail = string(b)
					ws.PutReader(br)
				}
				if err == nil {
					// what was not buffered is still on the connection
					buf := make([]byte, 64)
					for i := 0; i < 1000; i++ {
						k, e := conn.Read(buf)
						tail += string(buf[:k])
						if _, temp := e.(env.TempErr); e != nil && !temp {
							break
						}
					}
				}
				return err == nil, h.Protocol, tail
			}
			for name, resp := range resps {
				n := len(strings.ReplaceAll(resp, "ACCEPT", hs.Accept(hs.CanonKey)))
				for _, bufSize := range []int{0, 32} {
					ok0, proto0, tail0 := run(resp, -1, false, bufSize)
					for at := 0; at <= n; at++ {
						for _, timeout := range []bool{false, true} {
							name, resp, at, timeout, bufSize := name, resp, at, timeout, bufSize
							t.Do(func() string {
								return fmt.Sprintf("response %q, read buffer %d, temporary error (timeout=%v) after %d of %d bytes", name, bufSize, timeout, at, n)
							}, func() *explore.Fail {
								ok, proto, tail := run(resp, at, timeout, bufSize)
								if ok && !ok0 {
									return explore.Failf("refused-response-accepted-after-transient-error", "protocol %q", proto)
								}
								if ok && (proto != proto0 || tail != tail0) {
									return explore.Failf("handshake-data-differs-after-transient-error", "protocol %q tail %q; undisturbed %q %q", proto, tail, proto0, tail0)
								}
								if ok {
									t.Outcome("carried-on")
								} else {
									t.Outcome("gave-up")
								}
								return nil
							})
						}
					}
				}
			}
		})
		// A refusal: the status-error callback is handed "the server response bytes" for parsing.
		// Whatever line endings the server uses and however the response arrives, net/http reads from
		// that replay the status, the headers and the body the server sent.
		r.Part("E5-refusals-as-replayed-to-OnStatusError", func(t *explore.T) {
			u, _ := url.ParseRequestURI("ws://example.com/chat")
			for _, status := range []string{"400 Bad Request", "403 Forbidden", "503 Service Unavailable", "200 OK"} {
				for _, nl := range []string{"\r\n", "\n"} {
					for _, body := range []string{"", "not today", strings.Repeat("b", 200)} {
						for _, rb := range []int{0, 64} {
							for _, chunk := range []int{0, 1, 7} {
								status, nl, body, rb, chunk := status, nl, body, rb, chunk
								t.Do(func() string {
									return fmt.Sprintf("response %q line ending %q body of %d bytes, read buffer %d, transport chunk=%d", status, nl, len(body), rb, chunk)
								}, func() *explore.Fail {
									resp := "HTTP/1.1 " + status + nl + "Content-Type: text/plain" + nl + "X-Why: because; of=\"reasons\"" + nl + fmt.Sprintf("Content-Length: %d", len(body)) + nl + nl + body
									conn := &hs.LazyConn{Policy: env.FixedChunk(chunk)}
									conn.Respond = func([]byte) []byte { return []byte(resp) }
									var replay []byte
									called := 0
									d := ws.Dialer{ReadBufferSize: rb, OnStatusError: func(code int, reason []byte, r io.Reader) {
										called++
										replay, _ = io.ReadAll(r)
									}}
									_, _, err := d.Upgrade(conn, u)
									if err == nil {
										return explore.Failf("refusal-accepted", "%q", status)
									}
									if called != 1 {
										return explore.Failf("OnStatusError-calls", "%d", called)
									}
									res, perr := http.ReadResponse(bufio.NewReader(bytes.NewReader(replay)), nil)
									if perr != nil {
										return explore.Failf("replayed-response-not-parseable", "%v: %q", perr, replay)
									}
									got, _ := io.ReadAll(res.Body)
									if res.Status != status || res.Header.Get("X-Why") != "because; of=\"reasons\"" || res.Header.Get("Content-Type") != "text/plain" || string(got) != body {
										return explore.Failf("replayed-response-differs-from-what-the-server-sent", "status %q headers %v body %q\nreplay %q", res.Status, res.Header, got, replay)
									}
									return nil
								})
							}
						}
					}
				}
			}
			t.Outcome("replayed")
		})

		// Every byte the server sends behind the response head stays readable, once and in order,
		// through the returned reader followed by the connection - for every way of dialing the
		// package offers (Upgrade on a connection, Dial, the debugging dialer, the same debugging
		// dialer used for a second connection before the first one's bytes have been read) and for
		// tails shorter and much longer than the read buffer.
		r.Part("E4-post-handshake-bytes-through-every-way-of-dialing", func(t *explore.T) {
			resp := "HTTP/1.1 101 Switching Protocols\r\nUpgrade: websocket\r\nConnection: Upgrade\r\nSec-WebSocket-Accept: ACCEPT\r\n\r\n"
			mkConn := func(tail []byte, chunk int) *lazyNet {
				lc := &hs.LazyConn{Policy: env.FixedChunk(chunk)}
				lc.Respond = func(req []byte) []byte {
					return append([]byte(strings.ReplaceAll(resp, "ACCEPT", hs.Accept(hs.KeyOf(req)))), tail...)
				}
				return &lazyNet{LazyConn: lc}
			}
			mkTail := func(n int, base byte) []byte {
				b := make([]byte, n)
				for i := range b {
					b[i] = base + byte(i%61)
				}
				return b
			}
			drain := func(c net.Conn, br *bufio.Reader) []byte {
				var out []byte
				buf := make([]byte, 100)
				if br != nil {
					for {
						k, e := br.Read(buf)
						out = append(out, buf[:k]...)
						if e != nil {
							break
						}
					}
					return out // the reader was given the connection as its source
				}
				for {
					k, e := c.Read(buf)
					out = append(out, buf[:k]...)
					if e != nil {
						break
					}
				}
				return out
			}
			for _, rb := range []int{0, 16, 64} {
				B := rb
				if B == 0 {
					B = 4096
				}
				for _, n := range []int{0, 1, B - 1, B, B + 1, 3*B + 5, 1<<20 + 100, 3 << 20} {
					for _, chunk := range []int{0, 7} {
						if n > 1<<20 && (chunk != 0 || rb == 16) {
							continue // the megabyte tails: whole reads, two buffer sizes
						}
						for _, way := range []string{"Dialer.Dial", "DebugDialer.Dial", "DebugDialer.Dial-twice"} {
							rb, n, chunk, way := rb, n, chunk, way
							t.Do(func() string {
								return fmt.Sprintf("%s, read buffer %d, %d bytes behind the response head, transport chunk=%d", way, rb, n, chunk)
							}, func() *explore.Fail {
								tails := [][]byte{mkTail(n, 0x21), mkTail(n/2+3, 0xa1)}
								conns := []*lazyNet{mkConn(tails[0], chunk), mkConn(tails[1], chunk)}
								dialed := 0
								d := ws.Dialer{ReadBufferSize: rb, NetDial: func(ctx context.Context, network, addr string) (net.Conn, error) {
									dialed++
									return conns[dialed-1], nil
								}}
								var c1, c2 net.Conn
								var b1, b2 *bufio.Reader
								var err error
								switch way {
								case "Dialer.Dial":
									c1, b1, _, err = d.Dial(context.Background(), "ws://example.com/chat")
								default:
									dd := wsutil.DebugDialer{Dialer: d, OnRequest: func([]byte) {}, OnResponse: func([]byte) {}}
									c1, b1, _, err = dd.Dial(context.Background(), "ws://example.com/chat")
									if err == nil && way == "DebugDialer.Dial-twice" {
										c2, b2, _, err = dd.Dial(context.Background(), "ws://example.com/chat")
									}
								}
								if err != nil {
									return explore.Failf("valid-response-refused:"+way, "%v", err)
								}
								if got := drain(c1, b1); !bytes.Equal(got, tails[0]) {
									return explore.Failf("post-handshake-bytes-differ:"+way, "server sent %d bytes behind the head, reader+connection yield %d:\n got %x..\nwant %x..", n, len(got), got[:min(len(got), 48)], tails[0][:min(len(tails[0]), 48)])
								}
								if c2 != nil {
									if got := drain(c2, b2); !bytes.Equal(got, tails[1]) {
										return explore.Failf("post-handshake-bytes-differ:second-connection", "got %x\nwant %x", got, tails[1])
									}
								}
								return nil
							})
						}
					}
				}
			}
			// The context ends while the last bytes of a valid response head are being delivered (the
			// read in flight still returns them; the dialer's watcher has already put a deadline in
			// the past on the connection by then). Whatever Dial makes of it - refusing with the
			// context's error is fine - a connection it hands back with a nil error still yields
			// every byte the server sent behind the head.
			for _, n := range []int{1, 40} {
				for _, rb := range []int{0, 64} {
					n, rb := n, rb
					t.Do(func() string {
						return fmt.Sprintf("Dialer.Dial, read buffer %d, the context is cancelled while the head's last bytes arrive, %d bytes follow on the connection", rb, n)
					}, func() *explore.Fail {
						tail := mkTail(n, 0x31)
						ctx, cancel := context.WithCancel(context.Background())
						defer cancel()
						dc := &deadlineNet{lazyNet: mkConn(tail, 0), armed: make(chan struct{}, 8)}
						headLen := 0
						dc.LazyConn.Policy = func(max, off int) int {
							// the head in one read, the tail afterwards
							if off < headLen && headLen-off < max {
								return headLen - off
							}
							return max
						}
						inner := dc.LazyConn.Respond
						dc.LazyConn.Respond = func(req []byte) []byte {
							out := inner(req)
							headLen = len(out) - len(tail)
							return out
						}
						dc.onFirstRead = func() {
							cancel()
							// the watcher reacts to the cancellation by moving the deadline into the past
							select {
							case <-dc.armed:
							case <-time.After(10 * time.Second):
								dc.gaveUp = true
							}
						}
						d := ws.Dialer{ReadBufferSize: rb, NetDial: func(context.Context, string, string) (net.Conn, error) { return dc, nil }}
						c, br, _, err := d.Dial(ctx, "ws://example.com/chat")
						if dc.gaveUp {
							t.Outcome("watcher-did-not-react(not judged)")
							return nil
						}
						if err != nil {
							t.Outcome("refused-with:" + err.Error())
							return nil
						}
						if got := drain(c, br); !bytes.Equal(got, tail) {
							return explore.Failf("nil-error-but-connection-unusable", "Dial returned no error after the context had ended; %d bytes follow the head, reader+connection yield %d (deadline on the connection: %v)", n, len(got), dc.deadline)
						}
						t.Outcome("accepted-and-usable")
						return nil
					})
				}
			}
			t.Outcome("readable-once-in-order")
		})
	})
}

// deadlineNet is a connection that honours deadlines: once a deadline lies in the past every
// Read that starts afterwards fails with a timeout. The first Read runs onFirstRead before it
// delivers (a cancellation arriving while that read is in flight).
type deadlineNet struct {
	*lazyNet
	mu          sync.Mutex
	deadline    time.Time
	armed       chan struct{}
	onFirstRead func()
	reads       int
	gaveUp      bool
}

type timeoutErr struct{}

func (timeoutErr) Error() string   { return "i/o timeout" }
func (timeoutErr) Timeout() bool   { return true }
func (timeoutErr) Temporary() bool { return true }

func (d *deadlineNet) SetDeadline(t time.Time) error {
	d.mu.Lock()
	d.deadline = t
	d.mu.Unlock()
	if !t.IsZero() && t.Before(time.Now()) {
		select {
		case d.armed <- struct{}{}:
		default:
		}
	}
	return nil
}
func (d *deadlineNet) SetReadDeadline(t time.Time) error  { return d.SetDeadline(t) }
func (d *deadlineNet) SetWriteDeadline(t time.Time) error { return nil }

func (d *deadlineNet) Read(p []byte) (int, error) {
	d.reads++
	if d.reads == 1 && d.onFirstRead != nil {
		d.onFirstRead()
		return d.lazyNet.Read(p)
	}
	d.mu.Lock()
	dl := d.deadline
	d.mu.Unlock()
	if !dl.IsZero() && dl.Before(time.Now()) {
		return 0, timeoutErr{}
	}
	return d.lazyNet.Read(p)
}

// lazyNet gives hs.LazyConn the net.Conn methods Dial needs.
type lazyNet struct {
	*hs.LazyConn
}

func (l *lazyNet) Close() error                     { return nil }
func (l *lazyNet) LocalAddr() net.Addr              { return &net.TCPAddr{} }
func (l *lazyNet) RemoteAddr() net.Addr             { return &net.TCPAddr{} }
func (l *lazyNet) SetDeadline(time.Time) error      { return nil }
func (l *lazyNet) SetReadDeadline(time.Time) error  { return nil }
func (l *lazyNet) SetWriteDeadline(time.Time) error { return nil }

var _ = ws.StateClientSide

func min(a, b int) int {
	if a < b {
		return a
	}
	return b
}
