// Package refmodel holds the boring reference models, written from the RFC text.
// Nothing here imports gobwas/ws.
package refmodel

import (
	"errors"
	"fmt"
)

// Hdr is an RFC 6455 §5.2 frame header.
type Hdr struct {
	Fin    bool
	Rsv    byte // 3 bits, RSV1 = 4, RSV2 = 2, RSV3 = 1
	Op     byte // 4 bits
	Masked bool
	Mask   [4]byte
	Len    uint64 // < 2^63
}

func (h Hdr) String() string {
	return fmt.Sprintf("fin=%v rsv=%d op=%x masked=%v mask=%x len=%d", h.Fin, h.Rsv, h.Op, h.Masked, h.Mask, h.Len)
}

// HdrEncode emits the §5.2 layout with the minimal length form.
func HdrEncode(h Hdr) []byte {
	var b []byte
	b0 := h.Op & 0x0f
	b0 |= (h.Rsv & 7) << 4
	if h.Fin {
		b0 |= 0x80
	}
	b = append(b, b0)
	var m byte
	if h.Masked {
		m = 0x80
	}
	switch {
	case h.Len <= 125:
		b = append(b, m|byte(h.Len))
	case h.Len <= 0xffff:
		b = append(b, m|126, byte(h.Len>>8), byte(h.Len))
	default:
		b = append(b, m|127)
		for i := 7; i >= 0; i-- {
			b = append(b, byte(h.Len>>(8*uint(i))))
		}
	}
	if h.Masked {
		b = append(b, h.Mask[:]...)
	}
	return b
}

var (
	ErrIncomplete = errors.New("ref: incomplete header")
	ErrMSB        = errors.New("ref: 64-bit length has the top bit set")
)

// HdrDecode parses a header from the front of b. It returns the header, the number of bytes
// it occupies, whether the length used a non-minimal form, and ErrIncomplete / ErrMSB.
func HdrDecode(b []byte) (h Hdr, n int, nonMinimal bool, err error) {
	if len(b) < 2 {
		return h, 0, false, ErrIncomplete
	}
	h.Fin = b[0]&0x80 != 0
	h.Rsv = (b[0] >> 4) & 7
	h.Op = b[0] & 0x0f
	h.Masked = b[1]&0x80 != 0
	l7 := b[1] & 0x7f
	n = 2
	switch {
	case l7 < 126:
		h.Len = uint64(l7)
	case l7 == 126:
		if len(b) < n+2 {
			return h, 0, false, ErrIncomplete
		}
		h.Len = uint64(b[2])<<8 | uint64(b[3])
		n += 2
		nonMinimal = h.Len <= 125
	default:
		if len(b) < n+8 {
			return h, 0, false, ErrIncomplete
		}
		for i := 0; i < 8; i++ {
			h.Len = h.Len<<8 | uint64(b[2+i])
		}
		n += 8
		nonMinimal = h.Len <= 0xffff
	}
	if h.Masked {
		if len(b) < n+4 {
			return h, 0, false, ErrIncomplete
		}
		copy(h.Mask[:], b[n:n+4])
		n += 4
	}
	// The MSB rule is judged once the whole header is present.
	if l7 == 127 && h.Len>>63 != 0 {
		return h, n, nonMinimal, ErrMSB
	}
	return h, n, nonMinimal, nil
}

// HdrNeed reports how many header bytes a header starting with b (len>=2) occupies.
func HdrNeed(b0, b1 byte) int {
	n := 2
	switch b1 & 0x7f {
	case 126:
		n += 2
	case 127:
		n += 8
	}
	if b1&0x80 != 0 {
		n += 4
	}
	return n
}

// Endpoint state bits of the receiving endpoint (mirrors the property text, not ws.State).
type St struct {
	Server     bool // receiving endpoint is a server: frames must be masked
	Client     bool // receiving endpoint is a client: frames must not be masked
	Extended   bool
	Fragmented bool
}

// Rule names.
const (
	RuleReservedOp       = "reserved-opcode"
	RuleControlTooLong   = "control-too-long"
	RuleControlNotFinal  = "control-not-final"
	RuleRsv              = "nonzero-rsv"
	RuleMaskRequired     = "mask-required"
	RuleMaskUnexpected   = "mask-unexpected"
	RuleContinuationExp  = "continuation-expected"
	RuleContinuationUnex = "continuation-unexpected"
)

func IsControl(op byte) bool  { return op&8 != 0 }
func IsReserved(op byte) bool { return (op >= 3 && op <= 7) || (op >= 0xb && op <= 0xf) }

// CheckRules returns the set of §5 framing rules the header breaks in state s.
func CheckRules(h Hdr, s St) map[string]bool {
	out := map[string]bool{}
	if IsReserved(h.Op) {
		out[RuleReservedOp] = true
	}
	if IsControl(h.Op) {
		if h.Len > 125 {
			out[RuleControlTooLong] = true
		}
		if !h.Fin {
			out[RuleControlNotFinal] = true
		}
	}
	if h.Rsv != 0 && !s.Extended {
		out[RuleRsv] = true
	}
	if s.Server && !h.Masked {
		out[RuleMaskRequired] = true
	}
	if s.Client && h.Masked {
		out[RuleMaskUnexpected] = true
	}
	if s.Fragmented && !IsControl(h.Op) && h.Op != 0 {
		out[RuleContinuationExp] = true
	}
	if !s.Fragmented && h.Op == 0 {
		out[RuleContinuationUnex] = true
	}
	return out
}

// CloseCodeOK: codes the close-payload check must accept / must refuse / leaves open.
// returns +1 must accept, -1 must refuse, 0 open.
func CloseCodeClass(code uint16) int {
	switch {
	case code >= 1000 && code <= 1003, code >= 1007 && code <= 1011, code >= 3000 && code <= 4999:
		return +1
	case code >= 1012 && code <= 1014:
		return 0
	case code >= 5000:
		return 0
	default:
		return -1
	}
}

// XOR is the §5.3 masking transform with unbounded offset arithmetic (offset given mod 4).
func XOR(p []byte, key [4]byte, offMod4 int) []byte {
	out := make([]byte, len(p))
	for i := range p {
		out[i] = p[i] ^ key[(offMod4+i)%4]
	}
	return out
}

// Frame is a wire frame for the generators.
type Frame struct {
	H       Hdr
	Payload []byte // unmasked application payload
}

// Wire renders the frame (masking the payload when H.Masked).
func (f Frame) Wire() []byte {
	h := f.H
	h.Len = uint64(len(f.Payload))
	b := HdrEncode(h)
	if h.Masked {
		b = append(b, XOR(f.Payload, h.Mask, 0)...)
	} else {
		b = append(b, f.Payload...)
	}
	return b
}

// Event is what a message reader must deliver.
type Event struct {
	Kind    string // "msg" or "ctl"
	Op      byte
	Payload []byte
}

func (e Event) String() string { return fmt.Sprintf("%s(op=%x,%x)", e.Kind, e.Op, e.Payload) }

// Messages walks a valid frame list and yields events in stream order: a control event at
// the position of each control frame, a message event at the position of its final frame.
// open reports whether a fragmented message is still open at the end.
func Messages(frames []Frame) (ev []Event, open bool) {
	var cur []byte
	var op byte
	for _, f := range frames {
		switch {
		case IsControl(f.H.Op):
			ev = append(ev, Event{"ctl", f.H.Op, append([]byte{}, f.Payload...)})
		case f.H.Op != 0:
			op = f.H.Op
			cur = append([]byte{}, f.Payload...)
			open = !f.H.Fin
			if f.H.Fin {
				ev = append(ev, Event{"msg", op, cur})
				cur = nil
			}
		default:
			cur = append(cur, f.Payload...)
			open = !f.H.Fin
			if f.H.Fin {
				ev = append(ev, Event{"msg", op, cur})
				cur = nil
			}
		}
	}
	return ev, open
}
