package main

import (
	"bytes"
	"compress/flate"
	"io"
	"strings"

	"github.com/gobwas/ws/wsflate"
)

func newFlate(r io.Reader) io.Reader { return flate.NewReader(r) }

func deflateSeeds() [][]byte {
	var out [][]byte
	for _, s := range []string{"hello", strings.Repeat("ab", 300), "", "\x00\x01\x02\xfd\xfe\xff and some text to make it longer", strings.Repeat("xyzxyz", 50) + "tail"} {
		for _, lv := range []int{1, 9} {
			var b bytes.Buffer
			w := wsflate.NewWriter(&b, func(w io.Writer) wsflate.Compressor { f, _ := flate.NewWriter(w, lv); return f })
			w.Write([]byte(s))
			w.Flush()
			out = append(out, append([]byte{}, b.Bytes()...))
			if len(out) >= 6 {
				return out
			}
		}
	}
	return out
}
