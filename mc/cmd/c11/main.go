// C11: handshake outcome is shared by both peers and independent of transport chunking;
// the debug wrappers report exactly what was exchanged.
package main

import (
	"bufio"
	"bytes"
	"context"
	"fmt"
	"io"
	"net"
	"net/url"
	"sort"
	"strings"
	"time"

	"github.com/gobwas/httphead"
	"github.com/gobwas/ws"
	"github.com/gobwas/ws/wsflate"
	"github.com/gobwas/ws/wsutil"

	"verifmc/env"
	"verifmc/explore"
	"verifmc/hs"
)

// ---- configurations ----------------------------------------------------------------

type pair struct {
	cProto  []string
	sProto  string // nil, a, b, all
	cExt    string // none, pmd, pmd-cmwb, pmd-smwb10+pmd, x
	sExt    string // none, flate0, flate1, flate2, accept-all
	cHeader string // none, short, long
	sHeader string
	cBuf    int
	sBuf    int
}

func (p pair) String() string {
	return fmt.Sprintf("client{protocols=%v ext=%s header=%s buf=%d} server{proto=%s ext=%s header=%s buf=%d}",
		p.cProto, p.cExt, p.cHeader, p.cBuf, p.sProto, p.sExt, p.sHeader, p.sBuf)
}

func longHeader(name string) string {
	return name + ": " + strings.Repeat("v", 150) + "\r\n"
}

func clientExt(kind string) []httphead.Option {
	pmd := func(params map[string]string) httphead.Option {
		return httphead.NewOption("permessage-deflate", params)
	}
	switch kind {
	case "pmd":
		return []httphead.Option{pmd(nil)}
	case "pmd-cmwb":
		return []httphead.Option{pmd(map[string]string{"client_max_window_bits": ""})}
	case "pmd-smwb10+pmd":
		return []httphead.Option{pmd(map[string]string{"server_max_window_bits": "10"}), pmd(nil)}
	case "x":
		return []httphead.Option{httphead.NewOption("x", map[string]string{"k": "v"})}
	}
	return nil
}

func (p pair) dialer() ws.Dialer {
	d := ws.Dialer{Protocols: p.cProto, Extensions: clientExt(p.cExt), ReadBufferSize: p.cBuf, WriteBufferSize: p.cBuf}
	switch p.cHeader {
	case "short":
		d.Header = ws.HandshakeHeaderString("X-C: 1\r\n")
	case "long":
		d.Header = ws.HandshakeHeaderString(longHeader("X-C"))
	case "many":
		d.Header = ws.HandshakeHeaderString(manyHeaders("X-C"))
	}
	return d
}

func (p pair) upgrader() ws.Upgrader {
	u := ws.Upgrader{ReadBufferSize: p.sBuf, WriteBufferSize: p.sBuf}
	switch p.sProto {
	case "a", "b":
		want := p.sProto
		u.Protocol = func(b []byte) bool { return string(b) == want }
	case "all":
		u.Protocol = func(b []byte) bool { return true }
	}
	switch p.sExt {
	case "flate0":
		e := &wsflate.Extension{}
		u.Negotiate = e.Negotiate
	case "flate1":
		e := &wsflate.Extension{Parameters: wsflate.Parameters{ServerNoContextTakeover: true, ClientNoContextTakeover: true}}
		u.Negotiate = e.Negotiate
	case "flate2":
		e := &wsflate.Extension{Parameters: wsflate.Parameters{ServerMaxWindowBits: 10, ClientMaxWindowBits: 0}}
		u.Negotiate = e.Negotiate
	case "accept-all":
		u.Extension = func(httphead.Option) bool { return true }
	}
	switch p.sHeader {
	case "short":
		u.Header = ws.HandshakeHeaderString("X-S: 1\r\n")
	case "long":
		u.Header = ws.HandshakeHeaderString(longHeader("X-S"))
	case "many":
		u.Header = ws.HandshakeHeaderString(manyHeaders("X-S"))
	}
	return u
}

// manyHeaders: 300 short header lines (cookies, tracing, feature flags add up).
func manyHeaders(prefix string) string {
	var b strings.Builder
	for i := 0; i < 300; i++ {
		fmt.Fprintf(&b, "%s-%03d: v%d\r\n", prefix, i, i)
	}
	return b.String()
}

func normExt(xs []httphead.Option) string {
	var out []string
	for _, o := range xs {
		var ps []string
		o.Parameters.ForEach(func(k, v []byte) bool {
			ps = append(ps, string(k)+"="+string(v))
			return true
		})
		sort.Strings(ps)
		out = append(out, string(o.Name)+"{"+strings.Join(ps, ";")+"}")
	}
	return strings.Join(out, ",")
}

var theURL, _ = url.ParseRequestURI("ws://example.com/chat?x=1")

// twoPeers runs the dialer against the upgrader over a lazy duplex.
func twoPeers(p pair, cpol, spol func(max, off int) int) (cHs, sHs ws.Handshake, cErr, sErr error, req, resp []byte) {
	conn := &hs.LazyConn{Policy: cpol}
	conn.Respond = func(r []byte) []byte {
		req = append([]byte{}, r...)
		src := env.NewSrc(req)
		src.Policy = spol
		var out bytes.Buffer
		sHs, sErr = p.upgrader().Upgrade(struct {
			io.Reader
			io.Writer
		}{src, &out})
		resp = out.Bytes()
		return resp
	}
	var br *bufio.Reader
	br, cHs, cErr = p.dialer().Upgrade(conn, theURL)
	if br != nil {
		ws.PutReader(br)
	}
	return
}

// bufKey is the state key of a pending bufio refill: (stream offset, size of the read). The
// read slice is buf[w:B] after bufio slid the unconsumed bytes to the front, so B-len(p) is
// the number of buffered unconsumed bytes and offset-(B-len(p)) the consumed prefix; with
// input and configuration fixed, the handshake parser's state is a function of the
// consumed prefix. (The buffer contents are not hashed: the Sec-WebSocket-Key is random
// per execution, so no two executions would ever share a key; the key-free part E2b does
// not rely on this argument.)
func bufKey(p []byte, B int, off int) string {
	return fmt.Sprintf("d=%d,len=%d", off, len(p))
}

func realBuf(n int) int {
	if n == 0 {
		return 4096
	}
	if n < 16 {
		return 16
	}
	return n
}

// ---- net.Conn adapter for DebugDialer --------------------------------------------

type lazyNetConn struct {
	*hs.LazyConn
	closed bool
}

func (l *lazyNetConn) Close() error                     { l.closed = true; return nil }
func (l *lazyNetConn) LocalAddr() net.Addr              { return &net.TCPAddr{} }
func (l *lazyNetConn) RemoteAddr() net.Addr             { return &net.TCPAddr{} }
func (l *lazyNetConn) SetDeadline(time.Time) error      { return nil }
func (l *lazyNetConn) SetReadDeadline(time.Time) error  { return nil }
func (l *lazyNetConn) SetWriteDeadline(time.Time) error { return nil }

func main() {
	explore.Main("C11", func(r *explore.Run) {
		var pairs []pair
		for _, cp := range [][]string{nil, {"a"}, {"a", "b"}, {"b", "a"}, {"A", "a"}} { // the last: two names that differ only in case
			for _, sp := range []string{"nil", "a", "b", "all"} {
				for _, ce := range []string{"none", "pmd", "pmd-cmwb", "pmd-smwb10+pmd", "x"} {
					for _, se := range []string{"none", "flate0", "flate1", "flate2", "accept-all"} {
						for _, ch := range []string{"none", "short", "long", "many"} {
							for _, sh := range []string{"none", "short", "long", "many"} {
								if (ch == "many" || sh == "many") && (ce != "none" && ce != "pmd" || se == "flate2" || se == "accept-all") {
									continue // the many-lines headers on a slice of the extension grid
								}
								for _, cb := range []int{0, 16, 64} {
									for _, sb := range []int{0, 16, 64} {
										pairs = append(pairs, pair{cp, sp, ce, se, ch, sh, cb, sb})
									}
								}
							}
						}
					}
				}
			}
		}
		r.Part("E1-two-peers-grid", func(t *explore.T) {
			t.Par(len(pairs), func(i int) {
				p := pairs[i]
				t.Do(func() string { return p.String() }, func() *explore.Fail {
					cHs, sHs, cErr, sErr, _, resp := twoPeers(p, nil, nil)
					if (cErr == nil) != (sErr == nil) {
						return explore.Failf("one-side-succeeds", "client err=%v server err=%v\nresponse %q", cErr, sErr, resp)
					}
					if cErr != nil {
						t.Outcome("both-fail")
						return nil
					}
					if cHs.Protocol != sHs.Protocol {
						return explore.Failf("protocol-differs", "client %q server %q", cHs.Protocol, sHs.Protocol)
					}
					if normExt(cHs.Extensions) != normExt(sHs.Extensions) {
						return explore.Failf("extensions-differ", "client %s server %s", normExt(cHs.Extensions), normExt(sHs.Extensions))
					}
					t.Outcome("both-ok:proto=" + cHs.Protocol + ":ext=" + normExt(cHs.Extensions))
					return nil
				})
			})
		})

		// One Dialer value (an application's configured dialer) serves a second connection: the
		// request it writes and everything both sides report are the same as for the first.
		r.Part("E1b-one-dialer-value-two-connections", func(t *explore.T) {
			t.Par(len(pairs), func(i int) {
				p := pairs[i]
				if p.cExt == "none" && len(p.cProto) == 0 {
					return
				}
				t.Do(func() string { return "dialer used twice: " + p.String() }, func() *explore.Fail {
					d := p.dialer()
					type outcome struct {
						req, resp  string
						cErr, sErr string
						proto, ext string
					}
					var outs []outcome
					for k := 0; k < 2; k++ {
						var o outcome
						var sHs ws.Handshake
						var sErr error
						conn := &hs.LazyConn{}
						conn.Respond = func(r []byte) []byte {
							o.req = string(blankKey(append([]byte{}, r...)))
							var out bytes.Buffer
							sHs, sErr = p.upgrader().Upgrade(struct {
								io.Reader
								io.Writer
							}{bytes.NewReader(r), &out})
							o.resp = string(blankAccept(append([]byte{}, out.Bytes()...)))
							return out.Bytes()
						}
						br, cHs, cErr := d.Upgrade(conn, theURL)
						if br != nil {
							ws.PutReader(br)
						}
						o.cErr, o.sErr = fmt.Sprint(cErr), fmt.Sprint(sErr)
						o.proto = cHs.Protocol + "/" + sHs.Protocol
						o.ext = normExt(cHs.Extensions) + "/" + normExt(sHs.Extensions)
						outs = append(outs, o)
					}
					if outs[0] != outs[1] {
						return explore.Failf("second-connection-of-the-same-dialer-differs", "first:  %+v\nsecond: %+v", outs[0], outs[1])
					}
					return nil
				})
			})
			t.Outcome("same")
		})

		// E2: every split of the incoming bytes into reads, server and client side.
		r.Part("E2-all-chunkings-state-keyed", func(t *explore.T) {
			bufs := []int{16, 32}
			if t.Thorough() {
				bufs = []int{16, 32, 64}
			}
			type scen struct {
				p    pair
				side string
			}
			var scens []scen
			for _, B := range bufs {
				for _, hdr := range []string{"none", "short", "long"} {
					for _, ext := range []string{"none", "pmd-cmwb"} {
						base := pair{cProto: []string{"a", "b"}, sProto: "b", cExt: ext, sExt: "flate1", cHeader: hdr, sHeader: hdr}
						ps := base
						ps.sBuf = B
						scens = append(scens, scen{ps, "server"})
						pc := base
						pc.cBuf = B
						scens = append(scens, scen{pc, "client"})
					}
				}
			}
			// header lines of length B-2..B+1, 2B, 2B+1 relative to the reader's buffer
			for _, B := range bufs {
				for _, ll := range []int{B - 2, B - 1, B, B + 1, 2 * B, 2*B + 1} {
					n := ll - len("X-L: ") - 2
					if n < 0 {
						n = 0
					}
					hv := ws.HandshakeHeaderString("X-L: " + strings.Repeat("z", n) + "\r\n")
					_ = hv
					ps := pair{cProto: []string{"a"}, sProto: "a", cHeader: fmt.Sprintf("len%d", n), sBuf: B}
					scens = append(scens, scen{ps, "server"})
					pc := pair{cProto: []string{"a"}, sProto: "a", sHeader: fmt.Sprintf("len%d", n), cBuf: B}
					scens = append(scens, scen{pc, "client"})
				}
			}
			t.Par(len(scens), func(i int) {
				sc := scens[i]
				p := sc.p
				// reference run: deliver everything
				run := func(cpol, spol func(max, off int) int, con, son func(p []byte, off int)) string {
					cHs, sHs, cErr, sErr, req, resp := twoPeersX(p, cpol, spol, con, son)
					return fmt.Sprintf("cErr=%v sErr=%v cHs=%s/%s sHs=%s/%s req=%x resp=%x", cErr, sErr, cHs.Protocol, normExt(cHs.Extensions), sHs.Protocol, normExt(sHs.Extensions), req, resp)
				}
				ref := run(nil, nil, nil, nil)
				B := realBuf(p.sBuf)
				if sc.side == "client" {
					B = realBuf(p.cBuf)
				}
				t.Explore(fmt.Sprintf("%s-side reads chunked; %s", sc.side, p), explore.ExploreOpts{Bound: -1, UseKeys: true}, func(c *explore.Chooser) *explore.Fail {
					pol := func(max, off int) int {
						if max == 1 {
							return 1
						}
						v := c.Choose(max, 1, "rd")
						if v == 0 {
							return max
						}
						return v
					}
					var got string
					onread := func(p []byte, off int) { c.Key(bufKey(p, B, off)) }
					if sc.side == "server" {
						got = run(nil, pol, nil, onread)
					} else {
						got = run(pol, nil, onread, nil)
					}
					if got != ref {
						return explore.Failf("outcome-depends-on-chunking:"+sc.side, "chunked: %s\nwhole:   %s", got, ref)
					}
					return nil
				})
			})
			t.Outcome("same-as-unchunked")
			t.Note("state key = (bytes delivered, size of the pending read); every split of the incoming bytes into reads")
			// E2b: no state keys, every placement of up to `bound` short reads of any size
			bound := t.Pick(1, 2)
			t.Bound(bound)
			t.Par(len(scens), func(i int) {
				sc := scens[i]
				p := sc.p
				run := func(cpol, spol func(max, off int) int) string {
					cHs, sHs, cErr, sErr, req, resp := twoPeersX(p, cpol, spol, nil, nil)
					return fmt.Sprintf("cErr=%v sErr=%v cHs=%s/%s sHs=%s/%s req=%x resp=%x", cErr, sErr, cHs.Protocol, normExt(cHs.Extensions), sHs.Protocol, normExt(sHs.Extensions), req, resp)
				}
				ref := run(nil, nil)
				t.Explore(fmt.Sprintf("keyless %s-side reads chunked; %s", sc.side, p), explore.ExploreOpts{Bound: bound}, func(c *explore.Chooser) *explore.Fail {
					pol := env.ChooserPolicy(c)
					var got string
					if sc.side == "server" {
						got = run(nil, pol)
					} else {
						got = run(pol, nil)
					}
					if got != ref {
						return explore.Failf("outcome-depends-on-chunking:"+sc.side, "chunked: %s\nwhole:   %s", got, ref)
					}
					return nil
				})
			})
		})

		// Header lines far longer than any buffer, up to several MiB: one peer at a time, the
		// same bytes under every read buffer size must give the same outcome and the same data
		// (a length limit, if any, may not depend on how the line was cut into buffer fills).
		r.Part("E2c-very-long-lines-buffer-independence", func(t *explore.T) {
			lens := []int{100, 4095, 4096, 4097, 65535, 65536, 65537, 1<<20 - 1, 1 << 20, 1<<20 + 1, 1<<20 + 30000, 1<<21 + 5, 1<<22 + 1}
			bufs := []int{0, 16, 512, 4096, 65536, 1 << 21}
			for _, L := range lens {
				for _, side := range []string{"upgrader", "dialer"} {
					L, side := L, side
					t.DoN(int64(len(bufs)), func() string {
						return fmt.Sprintf("%s reads a header line of %d bytes under read buffers %v", side, L, bufs)
					}, func() *explore.Fail {
						line := "X-Long: " + strings.Repeat("v", L-10) + "\r\n"
						var first string
						for _, B := range bufs {
							var obs string
							if side == "upgrader" {
								req := "GET /chat HTTP/1.1\r\nHost: example.com\r\nUpgrade: websocket\r\nConnection: Upgrade\r\n" + line +
									"Sec-WebSocket-Key: " + hs.CanonKey + "\r\nSec-WebSocket-Version: 13\r\nSec-WebSocket-Protocol: a\r\n\r\n"
								u := ws.Upgrader{ReadBufferSize: B, Protocol: func(b []byte) bool { return true }}
								var out bytes.Buffer
								h, err := u.Upgrade(struct {
									io.Reader
									io.Writer
								}{strings.NewReader(req), &out})
								obs = fmt.Sprintf("ok=%v proto=%q wrote=%q", err == nil, h.Protocol, out.String())
							} else {
								conn := &hs.LazyConn{}
								conn.Respond = func(req []byte) []byte {
									return []byte("HTTP/1.1 101 Switching Protocols\r\nUpgrade: websocket\r\n" + line + "Connection: Upgrade\r\nSec-WebSocket-Accept: " +
										hs.Accept(hs.KeyOf(req)) + "\r\nSec-WebSocket-Protocol: a\r\n\r\nTAIL")
								}
								d := ws.Dialer{ReadBufferSize: B, Protocols: []string{"a"}}
								br, h, err := d.Upgrade(conn, theURL)
								tail := ""
								if br != nil {
									b, _ := io.ReadAll(br)
									tail = string(b)
									ws.PutReader(br)
								}
								obs = fmt.Sprintf("ok=%v proto=%q tail=%q", err == nil, h.Protocol, tail)
							}
							if first == "" {
								first = obs
							} else if obs != first {
								return explore.Failf("outcome-depends-on-read-buffer-size:"+side, "line of %d bytes: buffer %d gives %s, buffer %d gives %s", L, bufs[0], first, B, obs)
							}
						}
						t.Outcome(first[:8])
						return nil
					})
				}
			}
		})

		// A refusal replayed to Dialer.OnStatusError: the callback is handed "the server response
		// bytes"; what it reads - status, reason and the bytes - is the response the server sent,
		// whatever the read buffer size (status lines shorter than, as long as, and much longer than
		// the buffer) and however the transport cuts the response.
		r.Part("E2e-refusal-replay-independent-of-buffer-and-chunking", func(t *explore.T) {
			bufs := []int{0, 16, 17, 18, 19, 20, 21, 22, 23, 24, 25, 32, 64, 512, 4096}
			for _, reasonLen := range []int{0, 2, 9, 50, 5000} {
				for _, nl := range []string{"\r\n", "\n"} {
					for _, body := range []string{"", "denied", strings.Repeat("b", 300)} {
						reasonLen, nl, body := reasonLen, nl, body
						t.DoN(int64(len(bufs)*3), func() string {
							return fmt.Sprintf("403 with a reason phrase of %d bytes, line ending %q, body of %d bytes, read buffers %v x transport chunks 0/1/7", reasonLen, nl, len(body), bufs)
						}, func() *explore.Fail {
							reason := strings.Repeat("Forbidden", reasonLen/9+1)[:reasonLen]
							resp := "HTTP/1.1 403 " + reason + nl + "Content-Type: text/plain" + nl + fmt.Sprintf("Content-Length: %d", len(body)) + nl + nl + body
							for _, B := range bufs {
								for _, chunk := range []int{0, 1, 7} {
									conn := &hs.LazyConn{Policy: env.FixedChunk(chunk)}
									conn.Respond = func([]byte) []byte { return []byte(resp) }
									var replay []byte
									var gotReason string
									gotCode, called := 0, 0
									d := ws.Dialer{ReadBufferSize: B, OnStatusError: func(code int, rs []byte, r io.Reader) {
										called++
										gotCode, gotReason = code, string(rs)
										replay, _ = io.ReadAll(r)
									}}
									_, _, err := d.Upgrade(conn, theURL)
									if err == nil || called != 1 {
										return explore.Failf("refusal-not-reported-once", "buffer %d chunk %d: err=%v callback calls=%d", B, chunk, err, called)
									}
									if gotCode != 403 || gotReason != reason {
										return explore.Failf("refusal-status-or-reason-differs", "buffer %d chunk %d: code=%d reason=%q", B, chunk, gotCode, gotReason)
									}
									// the line ending of the status line is normalised to CRLF by the replay
									want := "HTTP/1.1 403 " + reason + "\r\n" + resp[len("HTTP/1.1 403 "+reason+nl):]
									if string(replay) != want {
										k := 0
										for k < len(replay) && k < len(want) && replay[k] == want[k] {
											k++
										}
										return explore.Failf("replayed-refusal-differs-from-the-response-sent", "buffer %d chunk %d: %d bytes replayed, %d sent, first difference at %d", B, chunk, len(replay), len(want), k)
									}
								}
							}
							return nil
						})
					}
				}
			}
			t.Outcome("replayed-as-sent")
		})

		// net/http flavour: the request (possibly with bytes behind it that the client sent
		// early) is parsed by net/http's buffered reader, which Hijack hands to the upgrader with
		// whatever it happened to buffer. The same bytes cut into reads differently give the same
		// outcome, the same response and the same bytes left to read.
		r.Part("E2d-HTTPUpgrader-read-coalescing", func(t *explore.T) {
			reqs := []string{
				"GET /chat HTTP/1.1\r\nHost: example.com\r\nUpgrade: websocket\r\nConnection: Upgrade\r\nSec-WebSocket-Key: " + hs.CanonKey + "\r\nSec-WebSocket-Version: 13\r\n\r\n",
				"GET /chat HTTP/1.1\r\nHost: example.com\r\nUpgrade: websocket\r\nConnection: Upgrade\r\nSec-WebSocket-Key: " + hs.CanonKey + "\r\nSec-WebSocket-Version: 13\r\nSec-WebSocket-Protocol: a, b\r\nSec-WebSocket-Extensions: permessage-deflate\r\n\r\n",
				"GET /chat HTTP/1.1\r\nHost: example.com\r\nUpgrade: websocket\r\nConnection: Upgrade\r\nSec-WebSocket-Version: 13\r\n\r\n",
			}
			trailers := []string{"", "\x81", "\x81\x85\x01\x02\x03\x04hello", strings.Repeat("z", 5000)}
			for ri, req := range reqs {
				for ti, tr := range trailers {
					ri, ti, req, tr := ri, ti, req, tr
					t.Do(func() string {
						return fmt.Sprintf("request #%d followed by %d early byte(s), 6 ways of cutting the stream into reads", ri, len(tr))
					}, func() *explore.Fail {
						data := []byte(req + tr)
						first := ""
						for _, chunk := range []int{0, 1, 7, len(req), len(req) + 1, len(req) - 1} {
							src := env.NewSrc(data)
							src.Policy = env.FixedChunk(chunk)
							e := &wsflate.Extension{}
							u := ws.HTTPUpgrader{Protocol: func(s string) bool { return s == "b" }, Negotiate: e.Negotiate}
							out, h, err, rest, skipped := hs.RunHTTPUpgraderStream(u, src)
							obs := fmt.Sprintf("skipped=%v ok=%v proto=%q ext=%s wrote=%q rest=%d bytes", skipped, err == nil, h.Protocol, normExt(h.Extensions), blankAccept(out), len(rest))
							if err == nil && string(rest) != tr {
								return explore.Failf("early-bytes-lost-or-changed:HTTPUpgrader", "chunk=%d: %d bytes readable after the handshake, %d were sent", chunk, len(rest), len(tr))
							}
							if first == "" {
								first = obs
							} else if obs != first {
								return explore.Failf("outcome-depends-on-read-coalescing:HTTPUpgrader", "all at once: %s\nchunk=%d:     %s", first, chunk, obs)
							}
						}
						_ = ti
						t.Outcome(first[:24])
						return nil
					})
				}
			}
		})

		r.Part("E3-debug-wrappers", func(t *explore.T) {
			type dcase struct {
				p        pair
				trailing int
				chunk    int
				onReq    bool
				onResp   bool
				wrap     bool // Dialer.WrapConn set: a wrapper that transforms the byte stream
				tls      bool // wss URL with a TLSClient layer (a byte transformation that does not commute with the wrapper's)
			}
			var cases []dcase
			for _, cb := range []int{16, 64, 0} {
				B := realBuf(cb)
				for _, tr := range []int{0, 1, 5, 15, B - 1, B, B + 1} {
					for _, ch := range []int{0, 1, 7} {
						for _, cfg := range []pair{
							{cProto: []string{"a", "b"}, sProto: "b", cExt: "pmd-cmwb", sExt: "flate1", cBuf: cb},
							{cProto: []string{"a"}, sProto: "a", cBuf: cb, sHeader: "short"},
							{cProto: []string{"a"}, sProto: "a", cBuf: cb, sHeader: "pad"},
							{cBuf: cb, sProto: "fail"},
							// responses that never complete: nothing at all, a head cut short, a body
							// shorter than announced
							{cBuf: cb, sProto: "fail-no-response"},
							{cBuf: cb, sProto: "fail-head-cut"},
							{cBuf: cb, sProto: "fail-body-short"},
							// a refusal whose body is delimited by closing the connection (no Content-Length)
							{cBuf: cb, sProto: "fail-body-until-close"},
						} {
							if strings.HasPrefix(cfg.sProto, "fail-") && tr != 0 {
								continue
							}
							for _, cbs := range [][2]bool{{true, true}, {true, false}, {false, true}} {
								cases = append(cases, dcase{cfg, tr, ch, cbs[0], cbs[1], false, false})
								if ch != 1 {
									cases = append(cases, dcase{cfg, tr, ch, cbs[0], cbs[1], true, false})
								}
								if ch == 0 && !strings.HasPrefix(cfg.sProto, "fail-") {
									cases = append(cases, dcase{cfg, tr, ch, cbs[0], cbs[1], false, true}, dcase{cfg, tr, ch, cbs[0], cbs[1], true, true})
								}
							}
						}
					}
				}
			}
			t.Par(len(cases), func(i int) {
				dc := cases[i]
				t.Do(func() string {
					return fmt.Sprintf("DebugDialer %s trailing=%d chunk=%d onRequest=%v onResponse=%v wrapConn=%v wss-with-TLSClient=%v", dc.p, dc.trailing, dc.chunk, dc.onReq, dc.onResp, dc.wrap, dc.tls)
				}, func() *explore.Fail {
					trailing := make([]byte, dc.trailing)
					for j := range trailing {
						trailing[j] = byte(0x90 + j%50)
					}
					mk := func() (*lazyNetConn, *[]byte, *[]byte) {
						var req, resp []byte
						lc := &hs.LazyConn{Policy: env.FixedChunk(dc.chunk)}
						lc.Respond = func(rq []byte) []byte {
							if dc.tls {
								rq = rotBytes(rq, 255) // the TLS layer is the one next to the wire
							}
							if dc.wrap {
								rq = xorBytes(rq) // the wire carries what the user's wrapper made of it
							}
							req = append([]byte{}, rq...)
							var out bytes.Buffer
							if dc.p.sProto == "fail" {
								body := "nope"
								fmt.Fprintf(&out, "HTTP/1.1 400 Bad Request\r\nContent-Length: %d\r\n\r\n%s", len(body), body)
							} else if dc.p.sProto == "fail-no-response" {
							} else if dc.p.sProto == "fail-head-cut" {
								out.WriteString("HTTP/1.1 101 Switching Protocols\r\nUpgrade: webso")
							} else if dc.p.sProto == "fail-body-until-close" {
								out.WriteString("HTTP/1.1 403 Forbidden\r\nX-Why: policy\r\n\r\nnot for you, sorry")
							} else if dc.p.sProto == "fail-body-short" {
								out.WriteString("HTTP/1.1 400 Bad Request\r\nContent-Length: 10\r\n\r\nnope")
							} else {
								u := dc.p.upgrader()
								if dc.p.sHeader == "pad" {
									// pad the response head to a multiple of the client's read buffer
									B := realBuf(dc.p.cBuf)
									var probe bytes.Buffer
									u.Upgrade(struct {
										io.Reader
										io.Writer
									}{bytes.NewReader(rq), &probe})
									padN := (B - (probe.Len()+len("X-P: \r\n"))%B) % B
									u.Header = ws.HandshakeHeaderString("X-P: " + strings.Repeat("p", padN) + "\r\n")
								}
								u.Upgrade(struct {
									io.Reader
									io.Writer
								}{bytes.NewReader(rq), &out})
							}
							resp = append([]byte{}, out.Bytes()...)
							out.Write(trailing)
							wire := out.Bytes()
							if dc.wrap {
								wire = xorBytes(wire)
							}
							if dc.tls {
								wire = rotBytes(wire, 1)
							}
							return wire
						}
						return &lazyNetConn{LazyConn: lc}, &req, &resp
					}
					// plain dialer
					pconn, _, _ := mk()
					pd := dc.p.dialer()
					pd.NetDial = func(ctx context.Context, n, a string) (net.Conn, error) { return pconn, nil }
					if dc.wrap {
						pd.WrapConn = func(c net.Conn) net.Conn { return &xorConn{c} }
					}
					url := "ws://example.com/chat"
					if dc.tls {
						url = "wss://example.com/chat"
						pd.TLSClient = func(c net.Conn, host string) net.Conn { return &rotConn{c} }
					}
					pc, pbr, phs, perr := pd.Dial(context.Background(), url)
					// debug dialer
					dconn, dreq, dresp := mk()
					dd := wsutil.DebugDialer{Dialer: dc.p.dialer()}
					dd.Dialer.NetDial = func(ctx context.Context, n, a string) (net.Conn, error) { return dconn, nil }
					if dc.wrap {
						dd.Dialer.WrapConn = func(c net.Conn) net.Conn { return &xorConn{c} }
					}
					var gotReq, gotResp []byte
					if dc.onReq {
						dd.OnRequest = func(b []byte) { gotReq = append([]byte{}, b...) }
					}
					if dc.onResp {
						dd.OnResponse = func(b []byte) { gotResp = append([]byte{}, b...) }
					}
					if dc.tls {
						dd.Dialer.TLSClient = func(c net.Conn, host string) net.Conn { return &rotConn{c} }
					}
					conn, br, dhs, derr := dd.Dial(context.Background(), url)
					cls := fmt.Sprintf("ok=%v", perr == nil)
					if (perr == nil) != (derr == nil) || (perr != nil && perr.Error() != derr.Error()) {
						return explore.Failf("debug-changes-outcome:"+cls, "plain err=%v debug err=%v", perr, derr)
					}
					if phs.Protocol != dhs.Protocol || normExt(phs.Extensions) != normExt(dhs.Extensions) {
						return explore.Failf("debug-changes-handshake:"+cls, "")
					}
					if dc.onReq && !bytes.Equal(gotReq, *dreq) {
						return explore.Failf("OnRequest-bytes:"+cls, "got %q want %q", gotReq, *dreq)
					}
					if dc.onResp && !bytes.Equal(gotResp, *dresp) {
						return explore.Failf("OnResponse-bytes:"+cls, "got %q\nwant %q", gotResp, *dresp)
					}
					if derr == nil && dc.wrap {
						if _, ok := pc.(*xorConn); !ok {
							return explore.Failf("plain-dialer-returns-unwrapped-conn", "%T", pc)
						}
						if _, ok := conn.(*xorConn); !ok {
							return explore.Failf("debug-dialer-returns-unwrapped-conn", "plain dialer returns %T, debug dialer %T", pc, conn)
						}
					}
					if derr == nil && dc.tls {
						// the connection handed back is the one the handshake was made on: the TLS layer,
						// under the user's wrapper if there is one
						inner := func(c net.Conn) net.Conn {
							if x, ok := c.(*xorConn); ok && dc.wrap {
								return x.Conn
							}
							return c
						}
						if _, ok := inner(pc).(*rotConn); !ok {
							return explore.Failf("plain-dialer-returns-conn-without-TLS-layer", "%T", pc)
						}
						if _, ok := inner(conn).(*rotConn); !ok {
							return explore.Failf("debug-dialer-returns-conn-without-TLS-layer", "plain dialer returns %T, debug dialer %T", pc, conn)
						}
					}
					if derr == nil {
						var rd io.Reader = conn
						if br != nil {
							rd = br
						}
						rest, _ := io.ReadAll(rd)
						if !bytes.Equal(rest, trailing) {
							return explore.Failf("debug-loses-post-handshake-bytes", "sent %d trailing bytes, reader+conn yield %d (%x)", len(trailing), len(rest), rest)
						}
						var prd io.Reader = pc
						if pbr != nil {
							prd = pbr
						}
						prest, _ := io.ReadAll(prd)
						if !bytes.Equal(prest, trailing) {
							return explore.Failf("plain-loses-post-handshake-bytes", "")
						}
					}
					t.Outcome(cls)
					return nil
				})
			})
			// One DebugDialer value used for two connections, the second dialed before the
			// application has read what the first server sent behind its response (more than the
			// returned reader holds): each connection still yields exactly its own bytes, and each
			// callback saw its own handshake.
			for _, cb := range []int{16, 64, 0} {
				for _, tr1 := range []int{1, realBuf(cb) + 1, 3*realBuf(cb) + 5} {
					for _, tr2 := range []int{0, 7, 3*realBuf(cb) + 9} {
						for _, ch := range []int{0, 7} {
							for _, second := range []string{"accepted", "refused"} {
								cb, tr1, tr2, ch, second := cb, tr1, tr2, ch, second
								t.Do(func() string {
									return fmt.Sprintf("DebugDialer (read buffer %d) dials twice: first server sends %d bytes behind its response, second (%s) %d; transport chunk=%d; first connection read after the second dial", cb, tr1, second, tr2, ch)
								}, func() *explore.Fail {
									cfg := pair{cProto: []string{"a"}, sProto: "a", cBuf: cb}
									type peer struct {
										conn     *lazyNetConn
										resp     []byte
										trailing []byte
									}
									mkPeer := func(n int, base byte, refuse bool) *peer {
										pe := &peer{trailing: make([]byte, n)}
										for j := range pe.trailing {
											pe.trailing[j] = base + byte(j%40)
										}
										lc := &hs.LazyConn{Policy: env.FixedChunk(ch)}
										lc.Respond = func(rq []byte) []byte {
											var out bytes.Buffer
											if refuse {
												body := "come back later, the house is full"
												fmt.Fprintf(&out, "HTTP/1.1 503 Service Unavailable\r\nContent-Length: %d\r\n\r\n%s", len(body), body)
											} else {
												cfg.upgrader().Upgrade(struct {
													io.Reader
													io.Writer
												}{bytes.NewReader(rq), &out})
											}
											pe.resp = append([]byte{}, out.Bytes()...)
											if !refuse {
												out.Write(pe.trailing)
											}
											return out.Bytes()
										}
										pe.conn = &lazyNetConn{LazyConn: lc}
										return pe
									}
									peers := []*peer{mkPeer(tr1, 0x20, false), mkPeer(tr2, 0xa0, second == "refused")}
									dialed := 0
									dd := wsutil.DebugDialer{Dialer: cfg.dialer()}
									dd.Dialer.NetDial = func(ctx context.Context, n, a string) (net.Conn, error) {
										dialed++
										return peers[dialed-1].conn, nil
									}
									var gotResp [][]byte
									dd.OnResponse = func(b []byte) { gotResp = append(gotResp, append([]byte{}, b...)) }
									dd.OnRequest = func(b []byte) {}
									conn1, br1, _, err1 := dd.Dial(context.Background(), "ws://example.com/chat")
									if err1 != nil {
										return explore.Failf("first-dial-fails", "%v", err1)
									}
									conn2, br2, _, err2 := dd.Dial(context.Background(), "ws://example.com/chat")
									if (err2 != nil) != (second == "refused") {
										return explore.Failf("second-dial-outcome", "%v", err2)
									}
									drain := func(c net.Conn, br *bufio.Reader) []byte {
										var rd io.Reader = c
										if br != nil {
											rd = br
										}
										rest, _ := io.ReadAll(rd)
										return rest
									}
									if rest := drain(conn1, br1); !bytes.Equal(rest, peers[0].trailing) {
										return explore.Failf("second-dial-disturbs-first-connection", "first server sent %d bytes behind its response, reader+conn yield %d:\n got %x\nwant %x", tr1, len(rest), rest, peers[0].trailing)
									}
									if err2 == nil {
										if rest := drain(conn2, br2); !bytes.Equal(rest, peers[1].trailing) {
											return explore.Failf("second-connection-bytes", "got %x want %x", rest, peers[1].trailing)
										}
									}
									if len(gotResp) != 2 || !bytes.Equal(gotResp[0], peers[0].resp) || !bytes.Equal(gotResp[1], peers[1].resp) {
										return explore.Failf("OnResponse-bytes-two-dials", "got %q\nwant %q and %q", gotResp, peers[0].resp, peers[1].resp)
									}
									t.Outcome("two-dials-ok")
									return nil
								})
							}
						}
					}
				}
			}
			// DebugUpgrader
			for _, cfg := range []pair{
				{cProto: []string{"a", "b"}, sProto: "b", cExt: "pmd-cmwb", sExt: "flate1"},
				{cProto: []string{"a"}, sProto: "a", sBuf: 16, cHeader: "long"},
				{sProto: "nil"},
			} {
				for _, bad := range []bool{false, true} {
					for _, tr := range []int{0, 1, 5, 16, 17} {
						for _, ch := range []int{0, 1, 7} {
							for _, cbs := range [][2]bool{{true, true}, {true, false}, {false, true}} {
								cfg, bad, tr, ch, cbs := cfg, bad, tr, ch, cbs
								t.Do(func() string {
									return fmt.Sprintf("DebugUpgrader %s badRequest=%v trailing=%d chunk=%d onRequest=%v onResponse=%v", cfg, bad, tr, ch, cbs[0], cbs[1])
								}, func() *explore.Fail {
									// produce the request with the real dialer
									lc := &hs.LazyConn{Respond: func([]byte) []byte { return nil }}
									cfg.dialer().Upgrade(lc, theURL)
									req := append([]byte{}, lc.Req.Bytes()...)
									if bad {
										req = bytes.Replace(req, []byte("Upgrade: websocket"), []byte("Upgrade: nope"), 1)
									}
									trailing := bytes.Repeat([]byte{0x81}, tr)
									in := append(append([]byte{}, req...), trailing...)
									// plain
									var pout bytes.Buffer
									phs, perr := cfg.upgrader().Upgrade(struct {
										io.Reader
										io.Writer
									}{bytes.NewReader(req), &pout})
									// debug
									src := env.NewSrc(in)
									src.Policy = env.FixedChunk(ch)
									var dout bytes.Buffer
									du := wsutil.DebugUpgrader{Upgrader: cfg.upgrader()}
									var gotReq, gotResp []byte
									if cbs[0] {
										du.OnRequest = func(b []byte) { gotReq = append([]byte{}, b...) }
									}
									if cbs[1] {
										du.OnResponse = func(b []byte) { gotResp = append([]byte{}, b...) }
									}
									dhs, derr := du.Upgrade(struct {
										io.Reader
										io.Writer
									}{src, &dout})
									if (perr == nil) != (derr == nil) || (perr != nil && perr.Error() != derr.Error()) {
										return explore.Failf("debug-upgrader-changes-outcome", "plain %v debug %v", perr, derr)
									}
									if phs.Protocol != dhs.Protocol || normExt(phs.Extensions) != normExt(dhs.Extensions) {
										return explore.Failf("debug-upgrader-changes-handshake", "")
									}
									if !bytes.Equal(pout.Bytes(), dout.Bytes()) {
										return explore.Failf("debug-upgrader-changes-bytes-written", "")
									}
									if cbs[0] && !bytes.HasPrefix(gotReq, req) {
										return explore.Failf("debug-upgrader-OnRequest-bytes", "got %q want prefix %q", gotReq, req)
									}
									if cbs[1] && !bytes.Equal(gotResp, dout.Bytes()) {
										return explore.Failf("debug-upgrader-OnResponse-bytes", "")
									}
									t.Outcome(fmt.Sprintf("upgrader-ok=%v", perr == nil))
									return nil
								})
							}
						}
					}
				}
			}
			// the connection breaks (a transport error, or a plain end) while the request is still
			// arriving: with and without the debugging wrapper the upgrader reports the same failure
			for _, cbs := range [][2]bool{{true, true}, {true, false}, {false, true}} {
				for _, how := range []string{"error", "error-with-last-bytes", "EOF"} {
					for _, ch := range []int{0, 7} {
						cbs, how, ch := cbs, how, ch
						cfg := pair{cProto: []string{"a"}, sProto: "a"}
						lc := &hs.LazyConn{Respond: func([]byte) []byte { return nil }}
						cfg.dialer().Upgrade(lc, theURL)
						req := append([]byte{}, lc.Req.Bytes()...)
						for _, cut := range []int{0, 3, 20, len(req) / 2, len(req) - 2, len(req) - 1} {
							cut := cut
							t.Do(func() string {
								return fmt.Sprintf("DebugUpgrader: the connection ends (%s) after %d of %d request bytes, chunk=%d onRequest=%v onResponse=%v", how, cut, len(req), ch, cbs[0], cbs[1])
							}, func() *explore.Fail {
								mk := func() *env.Src {
									src := env.NewSrc(req)
									src.Cut = cut
									src.Policy = env.FixedChunk(ch)
									if how != "EOF" {
										src.EndErr = env.ErrInjected
									}
									src.WithLast = how == "error-with-last-bytes"
									return src
								}
								var pout, dout bytes.Buffer
								_, perr := cfg.upgrader().Upgrade(struct {
									io.Reader
									io.Writer
								}{mk(), &pout})
								du := wsutil.DebugUpgrader{Upgrader: cfg.upgrader()}
								if cbs[0] {
									du.OnRequest = func([]byte) {}
								}
								if cbs[1] {
									du.OnResponse = func([]byte) {}
								}
								_, derr := du.Upgrade(struct {
									io.Reader
									io.Writer
								}{mk(), &dout})
								if perr == nil || derr == nil {
									return explore.Failf("upgrade-succeeds-on-cut-request", "plain %v debug %v", perr, derr)
								}
								if perr.Error() != derr.Error() {
									return explore.Failf("debug-upgrader-changes-the-failure", "plain upgrader: %v; through the debugging wrapper: %v", perr, derr)
								}
								if !bytes.Equal(pout.Bytes(), dout.Bytes()) {
									return explore.Failf("debug-upgrader-changes-bytes-written-on-failure", "plain %q debug %q", pout.Bytes(), dout.Bytes())
								}
								return nil
							})
						}
					}
				}
			}
		})
	})
}

// rotConn stands for the TLS layer of a wss dial (Dialer.TLSClient): it adds 1 to every byte on the
// way out and takes it off on the way in - a transformation that does not commute with xorConn's, so
// the order of the two layers is visible on the wire.
type rotConn struct{ net.Conn }

func rotBytes(p []byte, k byte) []byte {
	q := make([]byte, len(p))
	for i, b := range p {
		q[i] = b + k
	}
	return q
}

func (x *rotConn) Read(p []byte) (int, error) {
	n, err := x.Conn.Read(p)
	for i := 0; i < n; i++ {
		p[i]--
	}
	return n, err
}

func (x *rotConn) Write(p []byte) (int, error) { return x.Conn.Write(rotBytes(p, 1)) }

// xorConn is a user WrapConn layer that transforms the byte stream in both directions.
type xorConn struct{ net.Conn }

func xorBytes(p []byte) []byte {
	q := make([]byte, len(p))
	for i, b := range p {
		q[i] = b ^ 0x5a
	}
	return q
}

func (x *xorConn) Read(p []byte) (int, error) {
	n, err := x.Conn.Read(p)
	for i := 0; i < n; i++ {
		p[i] ^= 0x5a
	}
	return n, err
}

func (x *xorConn) Write(p []byte) (int, error) { return x.Conn.Write(xorBytes(p)) }

// twoPeersX is twoPeers with support for the "lenN" header variants of E2.
func twoPeersX(p pair, cpol, spol func(max, off int) int, con, son func(p []byte, off int)) (cHs, sHs ws.Handshake, cErr, sErr error, req, resp []byte) {
	fix := func(h string) (string, ws.HandshakeHeader) {
		var n int
		if _, err := fmt.Sscanf(h, "len%d", &n); err == nil {
			return "custom", ws.HandshakeHeaderString("X-L: " + strings.Repeat("z", n) + "\r\n")
		}
		return h, nil
	}
	ch, chh := fix(p.cHeader)
	sh, shh := fix(p.sHeader)
	conn := &hs.LazyConn{Policy: cpol, OnRead: con}
	conn.Respond = func(r []byte) []byte {
		req = append([]byte{}, r...)
		src := env.NewSrc(req)
		src.Policy = spol
		src.OnRead = son
		var out bytes.Buffer
		q := p
		q.sHeader = sh
		u := q.upgrader()
		if shh != nil {
			u.Header = shh
		}
		sHs, sErr = u.Upgrade(struct {
			io.Reader
			io.Writer
		}{src, &out})
		resp = out.Bytes()
		return resp
	}
	q := p
	q.cHeader = ch
	d := q.dialer()
	if chh != nil {
		d.Header = chh
	}
	var br *bufio.Reader
	br, cHs, cErr = d.Upgrade(conn, theURL)
	if br != nil {
		ws.PutReader(br)
	}
	// keys are random: blank them so that runs are comparable
	req = blankKey(req)
	resp = blankAccept(resp)
	return
}

func blankKey(b []byte) []byte    { return blankHeader(b, "Sec-WebSocket-Key: ") }
func blankAccept(b []byte) []byte { return blankHeader(b, "Sec-WebSocket-Accept: ") }

func blankHeader(b []byte, name string) []byte {
	i := bytes.Index(b, []byte(name))
	if i < 0 {
		return b
	}
	j := bytes.Index(b[i:], []byte("\r\n"))
	if j < 0 {
		return b
	}
	out := append([]byte{}, b[:i+len(name)]...)
	out = append(out, bytes.Repeat([]byte{'#'}, j-len(name))...)
	return append(out, b[i+j:]...)
}
