package main

import (
	"verifmc/drivers"
	"verifmc/refmodel"
)

func parseFrames(b []byte) ([]refmodel.Frame, []byte) { return drivers.ParseFrames(b) }
