// Package streams generates RFC-valid frame streams (the reference state machine of
// refmodel.Messages run as a generator) and invalid one-frame extensions.
package streams

import (
	"bytes"

	"verifmc/refmodel"
)

type Frame = refmodel.Frame

// Side of the *receiving* endpoint.
type Side int

const (
	Server Side = iota // receiver is a server: frames are masked
	Client             // receiver is a client: frames are unmasked
)

func (s Side) String() string {
	if s == Server {
		return "server"
	}
	return "client"
}

var Masks = [][4]byte{{0x11, 0x22, 0x33, 0x44}, {0, 0, 0, 0}, {0xff, 0x80, 0x01, 0x7f}}

var (
	TextPayloads = [][]byte{{}, []byte("a"), []byte("éa")}
	BinPayloads  = [][]byte{{}, {0xff}, {0x00, 0xfe, 0x80}}
	Ping125      = bytes.Repeat([]byte{'p'}, 125)
)

// Ctl is the control-frame alphabet.
type Ctl struct {
	Op      byte
	Payload []byte
}

var Controls = []Ctl{{9, []byte("pi")}, {10, nil}, {9, Ping125}}

// Alphabet options.
type Opts struct {
	Depth    int
	Side     Side
	Controls []Ctl // nil = default Controls
	// OnlyClosed: emit only streams that end with no message open.
	AllowOpen bool
}

func mk(op byte, fin bool, payload []byte, side Side, idx int) Frame {
	f := Frame{H: refmodel.Hdr{Fin: fin, Op: op}, Payload: payload}
	if side == Server {
		f.H.Masked = true
		// the key is a function of position, opcode and payload length: over the exhaustive set
		// of streams every key (the all-zero one included) occurs on the first frame, and
		// consecutive frames both share a key and change it
		f.H.Mask = Masks[(idx/2+len(payload)+int(op))%len(Masks)]
	}
	f.H.Len = uint64(len(payload))
	return f
}

// Valid calls fn for every valid stream with 1..Depth frames. The slice is reused: copy it
// if kept. msgOp is the opcode of the open message while generating.
func Valid(o Opts, fn func(frames []Frame)) {
	ctls := o.Controls
	if ctls == nil {
		ctls = Controls
	}
	var cur []Frame
	var rec func(open bool, op byte)
	rec = func(open bool, op byte) {
		if len(cur) > 0 && (!open || o.AllowOpen) {
			fn(cur)
		}
		if len(cur) == o.Depth {
			return
		}
		idx := len(cur)
		for _, c := range ctls {
			cur = append(cur, mk(c.Op, true, c.Payload, o.Side, idx))
			rec(open, op)
			cur = cur[:idx]
		}
		if !open {
			for _, dop := range []byte{1, 2} {
				pls := TextPayloads
				if dop == 2 {
					pls = BinPayloads
				}
				for _, fin := range []bool{true, false} {
					for _, p := range pls {
						cur = append(cur, mk(dop, fin, p, o.Side, idx))
						rec(!fin, dop)
						cur = cur[:idx]
					}
				}
			}
		} else {
			pls := TextPayloads
			if op == 2 {
				pls = BinPayloads
			}
			for _, fin := range []bool{true, false} {
				for _, p := range pls {
					cur = append(cur, mk(0, fin, p, o.Side, idx))
					rec(!fin, op)
					cur = cur[:idx]
				}
			}
		}
	}
	rec(false, 0)
}

// Wire concatenates the frames' wire forms; ends[i] is the offset just after frame i.
func Wire(frames []Frame) (data []byte, ends []int) {
	for _, f := range frames {
		data = append(data, f.Wire()...)
		ends = append(ends, len(data))
	}
	return
}

// Describe renders a stream compactly.
func Describe(frames []Frame) string {
	var b bytes.Buffer
	for i, f := range frames {
		if i > 0 {
			b.WriteByte(' ')
		}
		name := map[byte]string{0: "Cont", 1: "Text", 2: "Bin", 8: "Close", 9: "Ping", 10: "Pong"}[f.H.Op]
		if name == "" {
			name = "Op" + string("0123456789abcdef"[f.H.Op])
		}
		b.WriteString(name)
		if !f.H.Fin {
			b.WriteString("-")
		}
		if f.H.Rsv != 0 {
			b.WriteString("/r" + string("01234567"[f.H.Rsv]))
		}
		b.WriteString("(")
		if len(f.Payload) > 8 {
			b.WriteString(string(f.Payload[:2]) + ".." + itoa(len(f.Payload)))
		} else {
			b.WriteString(hexs(f.Payload))
		}
		b.WriteString(")")
	}
	return b.String()
}

func hexs(p []byte) string {
	const d = "0123456789abcdef"
	out := make([]byte, 0, 2*len(p))
	for _, c := range p {
		out = append(out, d[c>>4], d[c&15])
	}
	return string(out)
}

func itoa(n int) string {
	if n == 0 {
		return "0"
	}
	var b []byte
	for n > 0 {
		b = append([]byte{byte('0' + n%10)}, b...)
		n /= 10
	}
	return string(b)
}
