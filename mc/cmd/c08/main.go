// C08: automatic control-frame replies are always valid frames with the right content.
package main

import (
	"bufio"
	"bytes"
	"fmt"
	"io"
	"unicode/utf8"

	"github.com/gobwas/ws"
	"github.com/gobwas/ws/wsutil"

	"verifmc/drivers"
	"verifmc/env"
	"verifmc/explore"
	"verifmc/refmodel"
	"verifmc/streams"
)

type ctlCase struct {
	side    streams.Side // side of the endpoint that receives the control frame and replies
	op      byte
	payload []byte
	// flags: further state bits the endpoint carries besides its side (an extension was
	// negotiated; a fragmented message is being received). They do not change what the reply
	// has to look like.
	flags ws.State
}

// st is the state value the caller hands to the control-handling entry points.
func (c ctlCase) st() ws.State { return wsState(c.side) | c.flags }

// readerSt is the state of a Reader that is about to meet the control frame at top level.
func (c ctlCase) readerSt() ws.State { return wsState(c.side) | c.flags&ws.StateExtended }

func (c ctlCase) String() string {
	p := fmt.Sprintf("%x", c.payload)
	if len(p) > 24 {
		p = p[:24] + fmt.Sprintf("..(%d bytes)", len(c.payload))
	}
	fl := ""
	if c.flags.Is(ws.StateExtended) {
		fl += "+extended"
	}
	if c.flags.Is(ws.StateFragmented) {
		fl += "+fragmented"
	}
	return fmt.Sprintf("%s%s op=%x payload=%s", c.side, fl, c.op, p)
}

// class names the coarse input class for signatures.
func (c ctlCase) class() string {
	switch c.op {
	case 9:
		return c.side.String() + ":ping"
	case 10:
		return c.side.String() + ":pong"
	}
	if len(c.payload) == 0 {
		return c.side.String() + ":close-empty"
	}
	if len(c.payload) == 1 {
		return c.side.String() + ":close-1byte"
	}
	code := uint16(c.payload[0])<<8 | uint16(c.payload[1])
	if refmodel.CloseCodeClass(code) > 0 && utf8.Valid(c.payload[2:]) {
		return c.side.String() + ":close-valid"
	}
	if refmodel.CloseCodeClass(code) == 0 {
		return c.side.String() + ":close-open-code"
	}
	return c.side.String() + ":close-invalid"
}

// judgeReply checks the bytes written and the value returned for one received control frame.
func judgeReply(c ctlCase, written []byte, ret error, entry string) *explore.Fail {
	cls := c.class() + ":" + entry
	frames, rest := drivers.ParseFrames(written)
	if len(rest) != 0 {
		return explore.Failf("reply-not-whole-frames:"+cls, "%x", written)
	}
	// peer state: the peer of a server is a client and vice versa
	peer := refmodel.St{Client: c.side == streams.Server, Server: c.side == streams.Client}
	peerWs := ws.StateClientSide
	if c.side == streams.Client {
		peerWs = ws.StateServerSide
	}
	for _, f := range frames {
		if broken := refmodel.CheckRules(f.H, peer); len(broken) != 0 {
			return explore.Failf("reply-breaks-peer-rules:"+cls, "reply %v breaks %v", f.H, broken)
		}
		if err := ws.CheckHeader(ws.Header{Fin: f.H.Fin, Rsv: f.H.Rsv, OpCode: ws.OpCode(f.H.Op), Masked: f.H.Masked, Mask: f.H.Mask, Length: int64(f.H.Len)}, peerWs); err != nil {
			return explore.Failf("reply-refused-by-peer-CheckHeader:"+cls, "%v", err)
		}
		if !f.H.Fin || f.H.Len > 125 {
			return explore.Failf("reply-not-single-final-control:"+cls, "%v", f.H)
		}
		if f.H.Masked != (c.side == streams.Client) {
			return explore.Failf("reply-masking:"+cls, "masked=%v sent by %s", f.H.Masked, c.side)
		}
	}
	switch c.op {
	case 9:
		if len(frames) != 1 || frames[0].H.Op != 10 || !bytes.Equal(frames[0].Payload, c.payload) {
			return explore.Failf("ping-reply:"+cls, "want one Pong with identical payload, got %d frames %x", len(frames), written)
		}
		if ret != nil {
			return explore.Failf("ping-returns-error:"+cls, "%v", ret)
		}
	case 10:
		if len(written) != 0 {
			return explore.Failf("pong-replied:"+cls, "%x", written)
		}
		if ret != nil {
			return explore.Failf("pong-returns-error:"+cls, "%v", ret)
		}
	case 8:
		if len(frames) != 1 || frames[0].H.Op != 8 {
			return explore.Failf("close-reply-count:"+cls, "want exactly one Close, got %d frames %x", len(frames), written)
		}
		body := frames[0].Payload
		if len(c.payload) == 0 {
			if len(body) != 0 {
				return explore.Failf("close-empty-reply-not-empty:"+cls, "%x", body)
			}
			ce, ok := ret.(wsutil.ClosedError)
			if !ok || ce.Code != ws.StatusNoStatusRcvd || ce.Reason != "" {
				return explore.Failf("close-empty-return:"+cls, "%#v", ret)
			}
			return nil
		}
		if len(body) < 2 {
			return explore.Failf("close-reply-body-short:"+cls, "%x", body)
		}
		rcode := uint16(body[0])<<8 | uint16(body[1])
		var rcvd uint16
		if len(c.payload) >= 2 {
			rcvd = uint16(c.payload[0])<<8 | uint16(c.payload[1])
		}
		// the reply body must pass the close-payload reference; echoing a code the statement
		// leaves open (1012-1014, >=5000) is allowed when that is the code received
		codeFine := refmodel.CloseCodeClass(rcode) > 0 || (refmodel.CloseCodeClass(rcode) == 0 && rcode == rcvd)
		if !codeFine || !utf8.Valid(body[2:]) {
			return explore.Failf("close-reply-body-invalid:"+cls, "code=%d reason=%q", rcode, body[2:])
		}
		var code uint16
		codeOK, reasonOK := false, true
		if len(c.payload) >= 2 {
			code = uint16(c.payload[0])<<8 | uint16(c.payload[1])
			reasonOK = utf8.Valid(c.payload[2:])
			codeOK = refmodel.CloseCodeClass(code) > 0
			if refmodel.CloseCodeClass(code) == 0 {
				// open code: either treatment is allowed, but it must be consistent
				_, isClosed := ret.(wsutil.ClosedError)
				codeOK = isClosed && reasonOK
			}
		}
		if codeOK && reasonOK {
			if rcode != code {
				return explore.Failf("close-reply-code:"+cls, "received %d replied %d", code, rcode)
			}
			ce, ok := ret.(wsutil.ClosedError)
			if !ok || uint16(ce.Code) != code || ce.Reason != string(c.payload[2:]) {
				return explore.Failf("close-return:"+cls, "%#v", ret)
			}
		} else {
			if rcode != 1002 && !(rcode == 1007 && codeOK && !reasonOK) {
				return explore.Failf("close-invalid-reply-code:"+cls, "replied %d", rcode)
			}
			if _, ok := ret.(ws.ProtocolError); !ok {
				return explore.Failf("close-invalid-return:"+cls, "%T %v", ret, ret)
			}
		}
	}
	return nil
}

type entry struct {
	name string
	run  func(c ctlCase) (written []byte, ret error)
}

var srcMask = [4]byte{0x37, 0xfa, 0x21, 0x3d}

func wsState(s streams.Side) ws.State { return drivers.State(s) }

func entries() []entry {
	return []entry{
		{"Handle/masked-src", func(c ctlCase) ([]byte, error) {
			// the source delivers wire bytes: masked when the receiver is a server
			d := env.NewDst()
			h := ws.Header{Fin: true, OpCode: ws.OpCode(c.op), Length: int64(len(c.payload))}
			wire := c.payload
			if c.side == streams.Server {
				h.Masked, h.Mask = true, srcMask
				wire = refmodel.XOR(c.payload, srcMask, 0)
			}
			ch := wsutil.ControlHandler{Src: bytes.NewReader(wire), Dst: d, State: c.st()}
			err := ch.Handle(h)
			return d.Bytes(), err
		}},
		{"Handle/masked-src-last-bytes-with-EOF", func(c ctlCase) ([]byte, error) {
			// the transport hands over the (masked) payload's last bytes together with io.EOF,
			// in chunks of 5
			d := env.NewDst()
			h := ws.Header{Fin: true, OpCode: ws.OpCode(c.op), Length: int64(len(c.payload)), Masked: true, Mask: srcMask}
			src := env.NewSrc(refmodel.XOR(c.payload, srcMask, 0))
			src.Policy = env.FixedChunk(5)
			src.WithLast = true
			st := c.st()
			if c.side == streams.Client {
				// a client receives unmasked frames; give it the plain payload
				h.Masked = false
				src = env.NewSrc(append([]byte{}, c.payload...))
				src.Policy = env.FixedChunk(5)
				src.WithLast = true
			}
			err := wsutil.ControlHandler{Src: src, Dst: d, State: st}.Handle(h)
			return d.Bytes(), err
		}},
		{"Handle/unmasked-src", func(c ctlCase) ([]byte, error) {
			d := env.NewDst()
			h := ws.Header{Fin: true, OpCode: ws.OpCode(c.op), Length: int64(len(c.payload)), Masked: c.side == streams.Server, Mask: srcMask}
			ch := wsutil.ControlHandler{Src: bytes.NewReader(c.payload), Dst: d, State: c.st(), DisableSrcCiphering: true}
			err := ch.Handle(h)
			return d.Bytes(), err
		}},
		{"Handle/chunked-src", func(c ctlCase) ([]byte, error) {
			d := env.NewDst()
			h := ws.Header{Fin: true, OpCode: ws.OpCode(c.op), Length: int64(len(c.payload)), Masked: c.side == streams.Server, Mask: srcMask}
			src := env.NewSrc(c.payload)
			src.Policy = env.FixedChunk(3)
			ch := wsutil.ControlHandler{Src: src, Dst: d, State: c.st(), DisableSrcCiphering: true}
			err := ch.Handle(h)
			return d.Bytes(), err
		}},
		{"HandlePing/HandlePong/HandleClose-direct", func(c ctlCase) ([]byte, error) {
			// the per-opcode methods, called directly (masked source as in Handle/masked-src)
			d := env.NewDst()
			h := ws.Header{Fin: true, OpCode: ws.OpCode(c.op), Length: int64(len(c.payload))}
			wire := c.payload
			if c.side == streams.Server {
				h.Masked, h.Mask = true, srcMask
				wire = refmodel.XOR(c.payload, srcMask, 0)
			}
			ch := wsutil.ControlHandler{Src: bytes.NewReader(wire), Dst: d, State: c.st()}
			var err error
			switch c.op {
			case 9:
				err = ch.HandlePing(h)
			case 10:
				err = ch.HandlePong(h)
			default:
				err = ch.HandleClose(h)
			}
			return d.Bytes(), err
		}},
		{"HandleControlMessage", func(c ctlCase) ([]byte, error) {
			d := env.NewDst()
			err := wsutil.HandleControlMessage(d, c.st(), wsutil.Message{OpCode: ws.OpCode(c.op), Payload: c.payload})
			return d.Bytes(), err
		}},
		{"Handle/source-is-a-buffered-reader-that-already-holds-the-payload", func(c ctlCase) ([]byte, error) {
			// the source is a *bufio.Reader with the payload and what follows it already buffered;
			// once with the bytes as on the wire (masked on the server side), once with a payload
			// a layer below has unmasked already (DisableSrcCiphering) while the header still
			// says what the wire said
			var first []byte
			var firstErr error
			for i, unmaskedBelow := range []bool{false, true} {
				d := env.NewDst()
				h := ws.Header{Fin: true, OpCode: ws.OpCode(c.op), Length: int64(len(c.payload))}
				wire := c.payload
				if c.side == streams.Server {
					h.Masked, h.Mask = true, srcMask
					if !unmaskedBelow {
						wire = refmodel.XOR(c.payload, srcMask, 0)
					}
				}
				br := bufio.NewReaderSize(bytes.NewReader(append(append([]byte{}, wire...), "what follows the frame"...)), 256)
				br.Peek(1)
				err := wsutil.ControlHandler{Src: br, Dst: d, State: c.st(), DisableSrcCiphering: unmaskedBelow}.Handle(h)
				if i == 0 {
					first, firstErr = d.Bytes(), err
					continue
				}
				if (err == nil) != (firstErr == nil) || !bytes.Equal(stripMaskKeys(d.Bytes()), stripMaskKeys(first)) {
					// report the second run; judgeReply names what is wrong with it
					return d.Bytes(), err
				}
				rest, _ := io.ReadAll(br)
				if err == nil && string(rest) != "what follows the frame" {
					return nil, fmt.Errorf("harness: the handler left %q in the source, want the bytes that follow the frame", rest)
				}
			}
			return first, firstErr
		}},

		{"HandleClient/ServerControlMessage", func(c ctlCase) ([]byte, error) {
			d := env.NewDst()
			var err error
			if c.side == streams.Server {
				err = wsutil.HandleClientControlMessage(d, wsutil.Message{OpCode: ws.OpCode(c.op), Payload: c.payload})
			} else {
				err = wsutil.HandleServerControlMessage(d, wsutil.Message{OpCode: ws.OpCode(c.op), Payload: c.payload})
			}
			return d.Bytes(), err
		}},
		{"ControlFrameHandler/Reader-toplevel", func(c ctlCase) ([]byte, error) {
			d := env.NewDst()
			f := refmodel.Frame{H: refmodel.Hdr{Fin: true, Op: c.op, Masked: c.side == streams.Server, Mask: srcMask}, Payload: c.payload}
			rd := &wsutil.Reader{Source: bytes.NewReader(f.Wire()), State: c.readerSt()}
			hd := wsutil.ControlFrameHandler(d, c.st())
			h, err := rd.NextFrame()
			if err != nil {
				return nil, fmt.Errorf("harness: NextFrame: %v", err)
			}
			err = hd(h, rd)
			return d.Bytes(), err
		}},
		{"ControlFrameHandler/Reader-intermediate", func(c ctlCase) ([]byte, error) {
			d := env.NewDst()
			mk := func(op byte, fin bool, p []byte) []byte {
				return refmodel.Frame{H: refmodel.Hdr{Fin: fin, Op: op, Masked: c.side == streams.Server, Mask: srcMask}, Payload: p}.Wire()
			}
			data := append(append(mk(1, false, []byte("ab")), mk(c.op, true, c.payload)...), mk(0, true, []byte("cd"))...)
			rd := &wsutil.Reader{Source: bytes.NewReader(data), State: c.readerSt()}
			rd.OnIntermediate = wsutil.ControlFrameHandler(d, c.st())
			if _, err := rd.NextFrame(); err != nil {
				return nil, fmt.Errorf("harness: NextFrame: %v", err)
			}
			p, err := io.ReadAll(rd)
			if err == nil && string(p) != "abcd" {
				return nil, fmt.Errorf("harness: message payload %q", p)
			}
			return d.Bytes(), err
		}},
		{"ReadData/before-message", func(c ctlCase) ([]byte, error) {
			mk := func(op byte, fin bool, p []byte) []byte {
				return refmodel.Frame{H: refmodel.Hdr{Fin: fin, Op: op, Masked: c.side == streams.Server, Mask: srcMask}, Payload: p}.Wire()
			}
			data := append(mk(c.op, true, c.payload), mk(2, true, []byte("xy"))...)
			d := env.NewDst()
			p, _, err := wsutil.ReadData(env.RW{Reader: bytes.NewReader(data), Writer: d}, wsState(c.side))
			if err == nil && string(p) != "xy" {
				return nil, fmt.Errorf("harness: message payload %q", p)
			}
			return d.Bytes(), err
		}},
		{"ReadData/between-fragments", func(c ctlCase) ([]byte, error) {
			mk := func(op byte, fin bool, p []byte) []byte {
				return refmodel.Frame{H: refmodel.Hdr{Fin: fin, Op: op, Masked: c.side == streams.Server, Mask: srcMask}, Payload: p}.Wire()
			}
			data := append(append(mk(2, false, []byte("x")), mk(c.op, true, c.payload)...), mk(0, true, []byte("y"))...)
			d := env.NewDst()
			var p []byte
			var err error
			if c.side == streams.Server {
				p, _, err = wsutil.ReadClientData(env.RW{Reader: bytes.NewReader(data), Writer: d})
			} else {
				p, _, err = wsutil.ReadServerData(env.RW{Reader: bytes.NewReader(data), Writer: d})
			}
			if err == nil && string(p) != "xy" {
				return nil, fmt.Errorf("harness: message payload %q", p)
			}
			return d.Bytes(), err
		}},
		{"ReadClient/ServerText/inside-a-skipped-binary-message", func(c ctlCase) ([]byte, error) {
			// the helpers that filter by type: the control frame sits between the fragments of a
			// message the caller did not ask for, which the helper discards on its way
			mk := func(op byte, fin bool, p []byte) []byte {
				return refmodel.Frame{H: refmodel.Hdr{Fin: fin, Op: op, Masked: c.side == streams.Server, Mask: srcMask}, Payload: p}.Wire()
			}
			data := append(append(mk(2, false, []byte("no")), mk(c.op, true, c.payload)...), mk(0, true, []byte("pe"))...)
			data = append(data, mk(1, true, []byte("xy"))...)
			d := env.NewDst()
			var p []byte
			var err error
			if c.side == streams.Server {
				p, err = wsutil.ReadClientText(env.RW{Reader: bytes.NewReader(data), Writer: d})
			} else {
				p, err = wsutil.ReadServerText(env.RW{Reader: bytes.NewReader(data), Writer: d})
			}
			if err == nil && string(p) != "xy" {
				return nil, fmt.Errorf("harness: message payload %q", p)
			}
			return d.Bytes(), err
		}},
		{"ReadClient/ServerBinary/inside-a-skipped-text-message", func(c ctlCase) ([]byte, error) {
			mk := func(op byte, fin bool, p []byte) []byte {
				return refmodel.Frame{H: refmodel.Hdr{Fin: fin, Op: op, Masked: c.side == streams.Server, Mask: srcMask}, Payload: p}.Wire()
			}
			data := append(append(append(mk(1, false, nil), mk(0, false, []byte("no"))...), mk(c.op, true, c.payload)...), mk(0, true, nil)...)
			data = append(data, mk(2, true, []byte("xy"))...)
			d := env.NewDst()
			var p []byte
			var err error
			if c.side == streams.Server {
				p, err = wsutil.ReadClientBinary(env.RW{Reader: bytes.NewReader(data), Writer: d})
			} else {
				p, err = wsutil.ReadServerBinary(env.RW{Reader: bytes.NewReader(data), Writer: d})
			}
			if err == nil && string(p) != "xy" {
				return nil, fmt.Errorf("harness: message payload %q", p)
			}
			return d.Bytes(), err
		}},
		{"Handle/source-ends-before-the-announced-length", func(c ctlCase) ([]byte, error) {
			// not an entry for the reply table: the payload breaks off one byte early, so there is
			// nothing to answer - no frame may be written, and the handler does not report success
			d := env.NewDst()
			if len(c.payload) > 0 {
				h := ws.Header{Fin: true, OpCode: ws.OpCode(c.op), Length: int64(len(c.payload))}
				err := wsutil.ControlHandler{Src: bytes.NewReader(c.payload[:len(c.payload)-1]), Dst: d, State: c.st(), DisableSrcCiphering: true}.Handle(h)
				if err == nil && c.op != 10 {
					return nil, fmt.Errorf("harness: a %d-byte payload of which %d arrived was handled without error", len(c.payload), len(c.payload)-1)
				}
				if len(d.Bytes()) != 0 {
					return nil, fmt.Errorf("harness: %x sent in reply to a control frame whose payload broke off", d.Bytes())
				}
			}
			// then the frame as it should have been, through the same kind of handler
			d = env.NewDst()
			h := ws.Header{Fin: true, OpCode: ws.OpCode(c.op), Length: int64(len(c.payload))}
			err := wsutil.ControlHandler{Src: bytes.NewReader(c.payload), Dst: d, State: c.st(), DisableSrcCiphering: true}.Handle(h)
			return d.Bytes(), err
		}},
		{"ReadClient/ServerMessage(msg[:0])+HandleControlMessage/between-fragments", func(c ctlCase) ([]byte, error) {
			// the receive loop of example/autobahn: one message slice recycled across calls; an earlier
			// large fragmented message has left its payload in the slice's spare capacity
			mk := func(op byte, fin bool, p []byte) []byte {
				return refmodel.Frame{H: refmodel.Hdr{Fin: fin, Op: op, Masked: c.side == streams.Server, Mask: srcMask}, Payload: p}.Wire()
			}
			big := bytes.Repeat([]byte("0123456789"), 200)
			data := append(mk(2, false, big[:1000]), mk(0, true, big[1000:])...)
			data = append(data, mk(2, false, []byte("ab"))...)
			data = append(data, mk(c.op, true, c.payload)...)
			data = append(data, mk(0, true, []byte("cd"))...)
			src := bytes.NewReader(data)
			d := env.NewDst()
			read := func(m []wsutil.Message) ([]wsutil.Message, error) {
				if c.side == streams.Server {
					return wsutil.ReadClientMessage(src, m)
				}
				return wsutil.ReadServerMessage(src, m)
			}
			msg, err := read(nil)
			if err != nil || len(msg) != 1 || !bytes.Equal(msg[0].Payload, big) {
				return nil, fmt.Errorf("harness: first message: %v", err)
			}
			msg, err = read(msg[:0])
			if err != nil {
				return d.Bytes(), err
			}
			var herr error
			var dataSeen []byte
			for _, m := range msg {
				if !m.OpCode.IsControl() {
					dataSeen = append(dataSeen, m.Payload...)
					continue
				}
				var e error
				if c.side == streams.Server {
					e = wsutil.HandleClientControlMessage(d, m)
				} else {
					e = wsutil.HandleServerControlMessage(d, m)
				}
				if e != nil {
					herr = e
				}
			}
			if string(dataSeen) != "abcd" {
				return nil, fmt.Errorf("harness: message payload %q", dataSeen)
			}
			return d.Bytes(), herr
		}},
		{"ReadData/behind-150-pings-between-fragments", func(c ctlCase) ([]byte, error) {
			// a long run of control frames inside one message: each is answered, the 151st like the first
			mk := func(op byte, fin bool, p []byte) []byte {
				return refmodel.Frame{H: refmodel.Hdr{Fin: fin, Op: op, Masked: c.side == streams.Server, Mask: srcMask}, Payload: p}.Wire()
			}
			data := mk(2, false, []byte("x"))
			for i := 0; i < 150; i++ {
				data = append(data, mk(9, true, []byte{byte(i)})...)
			}
			data = append(data, mk(c.op, true, c.payload)...)
			data = append(data, mk(0, true, []byte("y"))...)
			d := env.NewDst()
			var p []byte
			var err error
			if c.side == streams.Server {
				p, _, err = wsutil.ReadClientData(env.RW{Reader: bytes.NewReader(data), Writer: d})
			} else {
				p, _, err = wsutil.ReadServerData(env.RW{Reader: bytes.NewReader(data), Writer: d})
			}
			if err == nil && string(p) != "xy" {
				return nil, fmt.Errorf("harness: message payload %q", p)
			}
			frames, rest := drivers.ParseFrames(d.Bytes())
			if len(rest) != 0 || len(frames) < 150 {
				return nil, fmt.Errorf("harness: %d whole reply frames (+%d stray bytes) for 150 pings; err=%v", len(frames), len(rest), err)
			}
			skip := 0
			for i := 0; i < 150; i++ {
				f := frames[i]
				if f.H.Op != 10 || len(f.Payload) != 1 || f.Payload[0] != byte(i) {
					return nil, fmt.Errorf("harness: reply %d is %v %x", i, f.H, f.Payload)
				}
				skip += len(f.Wire())
			}
			return d.Bytes()[skip:], err
		}},
		{"Handle/source-is-the-connection", func(c ctlCase) ([]byte, error) {
			// "The intentional way to use it is to read the next frame header from the connection ...
			// and pass it to Handle()": the source is the connection itself, on which the next frame
			// follows right behind this payload. Handle takes the payload and nothing else.
			d := env.NewDst()
			h := ws.Header{Fin: true, OpCode: ws.OpCode(c.op), Length: int64(len(c.payload))}
			wire := c.payload
			if c.side == streams.Server {
				h.Masked, h.Mask = true, srcMask
				wire = refmodel.XOR(c.payload, srcMask, 0)
			}
			next := refmodel.Frame{H: refmodel.Hdr{Fin: true, Op: 1, Masked: c.side == streams.Server, Mask: srcMask}, Payload: []byte("next")}.Wire()
			src := env.NewSrc(append(append([]byte{}, wire...), next...))
			err := wsutil.ControlHandler{Src: src, Dst: d, State: c.st()}.Handle(h)
			if left := src.Remaining(); !bytes.Equal(left, next) {
				return nil, fmt.Errorf("harness: after Handle (err=%v) the connection stands %d bytes behind the header, the payload has %d", err, src.Off, len(wire))
			}
			return d.Bytes(), err
		}},
		{"ControlFrameHandler/function-reused-after-other-frames", func(c ctlCase) ([]byte, error) {
			// one handler function serves the connection for its lifetime: before the frame under test
			// it has answered a ping, met a ping whose payload broke off after 3 of 5 bytes (nothing
			// is sent for that one), and seen a pong
			sw := &switchDst{cur: env.NewDst()}
			hd := wsutil.ControlFrameHandler(sw, c.st())
			plain := func(op ws.OpCode, p []byte, src io.Reader) error {
				h := ws.Header{Fin: true, OpCode: op, Length: int64(len(p)), Masked: c.side == streams.Server, Mask: srcMask}
				if src == nil {
					// (the function takes its payload from a wsutil.Reader, which has unmasked it)
					src = bytes.NewReader(p)
				}
				return hd(h, src)
			}
			if err := plain(ws.OpPing, []byte("first"), nil); err != nil {
				return nil, fmt.Errorf("harness: first ping: %v", err)
			}
			first := sw.cur.Bytes()
			sw.cur = env.NewDst()
			cut := env.NewSrc([]byte("hel"))
			cut.EndErr = env.ErrInjected
			if err := plain(ws.OpPing, []byte("hello"), cut); err == nil {
				return nil, fmt.Errorf("harness: a ping whose payload breaks off is handled without error")
			}
			if n := len(sw.cur.Bytes()); n != 0 {
				return nil, fmt.Errorf("harness: %d bytes sent for a ping whose payload broke off", n)
			}
			plain(ws.OpPong, []byte("pong"), nil)
			if len(first) == 0 {
				return nil, fmt.Errorf("harness: no reply to the first ping")
			}
			sw.cur = env.NewDst()
			err := plain(ws.OpCode(c.op), c.payload, nil)
			return sw.cur.Bytes(), err
		}},
		{"ControlFrameHandler/Reader-inside-a-discarded-message", func(c ctlCase) ([]byte, error) {
			d := env.NewDst()
			mk := func(op byte, fin bool, p []byte) []byte {
				return refmodel.Frame{H: refmodel.Hdr{Fin: fin, Op: op, Masked: c.side == streams.Server, Mask: srcMask}, Payload: p}.Wire()
			}
			data := append(append(mk(1, false, []byte("ab")), mk(c.op, true, c.payload)...), mk(0, true, []byte("cd"))...)
			rd := &wsutil.Reader{Source: bytes.NewReader(data), State: c.readerSt()}
			rd.OnIntermediate = wsutil.ControlFrameHandler(d, c.st())
			if _, err := rd.NextFrame(); err != nil {
				return nil, fmt.Errorf("harness: NextFrame: %v", err)
			}
			err := rd.Discard()
			return d.Bytes(), err
		}},
	}
}

// switchDst lets one handler function write to a destination the harness swaps between calls.
type switchDst struct{ cur *env.Dst }

func (s *switchDst) Write(p []byte) (int, error) { return s.cur.Write(p) }

func main() {
	explore.Main("C08", func(r *explore.Run) {
		es := entries()
		r.Part("E1-replies-by-length", func(t *explore.T) {
			for _, side := range []streams.Side{streams.Server, streams.Client} {
				for _, op := range []byte{9, 10, 8} {
					for n := 0; n <= 125; n++ {
						var payloads [][]byte
						if op == 8 {
							switch {
							case n == 0:
								payloads = [][]byte{{}}
							case n == 1:
								payloads = [][]byte{{0x03}}
							default:
								p := append([]byte{0x03, 0xe8}, bytes.Repeat([]byte{'r'}, n-2)...) // 1000 + reason
								q := append([]byte{0x0f, 0xa0}, bytes.Repeat([]byte{'q'}, n-2)...) // 4000 + reason
								payloads = [][]byte{p, q}
							}
						} else {
							p := make([]byte, n)
							for i := range p {
								p[i] = byte(i*5 + 1)
							}
							payloads = [][]byte{p}
						}
						for _, p := range payloads {
							for _, e := range es {
								for _, flags := range []ws.State{0, ws.StateExtended, ws.StateFragmented, ws.StateExtended | ws.StateFragmented} {
									c := ctlCase{side, op, p, flags}
									e := e
									t.Do(func() string { return c.String() + " entry=" + e.name }, func() *explore.Fail {
										w, ret := e.run(c)
										if f := judgeReply(c, w, ret, e.name); f != nil {
											return f
										}
										t.Outcome(fmt.Sprintf("op%x", op))
										return nil
									})
								}
							}
						}
					}
				}
			}
		})

		r.Part("E2-all-close-codes", func(t *explore.T) {
			reasons := [][]byte{{}, []byte("bye"), {0xff, 0xfe}, bytes.Repeat([]byte{'z'}, 123)}
			quickEntries := []entry{es[0], es[1], es[2], es[4], es[5], es[9]}
			if t.Thorough() {
				quickEntries = es
			}
			t.Par(65536, func(code int) {
				for _, side := range []streams.Side{streams.Server, streams.Client} {
					for _, rs := range reasons {
						p := append([]byte{byte(code >> 8), byte(code)}, rs...)
						c := ctlCase{side, 8, p, []ws.State{0, ws.StateExtended, ws.StateFragmented, ws.StateExtended | ws.StateFragmented}[code%4]}
						for _, e := range quickEntries {
							e := e
							t.Do(func() string { return c.String() + " entry=" + e.name }, func() *explore.Fail {
								w, ret := e.run(c)
								if f := judgeReply(c, w, ret, e.name); f != nil {
									return f
								}
								t.Outcome(c.class())
								return nil
							})
						}
					}
				}
			})
		})

		// The destination refuses the first write of the reply with an error that calls itself
		// temporary, accepting nothing, and works afterwards. Whether the library gives up or tries
		// again is its choice; what the destination ends up holding is either nothing or exactly
		// the reply the statement asks for (one whole frame, right opcode, payload, masking).
		r.Part("E4-reply-destination-fails-once-temporarily", func(t *explore.T) {
			var cases []ctlCase
			for _, side := range []streams.Side{streams.Server, streams.Client} {
				for _, n := range []int{0, 1, 5, 125} {
					p := make([]byte, n)
					for i := range p {
						p[i] = byte(i*7 + 3)
					}
					cases = append(cases, ctlCase{side, 9, p, 0})
				}
				for _, body := range [][]byte{{}, {0x03}, {0x03, 0xe8}, append([]byte{0x03, 0xe8}, "bye"...), {0x03, 0xed}, {0x00, 0x01}, append([]byte{0x03, 0xe8}, 0xff, 0xfe), append([]byte{0x0f, 0xa0}, "app"...)} {
					cases = append(cases, ctlCase{side, 8, body, 0})
				}
			}
			type fentry struct {
				name string
				run  func(c ctlCase, d *env.Dst) error
			}
			fes := []fentry{
				{"Handle", func(c ctlCase, d *env.Dst) error {
					h := ws.Header{Fin: true, OpCode: ws.OpCode(c.op), Length: int64(len(c.payload))}
					wire := c.payload
					if c.side == streams.Server {
						h.Masked, h.Mask = true, srcMask
						wire = refmodel.XOR(c.payload, srcMask, 0)
					}
					return wsutil.ControlHandler{Src: bytes.NewReader(wire), Dst: d, State: c.st()}.Handle(h)
				}},
				{"HandleControlMessage", func(c ctlCase, d *env.Dst) error {
					return wsutil.HandleControlMessage(d, c.st(), wsutil.Message{OpCode: ws.OpCode(c.op), Payload: c.payload})
				}},
			}
			for _, c := range cases {
				for _, fe := range fes {
					for _, timeout := range []bool{false, true} {
						c, fe, timeout := c, fe, timeout
						t.Do(func() string {
							return fmt.Sprintf("%s entry=%s first destination write fails temporarily (timeout=%v)", c, fe.name, timeout)
						}, func() *explore.Fail {
							d := env.NewDst()
							d.FailAt, d.Partial, d.Transient, d.Err = 0, 0, true, env.TempErr{IsTimeout: timeout}
							if timeout && len(c.payload)%2 == 1 {
								// (for half of the cases the destination is gone for good: a broken pipe)
								d.Transient, d.Err = false, nil
							}
							ret := fe.run(c, d)
							written := d.Bytes()
							cls := c.class() + ":" + fe.name
							if c.op == 8 && len(c.payload) > 0 {
								// a close frame that is invalid beyond doubt is reported as the protocol error it
								// is, whether or not the reply could be sent
								invalid := len(c.payload) == 1
								if len(c.payload) >= 2 {
									invalid = refmodel.CloseCodeClass(uint16(c.payload[0])<<8|uint16(c.payload[1])) < 0 || !utf8.Valid(c.payload[2:])
								}
								if _, isPE := ret.(ws.ProtocolError); invalid && !isPE {
									return explore.Failf("invalid-close-not-reported-as-protocol-error-when-the-reply-fails:"+cls, "returned %T %v", ret, ret)
								}
							}
							if len(written) == 0 {
								if ret == nil {
									return explore.Failf("reply-lost-silently:"+cls, "the destination refused the reply and the handler returned nil")
								}
								t.Outcome("gave-up")
								return nil
							}
							frames, rest := drivers.ParseFrames(written)
							if len(rest) != 0 || len(frames) != 1 {
								return explore.Failf("reply-after-temporary-failure-not-one-whole-frame:"+cls, "%x", written)
							}
							f := frames[0]
							peer := refmodel.St{Client: c.side == streams.Server, Server: c.side == streams.Client}
							if broken := refmodel.CheckRules(f.H, peer); len(broken) != 0 || !f.H.Fin || f.H.Masked != (c.side == streams.Client) {
								return explore.Failf("reply-after-temporary-failure-breaks-peer-rules:"+cls, "%v %v", f.H, broken)
							}
							switch c.op {
							case 9:
								if f.H.Op != 10 || !bytes.Equal(f.Payload, c.payload) {
									return explore.Failf("reply-after-temporary-failure-wrong-pong:"+cls, "%v %x", f.H, f.Payload)
								}
							case 8:
								if f.H.Op != 8 {
									return explore.Failf("reply-after-temporary-failure-wrong-opcode:"+cls, "%v", f.H)
								}
								if len(f.Payload) == 1 || (len(f.Payload) >= 2 && !utf8.Valid(f.Payload[2:])) {
									return explore.Failf("reply-after-temporary-failure-close-body-invalid:"+cls, "%x", f.Payload)
								}
								if len(f.Payload) >= 2 {
									rc := uint16(f.Payload[0])<<8 | uint16(f.Payload[1])
									var rcvd uint16
									if len(c.payload) >= 2 {
										rcvd = uint16(c.payload[0])<<8 | uint16(c.payload[1])
									}
									if !(refmodel.CloseCodeClass(rc) > 0 || (refmodel.CloseCodeClass(rc) == 0 && rc == rcvd)) {
										return explore.Failf("reply-after-temporary-failure-close-code-invalid:"+cls, "code %d", rc)
									}
								}
							}
							t.Outcome("retried")
							return nil
						})
					}
				}
			}
		})

		r.Part("E3-ControlWriter-sequences", func(t *explore.T) {
			// negative: io.Copy of that many bytes from a plain reader into the control writer
			// (goes through the writer's ReadFrom if it has one, through Write otherwise)
			sizes := []int{0, 1, 62, 63, 64, 124, 125, 126, -1, -63, -124, -125}
			type ctor struct {
				name string
				mk   func(d io.Writer, st ws.State, op ws.OpCode) *wsutil.ControlWriter
			}
			ctors := []ctor{
				{"NewControlWriter", func(d io.Writer, st ws.State, op ws.OpCode) *wsutil.ControlWriter {
					return wsutil.NewControlWriter(d, st, op)
				}},
				// the package-level default buffer size is the application's to set; a control
				// writer's limits are not a function of it
				{"NewControlWriter/DefaultWriteBuffer=64", func(d io.Writer, st ws.State, op ws.OpCode) *wsutil.ControlWriter {
					saved := wsutil.DefaultWriteBuffer
					wsutil.DefaultWriteBuffer = 64
					defer func() { wsutil.DefaultWriteBuffer = saved }()
					return wsutil.NewControlWriter(d, st, op)
				}},
				{"NewControlWriter/DefaultWriteBuffer=16", func(d io.Writer, st ws.State, op ws.OpCode) *wsutil.ControlWriter {
					saved := wsutil.DefaultWriteBuffer
					wsutil.DefaultWriteBuffer = 16
					defer func() { wsutil.DefaultWriteBuffer = saved }()
					return wsutil.NewControlWriter(d, st, op)
				}},
				{"NewControlWriter/DefaultWriteBuffer=1<<20", func(d io.Writer, st ws.State, op ws.OpCode) *wsutil.ControlWriter {
					saved := wsutil.DefaultWriteBuffer
					wsutil.DefaultWriteBuffer = 1 << 20
					defer func() { wsutil.DefaultWriteBuffer = saved }()
					return wsutil.NewControlWriter(d, st, op)
				}},
				{"NewControlWriterBuffer/exact", func(d io.Writer, st ws.State, op ws.OpCode) *wsutil.ControlWriter {
					n := 125 + 2
					if st.ClientSide() {
						n += 4
					}
					return wsutil.NewControlWriterBuffer(d, st, op, make([]byte, n))
				}},
				{"NewControlWriterBuffer/oversize", func(d io.Writer, st ws.State, op ws.OpCode) *wsutil.ControlWriter {
					return wsutil.NewControlWriterBuffer(d, st, op, make([]byte, 4096))
				}},
				{"NewControlWriterBuffer/spare-cap", func(d io.Writer, st ws.State, op ws.OpCode) *wsutil.ControlWriter {
					// a caller buffer that is the front of a larger (pooled) array
					return wsutil.NewControlWriterBuffer(d, st, op, make([]byte, 256, 4096)[:140])
				}},
				{"NewControlWriterBuffer/small", func(d io.Writer, st ws.State, op ws.OpCode) *wsutil.ControlWriter {
					return wsutil.NewControlWriterBuffer(d, st, op, make([]byte, 70))
				}},
			}
			for _, ct := range ctors {
				for _, client := range []bool{false, true} {
					var rec func(seq []int)
					rec = func(seq []int) {
						if len(seq) > 0 {
							seq := append([]int{}, seq...)
							ct, client := ct, client
							t.Do(func() string { return fmt.Sprintf("%s client=%v writes=%v; Flush", ct.name, client, seq) }, func() *explore.Fail {
								d := env.NewDst()
								st := ws.StateServerSide
								if client {
									st = ws.StateClientSide
								}
								cw := ct.mk(d, st, ws.OpPing)
								var accepted []byte
								pos := 0
								for _, k := range seq {
									viaCopy := k < 0
									if viaCopy {
										k = -k
									}
									p := make([]byte, k)
									for i := range p {
										p[i] = byte(pos + i + 1)
									}
									before := len(d.Calls)
									var n int
									var err error
									if viaCopy {
										var n64 int64
										n64, err = io.Copy(cw, struct{ io.Reader }{bytes.NewReader(p)})
										n = int(n64)
									} else {
										n, err = cw.Write(p)
									}
									if err != nil && viaCopy && n > 0 && n <= k {
										// a copy may stop part-way: what it reports as written counts as accepted
										accepted = append(accepted, p[:n]...)
										pos += n
										if len(accepted) > 125 {
											return explore.Failf("write-beyond-limit-accepted", "accepted total %d > 125 (writes %v)", len(accepted), seq)
										}
										continue
									}
									if err != nil {
										if n != 0 {
											return explore.Failf("failed-write-accepted-bytes", "n=%d err=%v", n, err)
										}
										if len(d.Calls) != before {
											return explore.Failf("failed-write-emitted", "")
										}
										if len(accepted)+k <= 125 && ct.name != "NewControlWriterBuffer/small" {
											return explore.Failf("write-within-limit-refused", "accepted %d + %d <= 125 but err=%v", len(accepted), k, err)
										}
										continue
									}
									if n != k {
										return explore.Failf("short-write-no-error", "")
									}
									accepted = append(accepted, p...)
									pos += k
									if len(accepted) > 125 {
										return explore.Failf("write-beyond-limit-accepted", "accepted total %d > 125 (writes %v)", len(accepted), seq)
									}
								}
								if err := cw.Flush(); err != nil {
									return explore.Failf("flush-error", "%v", err)
								}
								frames, rest := drivers.ParseFrames(d.Bytes())
								if len(rest) != 0 {
									return explore.Failf("not-whole-frames", "")
								}
								var got []byte
								for _, f := range frames {
									if !f.H.Fin || f.H.Len > 125 || f.H.Op != 9 {
										return explore.Failf("oversized-or-nonfinal-control-frame", "frame %v (writes %v)", f.H, seq)
									}
									if f.H.Masked != client {
										return explore.Failf("masking", "")
									}
									got = append(got, f.Payload...)
								}
								if len(frames) > 1 {
									return explore.Failf("control-message-fragmented", "%d frames", len(frames))
								}
								if !bytes.Equal(got, accepted) {
									return explore.Failf("payload-mismatch", "got %d bytes want %d", len(got), len(accepted))
								}
								t.Outcome(fmt.Sprintf("accepted<=125:%v", len(accepted) <= 125))
								return nil
							})
						}
						if len(seq) == 3 {
							return
						}
						for _, k := range sizes {
							rec(append(seq, k))
						}
					}
					rec(nil)
				}
			}
		})
	})
}

// stripMaskKeys renders reply bytes with every frame unmasked and its key zeroed, so that two
// replies can be compared whatever random keys they carry.
func stripMaskKeys(b []byte) []byte {
	frames, rest := drivers.ParseFrames(b)
	var out []byte
	for _, f := range frames {
		out = append(out, f.H.Op, byte(len(f.Payload)))
		if f.H.Fin {
			out = append(out, 1)
		}
		if f.H.Masked {
			out = append(out, 2)
		}
		out = append(out, f.Payload...)
	}
	return append(out, rest...)
}
