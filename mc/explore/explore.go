// Package explore is the exhaustive-enumeration engine shared by all property harnesses.
//
// A property binary registers parts; each part enumerates a stated finite space completely
// (input products with Do, environment/schedule choice trees with Explore) and judges every
// execution with an oracle. The engine counts what was covered, keeps violations per
// signature with a replayable case description, re-runs each violation 5x before believing
// it, matches known findings, writes the evidence file and sets the exit code.
package explore

import (
	"crypto/sha1"
	"encoding/hex"
	"encoding/json"
	"flag"
	"fmt"
	"os"
	"path/filepath"
	"runtime"
	"runtime/debug"
	"sort"
	"strings"
	"sync"
	"sync/atomic"
	"time"

	"verifshim/vsync"
)

// Fail describes one oracle failure. Sig names the broken clause and the coarse input class
// (it is the identity used by known_findings.json); Detail is free text.
type Fail struct {
	Sig    string
	Detail string
	// Sampled marks a failure of a supplementary sampling pass (e.g. the free-running race
	// detector run): it is reported as found, without the 5x identical re-run requirement.
	Sampled bool
}

func Failf(sig, format string, a ...interface{}) *Fail {
	return &Fail{Sig: sig, Detail: fmt.Sprintf(format, a...)}
}

type violation struct {
	Part   string `json:"part"`
	Sig    string `json:"sig"`
	Case   string `json:"case"`
	Detail string `json:"detail"`
	Count  int64  `json:"count"`
	Replay string `json:"replay,omitempty"`
	Known  bool   `json:"known,omitempty"`
}

type partStats struct {
	Name         string   `json:"name"`
	Evaluations  int64    `json:"evaluations"`
	States       int64    `json:"states"`
	Transitions  int64    `json:"transitions"`
	Outcomes     int      `json:"distinct_outcomes"`
	Exhaustive   bool     `json:"exhaustive"`
	Caps         []string `json:"caps,omitempty"`
	Bound        int      `json:"bound_completed,omitempty"`
	MaxDepth     int      `json:"max_depth,omitempty"`
	Pruned       int64    `json:"pruned,omitempty"`
	WallS        float64  `json:"wall_s"`
	Note         string   `json:"note,omitempty"`
	OutcomeNames []string `json:"outcome_names,omitempty"`
}

// Run is one invocation of a property binary.
type Run struct {
	Prop     string
	Tier     string
	Seed     int64
	Workers  int
	replay   *violation // non-nil in replay mode
	partOnly string

	mu         sync.Mutex
	parts      []*partStats
	violations map[string]*violation
	samples    []string
	assume     []string
	diverged   []string
	start      time.Time
	deadline   time.Time
}

// Thorough reports whether the thorough tier was requested.
func (r *Run) Thorough() bool { return r.Tier == "thorough" }

// Pick returns q in the quick tier and t in the thorough tier.
func (r *Run) Pick(q, t int) int {
	if r.Thorough() {
		return t
	}
	return q
}

// Assume records a trusted-base statement in the evidence.
func (r *Run) Assume(s string) { r.assume = append(r.assume, s) }

// T is the per-part context. It is safe for concurrent use by Par workers.
type T struct {
	r    *Run
	name string
	st   *partStats

	evals, states, trans, pruned int64
	maxDepth                     int64

	mu       sync.Mutex
	outcomes map[string]int64
	samples  []string
	nsample  int64
	capped   int32
	capsMu   sync.Mutex
	caps     map[string]bool
	deadline time.Time
}

// Part runs one named sub-exploration.
func (r *Run) Part(name string, fn func(t *T)) {
	if r.partOnly != "" && r.partOnly != name {
		return
	}
	if r.replay != nil && r.replay.Part != name {
		return
	}
	t := &T{r: r, name: name, outcomes: map[string]int64{}, caps: map[string]bool{}}
	t.st = &partStats{Name: name, Exhaustive: true}
	t.deadline = r.deadline
	start := time.Now()
	func() {
		defer func() {
			if e := recover(); e != nil {
				if _, ok := e.(stopReplay); ok {
					return
				}
				t.fail("part-panic", &Fail{Sig: "harness-panic", Detail: fmt.Sprintf("%v\n%s", e, debug.Stack())}, nil)
			}
		}()
		fn(t)
	}()
	t.st.Evaluations = atomic.LoadInt64(&t.evals)
	t.st.States = atomic.LoadInt64(&t.states)
	t.st.Transitions = atomic.LoadInt64(&t.trans)
	t.st.Pruned = atomic.LoadInt64(&t.pruned)
	t.st.MaxDepth = int(atomic.LoadInt64(&t.maxDepth))
	t.st.Outcomes = len(t.outcomes)
	for k := range t.outcomes {
		t.st.OutcomeNames = append(t.st.OutcomeNames, k)
	}
	sort.Strings(t.st.OutcomeNames)
	if len(t.st.OutcomeNames) > 24 {
		t.st.OutcomeNames = t.st.OutcomeNames[:24]
	}
	for c := range t.caps {
		t.st.Caps = append(t.st.Caps, c)
		t.st.Exhaustive = false
	}
	sort.Strings(t.st.Caps)
	t.st.WallS = time.Since(start).Seconds()
	r.mu.Lock()
	r.parts = append(r.parts, t.st)
	for _, s := range t.samples {
		if len(r.samples) < 40 {
			r.samples = append(r.samples, name+": "+s)
		}
	}
	r.mu.Unlock()
	if r.replay == nil {
		fmt.Printf("  part %-28s evals=%-10d states=%-10d transitions=%-11d outcomes=%-4d exhaustive=%v %.1fs\n",
			name, t.st.Evaluations, t.st.States, t.st.Transitions, t.st.Outcomes, t.st.Exhaustive, t.st.WallS)
	}
}

type stopReplay struct{}

// Thorough / Pick forwarders.
func (t *T) Thorough() bool     { return t.r.Thorough() }
func (t *T) Pick(q, th int) int { return t.r.Pick(q, th) }
func (t *T) Replaying() bool    { return t.r.replay != nil }

// Note attaches free text to the part's evidence.
func (t *T) Note(s string) { t.st.Note = s }

// Bound records the deviation bound completed by this part.
func (t *T) Bound(b int) { t.st.Bound = b }

// Cap records that a cap was hit: the part is then reported exhaustive:false.
func (t *T) Cap(what string) {
	t.capsMu.Lock()
	t.caps[what] = true
	t.capsMu.Unlock()
	atomic.StoreInt32(&t.capped, 1)
}

// Expired reports whether the part's time budget has run out (callers then Cap and stop).
func (t *T) Expired() bool {
	if t.deadline.IsZero() {
		return false
	}
	if time.Now().After(t.deadline) {
		t.Cap("time budget")
		return true
	}
	return false
}

// Count adds abstract states and transitions measured by the harness.
func (t *T) Count(states, transitions int64) {
	atomic.AddInt64(&t.states, states)
	atomic.AddInt64(&t.trans, transitions)
}

// Outcome records the outcome class of one execution (vacuity detection).
func (t *T) Outcome(o string) {
	t.mu.Lock()
	t.outcomes[o]++
	t.mu.Unlock()
}

// Sample keeps a few rendered cases for the evidence file.
func (t *T) Sample(f func() string) {
	n := atomic.AddInt64(&t.nsample, 1)
	if n <= 3 || (n&(n-1)) == 0 && n <= 1<<22 {
		s := f()
		t.mu.Lock()
		if len(t.samples) < 12 {
			t.samples = append(t.samples, s)
		}
		t.mu.Unlock()
	}
}

// Do executes one case of an input product: one abstract state, one transition.
// desc renders the case (lazily); check returns nil when the oracle holds.
func (t *T) Do(desc func() string, check func() *Fail) {
	if rp := t.r.replay; rp != nil {
		if desc() != rp.Case {
			return
		}
		f := t.safe(check)
		t.reportReplay(desc(), f)
		panic(stopReplay{})
	}
	atomic.AddInt64(&t.evals, 1)
	atomic.AddInt64(&t.states, 1)
	atomic.AddInt64(&t.trans, 1)
	f := t.safe(check)
	atomic.AddInt64(&progress, 1)
	if f != nil {
		t.fail(desc(), f, check)
	} else {
		t.Sample(desc)
	}
}

// DoN is Do for a case that itself covers n abstract states/transitions (an inner loop that
// the harness runs without per-item bookkeeping).
func (t *T) DoN(n int64, desc func() string, check func() *Fail) {
	if rp := t.r.replay; rp != nil {
		if desc() != rp.Case {
			return
		}
		f := t.safe(check)
		t.reportReplay(desc(), f)
		panic(stopReplay{})
	}
	atomic.AddInt64(&t.evals, n)
	atomic.AddInt64(&t.states, n)
	atomic.AddInt64(&t.trans, n)
	f := t.safe(check)
	atomic.AddInt64(&progress, 1)
	if f != nil {
		t.fail(desc(), f, check)
	} else {
		t.Sample(desc)
	}
}

func (t *T) safe(check func() *Fail) (f *Fail) {
	defer func() {
		if e := recover(); e != nil {
			st := string(debug.Stack())
			f = &Fail{Sig: "panic:" + panicSite(st), Detail: fmt.Sprintf("panic: %v\n%s", e, trimStack(st))}
		}
	}()
	f = check()
	if f == nil {
		f = doublePut()
	}
	return f
}

// panicSite extracts the first frame inside gobwas/ws (or the harness) below the panic.
func panicSite(st string) string {
	lines := strings.Split(st, "\n")
	seenPanic := false
	for i := 0; i < len(lines); i++ {
		l := lines[i]
		if strings.HasPrefix(l, "panic(") {
			seenPanic = true
			continue
		}
		if !seenPanic {
			continue
		}
		if strings.HasPrefix(l, "github.com/gobwas/") {
			fn := l
			if j := strings.LastIndex(fn, "("); j > 0 {
				fn = fn[:j]
			}
			return strings.TrimPrefix(fn, "github.com/gobwas/")
		}
	}
	return "unknown"
}

func trimStack(st string) string {
	lines := strings.Split(st, "\n")
	if len(lines) > 30 {
		lines = lines[:30]
	}
	return strings.Join(lines, "\n")
}

func (t *T) reportReplay(desc string, f *Fail) {
	if f == nil {
		fmt.Printf("REPLAY property=%s part=%s case=%q -> oracle holds (no violation)\n", t.r.Prop, t.name, desc)
		return
	}
	fmt.Printf("REPLAY property=%s part=%s case=%q -> VIOLATES sig=%s\n%s\n", t.r.Prop, t.name, desc, f.Sig, f.Detail)
	t.r.mu.Lock()
	t.r.violations[f.Sig] = &violation{Part: t.name, Sig: f.Sig, Case: desc, Detail: f.Detail, Count: 1}
	t.r.mu.Unlock()
}

// fail records a violation; recheck (if non-nil) is re-run 5x and must fail identically.
func (t *T) fail(desc string, f *Fail, recheck func() *Fail) {
	sig := t.name + "/" + f.Sig
	t.r.mu.Lock()
	v, ok := t.r.violations[sig]
	if ok {
		v.Count++
		// keep the shortest, then lexicographically smallest case: the simplest counterexample
		if len(desc) < len(v.Case) {
			v.Case, v.Detail = desc, f.Detail
		}
		t.r.mu.Unlock()
		return
	}
	v = &violation{Part: t.name, Sig: sig, Case: desc, Detail: f.Detail, Count: 1}
	t.r.violations[sig] = v
	t.r.mu.Unlock()
	if recheck != nil && !f.Sampled && !strings.HasPrefix(f.Sig, "hang:") {
		for i := 0; i < 5; i++ {
			g := t.safe(recheck)
			if g == nil {
				// The same case passed on a re-run. The harness feeds every case the same inputs
				// (no clocks, no shared harness state; the unchanged tree has never shown this), so
				// the library's answer depends on something that outlives a case: a process-wide
				// cache, pool or default that an earlier case left in another state. The observed
				// failure stands as a violation; the note tells the reader that replaying this case
				// alone may pass.
				t.r.mu.Lock()
				v.Detail += fmt.Sprintf("\n(note: observed once; re-run %d of the same case passed - the outcome depends on state that outlives a case, e.g. a process-wide cache, pool or default value inside the library)", i)
				t.r.mu.Unlock()
				return
			}
			// failing every time but under another signature (e.g. the wire is corrupted by
			// bytes that depend on a random mask): still a violation; the first signature stands
			if g.Sig != f.Sig {
				t.r.mu.Lock()
				v.Detail += fmt.Sprintf("\n(note: re-run %d failed with signature %q)", i, g.Sig)
				t.r.mu.Unlock()
			}
		}
	}
}

// Par runs fn(i) for i in [0,n) on the run's workers.
func (t *T) Par(n int, fn func(i int)) {
	w := t.r.Workers
	if t.r.replay != nil || w <= 1 || n <= 1 {
		for i := 0; i < n; i++ {
			fn(i)
		}
		return
	}
	var next int64 = -1
	var wg sync.WaitGroup
	var pmu sync.Mutex
	var pval interface{}
	for k := 0; k < w; k++ {
		wg.Add(1)
		go func() {
			defer wg.Done()
			defer func() {
				if e := recover(); e != nil {
					pmu.Lock()
					if pval == nil {
						pval = fmt.Sprintf("%v\n%s", e, debug.Stack())
					}
					pmu.Unlock()
				}
			}()
			for {
				i := int(atomic.AddInt64(&next, 1))
				if i >= n {
					return
				}
				fn(i)
			}
		}()
	}
	wg.Wait()
	if pval != nil {
		panic(pval)
	}
}

// ---------------------------------------------------------------------------------------
// Choice-tree exploration (environment answers, faults, schedules).

// Chooser hands out the nondeterministic choices of one execution.
type Chooser struct {
	prefix  []int
	choices []int
	arity   []int
	costs   []int
	labels  []string
	keys    map[string]int // shared across executions of one Explore call
	cost    int
	pruned  bool
	useKeys bool
	t       *T
}

type prunedErr struct{}
type divergeErr struct{ msg string }

// Choose returns a value in [0,n); 0 is the default; a non-default costs `cost` deviations.
func (c *Chooser) Choose(n int, cost int, label string) int {
	if n <= 0 {
		panic(divergeErr{fmt.Sprintf("Choose(%d) at %s", n, label)})
	}
	i := len(c.choices)
	v := 0
	if i < len(c.prefix) {
		v = c.prefix[i]
		if v >= n {
			panic(divergeErr{fmt.Sprintf("replayed choice %d out of range %d at point %d (%s)", v, n, i, label)})
		}
	}
	c.choices = append(c.choices, v)
	c.arity = append(c.arity, n)
	c.costs = append(c.costs, cost)
	c.labels = append(c.labels, label)
	if v != 0 {
		c.cost += cost
	}
	return v
}

// Key declares the canonical state at the *next* choice point. When the state was reached
// before (beyond the replayed prefix) the execution is pruned: equal keys have equal futures.
func (c *Chooser) Key(k string) {
	if !c.useKeys {
		return
	}
	i := len(c.choices)
	if i < len(c.prefix) {
		return
	}
	if prev, ok := c.keys[k]; ok && prev <= c.cost {
		c.pruned = true
		panic(prunedErr{})
	}
	c.keys[k] = c.cost
}

// Trace renders the choices taken so far.
func (c *Chooser) Trace() string {
	var b strings.Builder
	for i, v := range c.choices {
		if i > 0 {
			b.WriteByte(' ')
		}
		fmt.Fprintf(&b, "%s=%d/%d", c.labels[i], v, c.arity[i])
	}
	return b.String()
}

// ExploreOpts bounds a choice-tree exploration.
type ExploreOpts struct {
	Bound   int  // maximal total deviation cost; <0 means unbounded
	UseKeys bool // state-key pruning
	MaxExec int64
}

// Explore enumerates every choice vector of run within opts by stateless DFS with replay.
// desc names the scenario; a violating execution is reported as desc + " @ " + choice vector.
func (t *T) Explore(desc string, opts ExploreOpts, run func(c *Chooser) *Fail) (execs int64) {
	if rp := t.r.replay; rp != nil {
		pre := desc + " @ "
		if !strings.HasPrefix(rp.Case, pre) {
			return 0
		}
		vec := parseVec(rp.Case[len(pre):])
		c := &Chooser{prefix: vec, t: t, keys: map[string]int{}}
		f := t.exec(c, run)
		t.reportReplay(rp.Case, f)
		panic(stopReplay{})
	}
	keys := map[string]int{}
	var stack [][]int
	stack = append(stack, nil)
	for len(stack) > 0 {
		prefix := stack[len(stack)-1]
		stack = stack[:len(stack)-1]
		if opts.MaxExec > 0 && execs >= opts.MaxExec {
			t.Cap(fmt.Sprintf("max executions %d", opts.MaxExec))
			break
		}
		if execs&0xff == 0 && t.Expired() {
			break
		}
		c := &Chooser{prefix: prefix, t: t, keys: keys, useKeys: opts.UseKeys}
		f := t.exec(c, run)
		execs++
		atomic.AddInt64(&progress, 1)
		atomic.AddInt64(&t.evals, 1)
		atomic.AddInt64(&t.trans, int64(len(c.choices)-len(prefix))+1)
		if d := int64(len(c.choices)); d > atomic.LoadInt64(&t.maxDepth) {
			atomic.StoreInt64(&t.maxDepth, d)
		}
		if c.pruned {
			atomic.AddInt64(&t.pruned, 1)
		} else if !opts.UseKeys {
			atomic.AddInt64(&t.states, 1)
		}
		if f != nil {
			full := desc + " @ " + fmtVec(c.choices) + "  [" + c.Trace() + "]"
			vec := append([]int(nil), c.choices...)
			t.fail(full, f, func() *Fail {
				return t.exec(&Chooser{prefix: vec, t: t, keys: map[string]int{}}, run)
			})
		} else if !c.pruned {
			t.Sample(func() string { return desc + " @ " + fmtVec(c.choices) + "  [" + c.Trace() + "]" })
		}
		// expand alternatives at the new points (in reverse so the DFS visits low indices first)
		cost := 0
		for i := 0; i < len(prefix) && i < len(c.choices); i++ {
			if c.choices[i] != 0 {
				cost += c.costs[i]
			}
		}
		type alt struct {
			i, v int
		}
		var alts []alt
		base := cost
		for i := len(prefix); i < len(c.choices); i++ {
			for v := 1; v < c.arity[i]; v++ {
				if opts.Bound >= 0 && base+c.costs[i] > opts.Bound {
					continue
				}
				alts = append(alts, alt{i, v})
			}
			// choices beyond the prefix are all 0 (default) so run cost is unchanged
		}
		for k := len(alts) - 1; k >= 0; k-- {
			a := alts[k]
			np := make([]int, a.i+1)
			copy(np, c.choices[:a.i])
			np[a.i] = a.v
			stack = append(stack, np)
		}
	}
	if opts.UseKeys {
		atomic.AddInt64(&t.states, int64(len(keys)))
	}
	return execs
}

func (t *T) exec(c *Chooser, run func(c *Chooser) *Fail) (f *Fail) {
	defer func() {
		if e := recover(); e != nil {
			switch x := e.(type) {
			case prunedErr:
				f = nil
			case divergeErr:
				t.r.mu.Lock()
				t.r.diverged = append(t.r.diverged, t.name+": "+x.msg)
				t.r.mu.Unlock()
				f = nil
			default:
				st := string(debug.Stack())
				f = &Fail{Sig: "panic:" + panicSite(st), Detail: fmt.Sprintf("panic: %v\n%s", e, trimStack(st))}
			}
		}
	}()
	f = run(c)
	if f == nil {
		f = doublePut()
	}
	return f
}

// doublePut turns a pooled object that was put into its pool twice during the case (seen by the
// pool shim) into a failure: two later owners would share it.
func doublePut() *Fail {
	if note, ok := vsync.TakeDoublePut(); ok {
		return &Fail{Sig: "pooled-object-put-into-its-pool-twice", Detail: note}
	}
	return nil
}

func fmtVec(v []int) string {
	var b strings.Builder
	b.WriteByte('[')
	for i, x := range v {
		if i > 0 {
			b.WriteByte(',')
		}
		fmt.Fprintf(&b, "%d", x)
	}
	b.WriteByte(']')
	return b.String()
}

func parseVec(s string) []int {
	i := strings.Index(s, "]")
	if i < 0 {
		return nil
	}
	s = strings.TrimPrefix(s[:i], "[")
	if s == "" {
		return nil
	}
	var out []int
	for _, p := range strings.Split(s, ",") {
		var x int
		fmt.Sscanf(p, "%d", &x)
		out = append(out, x)
	}
	return out
}

// ---------------------------------------------------------------------------------------
// Main, evidence and known findings.

type knownFile struct {
	Known []struct {
		Property string `json:"property"`
		Sig      string `json:"sig"`
		What     string `json:"what"`
	} `json:"known"`
	Fixed []string `json:"fixed"`
}

func verifDir() string {
	if d := os.Getenv("VERIF_DIR"); d != "" {
		return d
	}
	return "/verif"
}

// Main is the entry point of every property binary.
func Main(prop string, register func(r *Run)) {
	tier := flag.String("tier", os.Getenv("VERIF_TIER"), "quick|thorough")
	replay := flag.String("replay", "", "replay file")
	part := flag.String("part", "", "run only this part")
	workers := flag.Int("workers", runtime.NumCPU(), "parallel workers")
	budget := flag.Duration("budget", 0, "time budget (0 = tier default)")
	noEvidence := flag.Bool("no-evidence", false, "do not write the evidence file")
	flag.Parse()
	if *tier == "" {
		*tier = "quick"
	}
	if *tier != "quick" && *tier != "thorough" {
		fmt.Fprintln(os.Stderr, "bad tier", *tier)
		os.Exit(2)
	}
	var seed int64
	fmt.Sscanf(os.Getenv("VERIF_SEED"), "%d", &seed)
	r := &Run{Prop: prop, Tier: *tier, Seed: seed, Workers: *workers, partOnly: *part,
		violations: map[string]*violation{}, start: time.Now()}
	b := *budget
	if b == 0 {
		// safety nets only: the quick tier normally takes 1..80 s per property, the thorough one
		// up to an hour; a loaded or slower machine must not turn a pass into a capped run
		if *tier == "quick" {
			b = 20 * time.Minute
		} else {
			b = 90 * time.Minute
		}
	}
	r.deadline = r.start.Add(b)
	if *replay != "" {
		data, err := os.ReadFile(*replay)
		if err != nil {
			fmt.Fprintln(os.Stderr, "replay:", err)
			os.Exit(2)
		}
		var v violation
		if err := json.Unmarshal(data, &v); err != nil {
			fmt.Fprintln(os.Stderr, "replay:", err)
			os.Exit(2)
		}
		v.Sig = strings.TrimPrefix(v.Sig, v.Part+"/")
		r.replay = &v
		r.deadline = time.Time{}
		register(r)
		if len(r.violations) > 0 {
			fmt.Printf("VIOLATION property=%s replay=%s\n", prop, *replay)
			os.Exit(1)
		}
		os.Exit(0)
	}
	fmt.Printf("== %s tier=%s workers=%d\n", prop, *tier, r.Workers)
	// pooled objects are never shared between the parallel workers of a sequential check and
	// are poisoned when the library puts them back (C17/C18/C19 select their own modes)
	vsync.SetMode(vsync.FreshPoison)
	go r.watchdog(*tier)
	register(r)
	code := r.finish(!*noEvidence)
	os.Exit(code)
}

// progress is bumped by every completed case / execution of the running part.
var progress int64

// watchdog turns a check that stops making progress into a reported violation instead of a
// process that has to be killed from outside: if no case completes for a long time (5 min
// quick, 15 min thorough; single cases take micro- to milliseconds) some call into the
// library does not return. The goroutine dump names the function that is spinning.
func (r *Run) watchdog(tier string) {
	limit := 5 * time.Minute
	if tier == "thorough" {
		limit = 15 * time.Minute
	}
	last := atomic.LoadInt64(&progress)
	lastChange := time.Now()
	for {
		time.Sleep(5 * time.Second)
		cur := atomic.LoadInt64(&progress)
		if cur != last {
			last, lastChange = cur, time.Now()
			continue
		}
		if time.Since(lastChange) < limit {
			continue
		}
		buf := make([]byte, 1<<20)
		n := runtime.Stack(buf, true)
		dump := string(buf[:n])
		site := "unknown"
		for _, l := range strings.Split(dump, "\n") {
			if strings.HasPrefix(l, "github.com/gobwas/ws") {
				site = strings.TrimPrefix(l, "github.com/gobwas/")
				if j := strings.LastIndex(site, "("); j > 0 {
					site = site[:j]
				}
				break
			}
		}
		r.mu.Lock()
		r.violations["hang:"+site] = &violation{Part: "(watchdog)", Sig: "hang:" + site, Case: "no case completed for " + limit.String(),
			Detail: "a call into the library does not return; goroutines:\n" + firstLines(dump, 60), Count: 1}
		r.parts = append(r.parts, &partStats{Name: "(interrupted by watchdog)", Evaluations: cur, States: 1, Transitions: 1, Exhaustive: false, Caps: []string{"hang"}})
		r.mu.Unlock()
		code := r.finish(true)
		if code == 0 {
			code = 1
		}
		os.Exit(code)
	}
}

func (r *Run) finish(writeEvidence bool) int {
	dir := verifDir()
	var kf knownFile
	if data, err := os.ReadFile(filepath.Join(dir, "known_findings.json")); err == nil {
		if err := json.Unmarshal(data, &kf); err != nil {
			fmt.Fprintln(os.Stderr, "known_findings.json:", err)
			return 2
		}
	}
	known := map[string]string{}
	for _, k := range kf.Known {
		if k.Property == r.Prop {
			known[k.Sig] = k.What
		}
	}
	var vs []*violation
	for _, v := range r.violations {
		vs = append(vs, v)
	}
	sort.Slice(vs, func(i, j int) bool { return vs[i].Sig < vs[j].Sig })
	newV := 0
	// replay files describe a violation on the tree that was checked; evaluations of deliberately
	// changed scratch trees (seeded/eval.sh, mutants/run.sh) send theirs elsewhere
	replayDir := filepath.Join(dir, "evidence", "replays")
	if d := os.Getenv("VERIF_REPLAY_DIR"); d != "" {
		replayDir = d
	}
	os.MkdirAll(replayDir, 0o755)
	for _, v := range vs {
		if what, ok := known[v.Sig]; ok {
			v.Known = true
			fmt.Printf("KNOWN-FINDING: property=%s %s [%s] (%d cases; e.g. %s)\n", r.Prop, what, v.Sig, v.Count, v.Case)
			continue
		}
		newV++
		h := sha1.Sum([]byte(v.Sig))
		path := filepath.Join(replayDir, fmt.Sprintf("%s-%s.json", r.Prop, hex.EncodeToString(h[:5])))
		v.Replay = path
		data, _ := json.MarshalIndent(map[string]interface{}{
			"property": r.Prop, "part": v.Part, "sig": v.Sig, "case": v.Case, "detail": v.Detail, "count": v.Count,
			"replay_cmd": fmt.Sprintf("cd /verif && ./vcheck %s --replay %s", r.Prop, path),
		}, "", " ")
		os.WriteFile(path, data, 0o644)
		fmt.Printf("  violation sig=%s count=%d\n    case: %s\n    %s\n", v.Sig, v.Count, v.Case, firstLines(v.Detail, 6))
		fmt.Printf("VIOLATION property=%s replay=%s\n", r.Prop, path)
	}
	// totals
	var ev, st, tr int64
	exhaustive := true
	outcomes := 0
	var caps []string
	vacuous := []string{}
	for _, p := range r.parts {
		ev += p.Evaluations
		st += p.States
		tr += p.Transitions
		outcomes += p.Outcomes
		if !p.Exhaustive {
			exhaustive = false
			for _, c := range p.Caps {
				caps = append(caps, p.Name+": "+c)
			}
		}
		if p.Evaluations == 0 && p.Exhaustive {
			// (a part that did nothing because the run's time budget had already run out is
			// reported as capped - exhaustive:false - not as a broken harness)
			vacuous = append(vacuous, p.Name+": no executions")
		}
	}
	if st < 1 {
		st = 1
	}
	if tr < 1 {
		tr = 1
	}
	samples := make([]interface{}, 0, len(r.samples))
	for _, s := range r.samples {
		samples = append(samples, s)
	}
	if len(samples) == 0 {
		samples = append(samples, "(no sample recorded)")
	}
	evd := map[string]interface{}{
		"property_id": r.Prop,
		"tier":        r.Tier,
		"seed":        r.Seed,
		"level":       "model_checking",
		"coverage": map[string]interface{}{
			"states":                        st,
			"transitions":                   tr,
			"traces_validated_against_impl": ev,
			"evaluations":                   ev,
			"distinct_nontrivial":           outcomes,
			"rule":                          "every execution is a run of the real gobwas/ws code on one enumerated case; states = distinct abstract cases / state keys, transitions = choice points or cases executed; distinct_nontrivial = distinct oracle outcome classes summed over parts",
			"samples":                       samples,
			"exhaustive":                    exhaustive,
			"caps":                          caps,
			"parts":                         r.parts,
		},
		"assumptions": append([]string{
			"every trace is an execution of the implementation built from the current /repo tree (no separate model)",
			"Go 1.23.5 toolchain, compress/flate, unicode/utf8, crypto/sha1, net/http are trusted",
		}, r.assume...),
		"wall_s":     time.Since(r.start).Seconds(),
		"violations": newV,
		"findings":   vs,
	}
	if writeEvidence {
		data, _ := json.MarshalIndent(evd, "", " ")
		if err := os.WriteFile(filepath.Join(dir, "evidence", r.Prop+".json"), data, 0o644); err != nil {
			fmt.Fprintln(os.Stderr, "evidence:", err)
			return 2
		}
	}
	fmt.Printf("== %s: executions=%d states=%d transitions=%d exhaustive=%v violations=%d known=%d wall=%.1fs\n",
		r.Prop, ev, st, tr, exhaustive, newV, len(vs)-newV, time.Since(r.start).Seconds())
	if len(r.diverged) > 0 {
		for _, d := range r.diverged {
			fmt.Fprintln(os.Stderr, "DIVERGENCE:", d)
		}
		return 2
	}
	if len(vacuous) > 0 {
		for _, d := range vacuous {
			fmt.Fprintln(os.Stderr, "VACUOUS:", d)
		}
		return 2
	}
	if newV > 0 {
		return 1
	}
	return 0
}

func firstLines(s string, n int) string {
	l := strings.Split(s, "\n")
	if len(l) > n {
		l = l[:n]
	}
	return strings.Join(l, "\n    ")
}

// StatesSoFar returns the states counted so far in this part.
func (t *T) StatesSoFar() int64 { return atomic.LoadInt64(&t.states) }

var (
	hangMu   sync.Mutex
	hangSeen = map[string]bool{}
)

// WithTimeout runs fn on its own goroutine and reports whether it finished within d. A
// function that does not come back is a hang of the code under test (the goroutine cannot be
// stopped; it is left spinning until the process exits). Callers use a generous d and
// confirm with one more attempt before reporting, so that a loaded machine cannot produce a
// false alarm.
func WithTimeout(d time.Duration, fn func()) (finished bool) {
	done := make(chan struct{})
	go func() {
		defer func() {
			recover()
			close(done)
		}()
		fn()
	}()
	select {
	case <-done:
		return true
	case <-time.After(d):
		return false
	}
}

// Hang runs fn under WithTimeout; on a timeout it tries once more with twice the time and
// only then returns a Fail with signature "hang:"+what.
func Hang(what string, d time.Duration, fn func()) *Fail {
	hangMu.Lock()
	seen := hangSeen[what]
	hangMu.Unlock()
	if seen {
		// one established hang per entry point is enough: every further one would leave
		// another goroutine spinning and cost the full timeout again
		return nil
	}
	if WithTimeout(d, fn) {
		return nil
	}
	if WithTimeout(2*d, fn) {
		return nil
	}
	hangMu.Lock()
	hangSeen[what] = true
	hangMu.Unlock()
	return &Fail{Sig: "hang:" + what, Detail: fmt.Sprintf("no return within %v (and within %v on a second attempt): the call loops without consuming input", d, 2*d), Sampled: true}
}

// Progress lets a harness that waits on a subprocess tell the watchdog that work is going on.
func Progress() { atomic.AddInt64(&progress, 1) }
