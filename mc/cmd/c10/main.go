// C10: the client handshake sends a compliant request and accepts only a valid 101.
package main

import (
	"bufio"
	"bytes"
	"context"
	"encoding/base64"
	"fmt"
	"net"
	"net/http"
	"net/url"
	"strings"
	"time"

	"github.com/gobwas/ws"

	"verifmc/explore"
	"verifmc/hs"
)

var urls = []string{
	"ws://h", "ws://h/", "ws://h:8080/p?q=1", "wss://h", "wss://h:8443/x", "ws://[::1]/", "ws://[::1]:99/a", "ws://h/%20a?b=%2F",
	"wss://[fe80::1]/z", "ws://example.com:80/", "ws://h?x=1",
}

type fakeConn struct {
	net.Conn
	buf bytes.Buffer
}

func (f *fakeConn) Write(p []byte) (int, error)        { return f.buf.Write(p) }
func (f *fakeConn) Read(p []byte) (int, error)         { return 0, fmt.Errorf("peer: no answer") }
func (f *fakeConn) Close() error                       { return nil }
func (f *fakeConn) SetDeadline(time.Time) error        { return nil }
func (f *fakeConn) SetReadDeadline(time.Time) error    { return nil }
func (f *fakeConn) SetWriteDeadline(time.Time) error   { return nil }

func main() {
	explore.Main("C10", func(r *explore.Run) {
		var cfgs []hs.DialCfg
		hs.EnumReq(hs.DialFields, 5, func(q hs.Req) { cfgs = append(cfgs, hs.DialCfg(q)) })

		r.Part("E1-request-and-dial-target", func(t *explore.T) {
			seenKeys := map[string]bool{}
			dup := 0
			for _, us := range urls {
				for _, c := range cfgs {
					us, c := us, c
					t.Do(func() string { return fmt.Sprintf("url=%s dialer{%s}", us, c) }, func() *explore.Fail {
						u, err := url.ParseRequestURI(us)
						if err != nil {
							return explore.Failf("harness-url", "%v", err)
						}
						d := c.Dialer()
						var network, addr, tlsHost string
						tlsCalls := 0
						fc := &fakeConn{}
						d.NetDial = func(ctx context.Context, n, a string) (net.Conn, error) {
							network, addr = n, a
							return fc, nil
						}
						d.TLSClient = func(conn net.Conn, hostname string) net.Conn {
							tlsCalls++
							tlsHost = hostname
							return conn
						}
						_, _, _, derr := d.Dial(context.Background(), us)
						if derr == nil {
							return explore.Failf("dial-succeeds-without-response", "")
						}
						// dial target
						host := u.Hostname()
						port := u.Port()
						wantTLS := u.Scheme == "wss"
						if port == "" {
							port = "80"
							if wantTLS {
								port = "443"
							}
						}
						wantAddr := net.JoinHostPort(host, port)
						if network != "tcp" || addr != wantAddr {
							return explore.Failf("dial-target", "dialed (%q,%q) want (tcp,%q)", network, addr, wantAddr)
						}
						if wantTLS != (tlsCalls == 1) {
							return explore.Failf("tls-usage", "scheme %s tls calls %d", u.Scheme, tlsCalls)
						}
						if wantTLS {
							wantHost := u.Host
							if i := strings.LastIndex(wantHost, ":"); i > strings.Index(wantHost, "]") {
								wantHost = wantHost[:i]
							}
							if tlsHost != wantHost {
								return explore.Failf("tls-hostname", "got %q want %q", tlsHost, wantHost)
							}
						}
						// request bytes
						req := fc.buf.Bytes()
						h := hs.ParseHead(req)
						if !h.OK || len(h.Rest) != 0 {
							return explore.Failf("request-malformed", "%q", req)
						}
						if h.Line[0] != "GET" || h.Line[1] != u.RequestURI() || h.Line[2] != "HTTP/1.1" {
							return explore.Failf("request-line", "%q want GET %s HTTP/1.1", h.Line, u.RequestURI())
						}
						hr, err := http.ReadRequest(bufio.NewReader(bytes.NewReader(req)))
						if err != nil {
							return explore.Failf("request-refused-by-net/http", "%v", err)
						}
						wantHostHdr := u.Host
						if c.V("host") != "" {
							wantHostHdr = c.V("host")
						}
						one := func(name, want string, fold bool) *explore.Fail {
							g := h.Get(name)
							if len(g) != 1 {
								return explore.Failf("request-header-count:"+name, "%v", g)
							}
							if g[0] != want && !(fold && strings.EqualFold(g[0], want)) {
								return explore.Failf("request-header-value:"+name, "got %q want %q", g[0], want)
							}
							return nil
						}
						for _, x := range []struct {
							n, w string
							f    bool
						}{{"Host", wantHostHdr, false}, {"Upgrade", "websocket", true}, {"Connection", "Upgrade", true}, {"Sec-WebSocket-Version", "13", false}} {
							if f := one(x.n, x.w, x.f); f != nil {
								return f
							}
						}
						if hr.Host != wantHostHdr {
							return explore.Failf("request-host-net/http", "%q", hr.Host)
						}
						keys := h.Get("Sec-WebSocket-Key")
						if len(keys) != 1 {
							return explore.Failf("request-key-count", "%v", keys)
						}
						raw, err := base64.StdEncoding.DecodeString(keys[0])
						if err != nil || len(raw) != 16 || len(keys[0]) != 24 {
							return explore.Failf("request-key-not-16-bytes", "%q", keys[0])
						}
						if seenKeys[keys[0]] {
							dup++
						}
						seenKeys[keys[0]] = true
						gp := h.Get("Sec-WebSocket-Protocol")
						if ps := c.Protocols(); len(ps) == 0 {
							if len(gp) != 0 {
								return explore.Failf("request-protocol-unexpected", "%v", gp)
							}
						} else if len(gp) != 1 || strings.Join(hs.Tokens(gp[0]), ",") != strings.Join(ps, ",") {
							return explore.Failf("request-protocols", "got %v want %v", gp, ps)
						}
						ge := h.Get("Sec-WebSocket-Extensions")
						if xs := c.ExtNames(); len(xs) == 0 {
							if len(ge) != 0 {
								return explore.Failf("request-extensions-unexpected", "%v", ge)
							}
						} else {
							if len(ge) != 1 || strings.Join(hs.ExtNames(ge[0]), ",") != strings.Join(xs, ",") {
								return explore.Failf("request-extensions", "got %v want %v", ge, xs)
							}
							if c.V("extensions") == "x,y;q=2" && !strings.Contains(strings.ReplaceAll(ge[0], " ", ""), "y;q=2") {
								return explore.Failf("request-extension-params", "%v", ge)
							}
						}
						if c.V("header") == "one" {
							if g := h.Get("X-Client"); len(g) != 1 || g[0] != "verif" {
								return explore.Failf("request-extra-header", "%v", g)
							}
						}
						t.Outcome(u.Scheme)
						return nil
					})
				}
			}
			t.Do(func() string { return "keys of all dials pairwise distinct" }, func() *explore.Fail {
				if dup > 0 {
					return explore.Failf("key-repeated", "%d repeated keys among %d dials", dup, len(seenKeys))
				}
				return nil
			})
		})

		r.Part("E2-response-grammar", func(t *explore.T) {
			k := t.Pick(2, 3)
			t.Bound(k)
			var resps []hs.Resp
			hs.EnumReq(hs.RespFields, k, func(q hs.Req) { resps = append(resps, hs.Resp(q)) })
			var dcs []hs.DialCfg
			hs.EnumReq(hs.DialFields[:3], 3, func(q hs.Req) { dcs = append(dcs, hs.DialCfg(append(q, 0, 0))) })
			u, _ := url.ParseRequestURI("ws://example.com/chat")
			t.Par(len(resps), func(i int) {
				rs := resps[i]
				for _, c := range dcs {
					c := c
					t.Do(func() string { return fmt.Sprintf("response{%s} dialer{%s}", rs, c) }, func() *explore.Fail {
						res := hs.RunDialer(c.Dialer(), c, rs, u, nil)
						sig, detail := hs.JudgeClient(rs, c, res)
						if sig != "" {
							return explore.Failf(sig, "%s", detail)
						}
						t.Outcome(detail)
						return nil
					})
				}
			})
			t.Note(fmt.Sprintf("response grammar of 12 fields, every response with <=%d non-canonical fields (%d) x %d dialer configurations (protocols x extensions x read buffer)", k, len(resps), len(dcs)))
		})
	})
}

var _ = ws.StateClientSide
