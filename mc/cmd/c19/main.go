// C19: concurrent connections do not interfere through the library's shared pools.
package main

import (
	"bufio"
	"bytes"
	"compress/flate"
	"context"
	"crypto/sha1"
	"fmt"
	"io"
	"net"
	"net/url"
	"os"
	"os/exec"
	"runtime"
	"sort"
	"strconv"
	"strings"
	"sync"
	"time"

	"github.com/gobwas/httphead"
	"github.com/gobwas/ws"
	"github.com/gobwas/ws/wsflate"
	"github.com/gobwas/ws/wsutil"
	"verifshim/vsync"

	"verifmc/drivers"
	"verifmc/env"
	"verifmc/explore"
	"verifmc/hs"
	"verifmc/refmodel"
	"verifmc/sched"
)

type logger interface {
	Logf(format string, a ...interface{})
	Yield()
}

type soloLog struct{ lines []string }

func (s *soloLog) Yield() {}

// thLog adapts a scheduler thread: I/O on the session's own connection is a scheduling
// point too (a goroutine can be descheduled in any Read or Write).
type thLog struct {
	*sched.Thread
	s *sched.Sched
}

func (t thLog) Yield() { t.s.Point() }

// yDst / ySrc are the session's connection ends; every call yields to the scheduler first.
type yDst struct {
	*env.Dst
	l logger
}

func (y yDst) Write(p []byte) (int, error) { y.l.Yield(); return y.Dst.Write(p) }

type ySrc struct {
	r io.Reader
	l logger
}

func (y ySrc) Read(p []byte) (int, error) { y.l.Yield(); return y.r.Read(p) }

func newDst(l logger) yDst { return yDst{env.NewDst(), l} }

func (s *soloLog) Logf(f string, a ...interface{}) { s.lines = append(s.lines, fmt.Sprintf(f, a...)) }

func snapHs(h ws.Handshake) string {
	var b strings.Builder
	fmt.Fprintf(&b, "proto=%q", h.Protocol)
	for _, o := range h.Extensions {
		fmt.Fprintf(&b, " ext=%q{", o.Name)
		o.Parameters.ForEach(func(k, v []byte) bool {
			fmt.Fprintf(&b, "%q=%q;", k, v)
			return true
		})
		b.WriteString("}")
	}
	return b.String()
}

// framesLog renders what reached a destination at message level: frame boundaries inside
// a message depend on the buffer size of a writer obtained from the pool (GetWriter hands
// out whatever size class was recycled), which is not an observable the property fixes.
func framesLog(b []byte) string {
	fr, rest := drivers.ParseFrames(b)
	var sb strings.Builder
	var cur []byte
	var op byte
	open := false
	for _, f := range fr {
		if refmodel.IsControl(f.H.Op) {
			fmt.Fprintf(&sb, "[ctl op=%x fin=%v rsv=%d masked=%v %s]", f.H.Op, f.H.Fin, f.H.Rsv, f.H.Masked, sum(f.Payload))
			continue
		}
		if !open {
			op, cur = f.H.Op, nil
			fmt.Fprintf(&sb, "[msg op=%x rsv=%d masked=%v ", f.H.Op, f.H.Rsv, f.H.Masked)
		} else if f.H.Op != 0 || f.H.Rsv != 0 {
			fmt.Fprintf(&sb, "!bad-continuation op=%x rsv=%d ", f.H.Op, f.H.Rsv)
		}
		cur = append(cur, f.Payload...)
		open = !f.H.Fin
		if f.H.Fin {
			fmt.Fprintf(&sb, "%s]", sum(cur))
		}
	}
	_ = op
	fmt.Fprintf(&sb, " open=%v rest=%d", open, len(rest))
	return sb.String()
}

func sum(p []byte) string { return fmt.Sprintf("%d:%x", len(p), sha1.Sum(p)) }

func fill(n int, seed byte) []byte {
	p := make([]byte, n)
	for i := range p {
		p[i] = seed + byte(i*7)
	}
	return p
}

var theURL, _ = url.ParseRequestURI("ws://example.com/")

func mkFrame(op byte, fin bool, masked bool, p []byte) []byte {
	return refmodel.Frame{H: refmodel.Hdr{Fin: fin, Op: op, Masked: masked, Mask: [4]byte{3, 1, 4, 1}}, Payload: p}.Wire()
}

// serverSession: handshake with selector and wsflate negotiator, reads, ping reply, write.
func serverSession(tag byte, n int) func(l logger) {
	return func(l logger) {
		req := []byte("GET /" + string(tag) + " HTTP/1.1\r\nHost: example.com\r\nUpgrade: websocket\r\nConnection: Upgrade\r\nSec-WebSocket-Version: 13\r\nSec-WebSocket-Key: " + hs.CanonKey +
			"\r\nSec-WebSocket-Protocol: alpha" + string(tag) + ", beta" + string(tag) + "\r\nSec-WebSocket-Extensions: permessage-deflate; client_max_window_bits, foo" + string(tag) + "\r\n\r\n")
		e := &wsflate.Extension{Parameters: wsflate.DefaultParameters}
		want := "beta" + string(tag)
		u := ws.Upgrader{Protocol: func(b []byte) bool { return string(b) == want }, Negotiate: e.Negotiate}
		var out bytes.Buffer
		h, err := u.Upgrade(struct {
			io.Reader
			io.Writer
		}{bytes.NewReader(req), &out})
		l.Logf("upgrade err=%v hs=%s resp=%s", err, snapHs(h), sum(out.Bytes()))
		p1, p2 := fill(n, tag), fill(n/2+1, tag+1)
		ping := fill(100, tag+2) // 100+header bytes: the 128-byte pool class, shared with the other sessions
		stream := append(append(append(mkFrame(1, false, true, []byte("frag-"+string(tag))), mkFrame(9, true, true, ping)...), mkFrame(0, true, true, []byte("-end"))...), mkFrame(2, true, true, p1)...)
		stream = append(stream, mkFrame(2, false, true, p2)...)
		stream = append(stream, mkFrame(0, true, true, p1)...)
		src := ySrc{bytes.NewReader(stream), l}
		dst := newDst(l)
		var got [][]byte
		for i := 0; i < 3; i++ {
			p, op, err := wsutil.ReadClientData(env.RW{Reader: src, Writer: dst})
			l.Logf("read%d op=%x err=%v data=%s", i, op, err, sum(p))
			got = append(got, p)
		}
		l.Logf("replies %s", framesLog(dst.Bytes()))
		d2 := newDst(l)
		msg := fill(n, tag+9)
		err = wsutil.WriteServerMessage(d2, ws.OpBinary, msg)
		l.Logf("write err=%v %s msgIntact=%v", err, framesLog(d2.Bytes()), bytes.Equal(msg, fill(n, tag+9)))
		for i, p := range got {
			l.Logf("reread%d data=%s", i, sum(p))
		}
		l.Logf("end hs=%s", snapHs(h))
	}
}

// pooledWriterSession: a connection that only borrows a writer of the common size class, sends
// two messages through it and gives it back - whatever writer the pool hands out (one another
// connection has just returned, possibly) is this connection's own while it holds it.
func pooledWriterSession(tag byte) func(l logger) {
	return func(l logger) {
		d := newDst(l)
		w := wsutil.GetWriter(d, ws.StateServerSide, ws.OpBinary, 128)
		data := fill(300, tag)
		w.Write(data[:100])
		w.Write(data[100:])
		err := w.Flush()
		w.ResetOp(ws.OpText)
		w.Write([]byte("second message"))
		err2 := w.Flush()
		l.Logf("borrowed-writer err=%v/%v %s", err, err2, framesLog(d.Bytes()))
		wsutil.PutWriter(w)
	}
}

// compressingWriterSession: a connection with permessage-deflate that borrows a writer of the
// common size class (and builds one whose Size() is that class), gives each a compressing
// message state and a disabled flush, sends a message and hands the writer to PutWriter - what
// the next borrower gets is a writer like new.
func compressingWriterSession(tag byte) func(l logger) {
	return func(l logger) {
		for _, built := range []bool{false, true} {
			d := newDst(l)
			var w *wsutil.Writer
			if built {
				w = wsutil.NewWriterSize(d, ws.StateServerSide|ws.StateExtended, ws.OpText, 128)
			} else {
				w = wsutil.GetWriter(d, ws.StateServerSide|ws.StateExtended, ws.OpText, 128)
			}
			var ms wsflate.MessageState
			ms.SetCompressed(true)
			w.SetExtensions(&ms)
			w.Write(fill(300, tag))
			err := w.Flush()
			l.Logf("compressing-borrower built=%v err=%v %s", built, err, framesLog(d.Bytes()))
			wsutil.PutWriter(w)
		}
	}
}

// customServerSession: an upgrader whose zero-copy callbacks hand back values that point into
// the request as it lies in the read buffer (allowed: "valid until Upgrade returns"), and whose
// OnBeforeUpgrade hook takes its time (another connection gets served meanwhile).
func customServerSession(tag byte) func(l logger) {
	return func(l logger) {
		req := []byte("GET /" + string(tag) + " HTTP/1.1\r\nHost: example.com\r\nUpgrade: websocket\r\nConnection: Upgrade\r\nSec-WebSocket-Version: 13\r\nSec-WebSocket-Key: " + hs.CanonKey +
			"\r\nSec-WebSocket-Protocol: proto-" + string(tag) + "\r\nSec-WebSocket-Extensions: ext-" + string(tag) + "; level=" + string(tag) + "\r\n\r\n")
		u := ws.Upgrader{
			ExtensionCustom: func(v []byte, dst []httphead.Option) ([]httphead.Option, bool) { return httphead.ParseOptions(v, dst) },
			ProtocolCustom:  func(v []byte) (string, bool) { return string(v), true },
			OnBeforeUpgrade: func() (ws.HandshakeHeader, error) {
				l.Yield()
				l.Yield()
				return nil, nil
			},
		}
		var out bytes.Buffer
		h, err := u.Upgrade(struct {
			io.Reader
			io.Writer
		}{ySrc{bytes.NewReader(req), l}, &out})
		resp := hs.ParseHead(out.Bytes())
		l.Logf("custom upgrade err=%v protocol=%q sent-protocol=%v sent-extensions=%v", err, h.Protocol, resp.Get("Sec-WebSocket-Protocol"), resp.Get("Sec-WebSocket-Extensions"))
	}
}

// sharedDialer is a package-level dialer value used by several sessions at once, the way an// sharedDialer is a package-level dialer value used by several sessions at once, the way an
// application shares ws.DefaultDialer or its own configured dialer.
var sharedDialer ws.Dialer

func resetShared() {
	sharedDialer = ws.Dialer{Protocols: []string{"alpha", "beta"}, Extensions: []httphead.Option{httphead.NewOption("foo", map[string]string{"q": "1"}), httphead.NewOption("bar", nil)}}
}

func sharedDigest() string {
	var b strings.Builder
	fmt.Fprintf(&b, "%q", sharedDialer.Protocols)
	for _, o := range sharedDialer.Extensions {
		fmt.Fprintf(&b, " %q{", o.Name)
		o.Parameters.ForEach(func(k, v []byte) bool { fmt.Fprintf(&b, "%q=%q;", k, v); return true })
		b.WriteString("}")
	}
	return b.String()
}

// clientSession: dial-side handshake with trailing frames, client write, reads incl. ping and close.
func clientSession(tag byte, n int) func(l logger) { return clientSessionX(tag, n, false) }

func clientSessionX(tag byte, n int, shared bool) func(l logger) {
	return func(l logger) {
		d := ws.Dialer{Protocols: []string{"alpha" + string(tag), "beta" + string(tag)}, Extensions: []httphead.Option{httphead.NewOption("foo"+string(tag), map[string]string{"q": "1"})}}
		ptag := string(tag)
		if shared {
			d = sharedDialer
			ptag = ""
		}
		srvMsg := fill(n, tag+3)
		ping := fill(100, tag+4)
		trailing := append(append(append(mkFrame(1, true, false, []byte("hello-"+string(tag))), mkFrame(9, true, false, ping)...), mkFrame(2, true, false, srvMsg)...),
			mkFrame(8, true, false, ws.NewCloseFrameBody(1000, "bye-"+string(tag)))...)
		conn := &hs.LazyConn{}
		var connR io.Reader = ySrc{conn, l}
		conn.Respond = func(req []byte) []byte {
			return append([]byte("HTTP/1.1 101 Switching Protocols\r\nUpgrade: websocket\r\nConnection: Upgrade\r\nSec-WebSocket-Accept: "+hs.Accept(hs.KeyOf(req))+
				"\r\nSec-WebSocket-Protocol: beta"+ptag+"\r\nSec-WebSocket-Extensions: foo"+ptag+"; a=1"+string(tag)+"; zz"+string(tag)+"\r\n\r\n"), trailing...)
		}
		br, h, err := d.Upgrade(conn, theURL)
		rq := hs.ParseHead(conn.Req.Bytes())
		l.Logf("dial err=%v hs=%s br=%v reqline=%v protoHdr=%v extHdr=%v", err, snapHs(h), br != nil, rq.Line, rq.Get("Sec-WebSocket-Protocol"), rq.Get("Sec-WebSocket-Extensions"))
		var rd io.Reader = connR
		if br != nil {
			rd = br
		}
		dst := newDst(l)
		msg := fill(n, tag+5)
		err = wsutil.WriteClientMessage(dst, ws.OpText, msg)
		l.Logf("write err=%v %s msgIntact=%v", err, framesLog(dst.Bytes()), bytes.Equal(msg, fill(n, tag+5)))
		d2 := newDst(l)
		var got [][]byte
		for i := 0; i < 3; i++ {
			p, op, err := wsutil.ReadServerData(env.RW{Reader: rd, Writer: d2})
			l.Logf("read%d op=%x err=%v data=%s", i, op, err, sum(p))
			got = append(got, p)
			if ce, ok := err.(wsutil.ClosedError); ok {
				l.Logf("closed code=%d reason=%q", ce.Code, ce.Reason)
			}
		}
		l.Logf("replies %s", framesLog(d2.Bytes()))
		if br != nil {
			ws.PutReader(br)
		}
		for i, p := range got {
			l.Logf("reread%d data=%s", i, sum(p))
		}
		l.Logf("end hs=%s", snapHs(h))
	}
}

// ---- wss dial: the TLS layer the default dialer puts on top of the connection ------------

// helloConn records what the TLS client writes first (its ClientHello) and then ends the
// connection: enough to see which server name the dial asked for.
type helloConn struct {
	l     logger
	hello []byte
}

func (c *helloConn) Write(p []byte) (int, error) {
	c.l.Yield()
	c.hello = append(c.hello, p...)
	return len(p), nil
}
func (c *helloConn) Read(p []byte) (int, error)       { c.l.Yield(); return 0, io.EOF }
func (c *helloConn) Close() error                     { return nil }
func (c *helloConn) LocalAddr() net.Addr              { return &net.TCPAddr{} }
func (c *helloConn) RemoteAddr() net.Addr             { return &net.TCPAddr{} }
func (c *helloConn) SetDeadline(time.Time) error      { return nil }
func (c *helloConn) SetReadDeadline(time.Time) error  { return nil }
func (c *helloConn) SetWriteDeadline(time.Time) error { return nil }

// sniOf extracts the server_name extension from a TLS ClientHello record ("" if absent).
func sniOf(b []byte) string {
	if len(b) < 5+4+2+32+1 || b[0] != 22 || b[5] != 1 {
		return "<no client hello>"
	}
	p := b[5+4+2+32:]
	skip := func(lenBytes int) bool {
		if len(p) < lenBytes {
			return false
		}
		n := 0
		for i := 0; i < lenBytes; i++ {
			n = n<<8 | int(p[i])
		}
		if len(p) < lenBytes+n {
			return false
		}
		p = p[lenBytes+n:]
		return true
	}
	if !skip(1) || !skip(2) || !skip(1) || len(p) < 2 {
		return "<malformed hello>"
	}
	p = p[2:]
	for len(p) >= 4 {
		typ, n := int(p[0])<<8|int(p[1]), int(p[2])<<8|int(p[3])
		if len(p) < 4+n {
			break
		}
		if typ == 0 && n >= 5 {
			return string(p[4+5 : 4+n])
		}
		p = p[4+n:]
	}
	return ""
}

// wssSession dials wss://<host> twice with a dialer that has no TLS configuration of its own
// (so the library's package-level default configuration is used) and logs the server name
// each TLS handshake asked for: it has to be the host of that very dial.
func wssSession(host string, viaDefault bool) func(l logger) {
	return func(l logger) {
		for i := 0; i < 2; i++ {
			c := &helloConn{l: l}
			d := ws.Dialer{}
			if viaDefault {
				d = ws.DefaultDialer
			}
			d.NetDial = func(ctx context.Context, network, addr string) (net.Conn, error) { return c, nil }
			_, _, _, err := d.Dial(context.Background(), "wss://"+host+"/chat")
			sni := sniOf(c.hello)
			l.Logf("wss dial %d host=%s failed=%v sni=%q", i, host, err != nil, sni)
			if sni != host {
				l.Logf("ASSERT-FAILED: TLS server name %q sent for a dial to %q", sni, host)
			}
		}
	}
}

// utilSession: writer pool, cipher writer, compression helpers, close handling, compiled frames.
func utilSession(tag byte, n int) func(l logger) {
	return func(l logger) {
		// an invalid close with a long reason (a failed operation that still goes through the
		// pooled 128-byte class) before anything else
		bad := ws.NewCloseFrameBody(1005, strings.Repeat("r", 100))
		db := newDst(l)
		berr := wsutil.ControlHandler{Src: bytes.NewReader(bad), Dst: db, State: ws.StateClientSide, DisableSrcCiphering: true}.Handle(ws.Header{Fin: true, OpCode: ws.OpClose, Length: int64(len(bad))})
		l.Logf("bad-close err=%v reply=%s", berr, framesLog(db.Bytes()))
		// a close frame built from the library's body constructor, masked in place the way a
		// client does before sending; then the same body built again
		for round := 0; round < 2; round++ {
			body := ws.NewCloseFrameBody(ws.StatusNormalClosure, "")
			l.Logf("close-body #%d built as %x", round, body)
			f := ws.MaskFrameInPlaceWith(ws.NewCloseFrame(body), [4]byte{0xde, 0xad, tag, 0x01})
			dcl := newDst(l)
			ws.WriteFrame(dcl, f)
			l.Logf("close-frame #%d %s", round, framesLog(dcl.Bytes()))
		}
		// a control writer from the plain constructor, used for two frames (Flush in between),
		// with pool traffic of the same size class in between
		dcw := newDst(l)
		ctlw := wsutil.NewControlWriter(dcw, ws.StateServerSide, ws.OpPing)
		ctlw.Write(fill(50, tag+13))
		ctlw.Flush()
		wsutil.WriteClientMessage(newDst(l), ws.OpBinary, fill(100, tag+14))
		ctlw.Write(fill(60, tag+15))
		ctlw.Flush()
		l.Logf("control-writer-twice %s", framesLog(dcw.Bytes()))
		// a writer over a buffer the application owns (its capacity happens to be a pool class),
		// flushing disabled, and a message that outgrows it; the application keeps using its
		// buffer for something else until the end of the session
		own := make([]byte, 128)
		dg := newDst(l)
		wg := wsutil.NewWriterBuffer(dg, ws.StateServerSide, ws.OpBinary, own)
		wg.DisableFlush()
		wg.Write(fill(300, tag+11))
		wg.Flush()
		l.Logf("grown-writer %s", framesLog(dg.Bytes()))
		copy(own, fill(128, tag+12))
		defer func() { l.Logf("application buffer at the end %s", sum(own)) }()
		// a pool-class writer whose connection broke under it: it goes back to the pool in its
		// failed state (what a server does with the writer of a dead connection)
		dead := newDst(l)
		dead.FailAt = 0
		wf := wsutil.NewWriterSize(dead, ws.StateServerSide, ws.OpBinary, 128)
		_, ferr := wf.Write(fill(300, tag+9))
		l.Logf("writer-on-dead-connection err=%v", ferr != nil)
		wsutil.PutWriter(wf)
		// a writer whose Size() is a pool class, so that PutWriter really recycles it
		d0 := newDst(l)
		w0 := wsutil.NewWriterSize(d0, ws.StateServerSide, ws.OpText, 128)
		w0.Write(fill(100, tag+7))
		w0.Flush()
		l.Logf("sized-writer %s", framesLog(d0.Bytes()))
		wsutil.PutWriter(w0)
		d := newDst(l)
		w := wsutil.GetWriter(d, ws.StateClientSide, ws.OpBinary, 128)
		data := fill(n, tag)
		w.Write(data[:n/2])
		w.Write(data[n/2:])
		w.Flush()
		l.Logf("getwriter %s", framesLog(d.Bytes()))
		wsutil.PutWriter(w)
		d2 := newDst(l)
		cw := wsutil.NewCipherWriter(d2, [4]byte{9, 8, 7, tag})
		cw.Write(data)
		l.Logf("cipherwriter %s intact=%v", sum(refmodel.XOR(d2.Bytes(), [4]byte{9, 8, 7, tag}, 0)), bytes.Equal(data, fill(n, tag)))
		f, err := wsflate.CompressFrame(ws.NewTextFrame(bytes.Repeat([]byte{'a' + tag%20}, n)))
		g, err2 := wsflate.DecompressFrame(f)
		l.Logf("flate err=%v/%v rsv=%d out=%s", err, err2, f.Header.Rsv, sum(g.Payload))
		body := ws.NewCloseFrameBody(1001, "closing-"+string('A'+tag%26))
		d3 := newDst(l)
		cerr := wsutil.ControlHandler{Src: bytes.NewReader(refmodel.XOR(body, [4]byte{1, 2, 3, 4}, 0)), Dst: d3, State: ws.StateServerSide}.Handle(
			ws.Header{Fin: true, OpCode: ws.OpClose, Masked: true, Mask: [4]byte{1, 2, 3, 4}, Length: int64(len(body))})
		l.Logf("close err=%v reply=%s", cerr, framesLog(d3.Bytes()))
		d4 := newDst(l)
		d4.Write(ws.CompiledPing)
		d4.Write(ws.CompiledCloseNormalClosure)
		l.Logf("compiled %s", framesLog(d4.Bytes()))
		d5 := newDst(l)
		wsutil.ControlHandler{Src: ySrc{bytes.NewReader(fill(100, tag)), l}, Dst: d5, State: ws.StateClientSide, DisableSrcCiphering: true}.Handle(ws.Header{Fin: true, OpCode: ws.OpPing, Length: 100})
		l.Logf("pong %s", framesLog(d5.Bytes()))
		// a ping whose payload breaks off (the peer went away after 40 of the 100 announced bytes):
		// whatever is done about it, nothing but this connection's own bytes may go out
		d6 := newDst(l)
		perr := wsutil.ControlHandler{Src: ySrc{bytes.NewReader(fill(40, tag+21)), l}, Dst: d6, State: ws.StateClientSide, DisableSrcCiphering: true}.Handle(ws.Header{Fin: true, OpCode: ws.OpPing, Length: 100})
		l.Logf("ping-cut-short err=%v sent=%s", perr != nil, sum(d6.Bytes()))
		if ce, ok := cerr.(wsutil.ClosedError); ok {
			l.Logf("end closed reason=%q", ce.Reason)
		}
	}
}

// meter is a compressor that counts the plaintext it is given (an application metering its
// traffic per connection); it can be reset for another destination like flate.Writer itself.
type meter struct {
	*flate.Writer
	seen *int
}

func (m meter) Write(p []byte) (int, error) { *m.seen += len(p); return m.Writer.Write(p) }

// helperSession: a connection whose application compresses with a Helper of its own (its own
// compression level, its own metering) next to connections that use the package's default
// helper: what it sends is what that Helper's compressor makes of its messages, and its meter
// counts its own plaintext only.
func helperSession(tag byte, level int, n int) func(l logger) {
	return func(l logger) {
		seen := 0
		h := wsflate.Helper{
			Compressor: func(w io.Writer) wsflate.Compressor {
				f, _ := flate.NewWriter(w, level)
				return meter{f, &seen}
			},
			Decompressor: func(r io.Reader) wsflate.Decompressor { return flate.NewReader(r) },
		}
		for round := 0; round < 2; round++ {
			msg := bytes.Repeat(fill(17, tag+byte(round)), n/17+1)[:n]
			var out bytes.Buffer
			err := h.CompressTo(yDstBuf{&out, l}, msg)
			back, err2 := h.Decompress(out.Bytes())
			l.Logf("own-helper level=%d message #%d err=%v/%v compressed=%s round-trip=%v metered=%d", level, round, err, err2, sum(out.Bytes()), bytes.Equal(back, msg), seen)
			f, err3 := h.CompressFrame(ws.NewTextFrame(msg))
			l.Logf("own-helper frame #%d err=%v rsv=%d payload=%s metered=%d", round, err3, f.Header.Rsv, sum(f.Payload), seen)
			// and the package-level shortcut in between, as a library used by the application might
			g, err4 := wsflate.CompressFrame(ws.NewTextFrame(msg))
			l.Logf("default-helper frame #%d err=%v payload=%s metered=%d", round, err4, sum(g.Payload), seen)
		}
	}
}

// textSession: a connection on which text reads go wrong (invalid UTF-8, a stream cut inside a
// multi-byte character, a close frame cutting a fragmented text short) between text reads that are
// fine, through the read helpers that check UTF-8: every read is judged on its own bytes.
func textSession(tag byte) func(l logger) {
	return func(l logger) {
		good := "caf\u00e9 \u20ac " + string('a'+tag%26)
		frames := [][]byte{
			mkFrame(1, true, true, []byte(good)),
			mkFrame(1, true, true, []byte("bad \xff\xfe bytes")),
			mkFrame(1, true, true, []byte(good+" again")),
			append(mkFrame(1, false, true, []byte("cut inside \xe2\x82")), mkFrame(8, true, true, ws.NewCloseFrameBody(1000, ""))...),
			mkFrame(1, true, true, []byte(good+" once more")),
			mkFrame(1, true, true, []byte("truncated character \xf0\x9f\x98")),
			mkFrame(1, true, true, []byte(good+" finally")),
		}
		for i, f := range frames {
			rw := env.RW{Reader: ySrc{bytes.NewReader(f), l}, Writer: newDst(l)}
			switch i % 3 {
			case 0:
				p, op, err := wsutil.ReadClientData(rw)
				l.Logf("text #%d ReadClientData op=%x payload=%q err=%v", i, byte(op), p, err)
			case 1:
				p, err := wsutil.ReadClientText(rw)
				l.Logf("text #%d ReadClientText payload=%q err=%v", i, p, err)
			default:
				m, err := wsutil.ReadClientMessage(rw.Reader, nil)
				var last string
				if len(m) > 0 {
					last = string(m[len(m)-1].Payload)
				}
				l.Logf("text #%d ReadClientMessage n=%d last=%q err=%v", i, len(m), last, err)
			}
		}
	}
}

// stallSrc delivers data[:stallAt], reports that it is parked, waits for release and delivers the rest.
type stallSrc struct {
	data    []byte
	off     int
	stallAt int
	stalled bool
	parked  chan struct{}
	release chan struct{}
}

func (s *stallSrc) Read(p []byte) (int, error) {
	if s.off >= len(s.data) {
		return 0, io.EOF
	}
	end := len(s.data)
	if !s.stalled {
		if s.off >= s.stallAt {
			s.stalled = true
			s.parked <- struct{}{}
			<-s.release
		} else {
			end = s.stallAt
		}
	}
	n := copy(p, s.data[s.off:end])
	s.off += n
	return n, nil
}

// cancelledDialConn answers the handshake with a valid response and a first frame in the same
// segment; while that read is in flight the caller's context is cancelled, and the read only
// returns once the dialer's watcher has reacted (it moves the deadline into the past).
type cancelledDialConn struct {
	l      logger
	req    bytes.Buffer
	resp   []byte
	off    int
	cancel context.CancelFunc
	armed  chan struct{}
	closed bool
}

func (c *cancelledDialConn) Write(p []byte) (int, error) { c.l.Yield(); return c.req.Write(p) }
func (c *cancelledDialConn) Read(p []byte) (int, error) {
	c.l.Yield()
	if c.resp == nil {
		c.resp = append([]byte("HTTP/1.1 101 Switching Protocols\r\nUpgrade: websocket\r\nConnection: Upgrade\r\nSec-WebSocket-Accept: "+hs.Accept(hs.KeyOf(c.req.Bytes()))+"\r\n\r\n"), mkFrame(1, true, false, []byte("early"))...)
		c.cancel()
		<-c.armed
	}
	if c.off >= len(c.resp) {
		return 0, io.EOF
	}
	n := copy(p, c.resp[c.off:])
	c.off += n
	return n, nil
}
func (c *cancelledDialConn) Close() error         { c.closed = true; return nil }
func (c *cancelledDialConn) LocalAddr() net.Addr  { return &net.TCPAddr{} }
func (c *cancelledDialConn) RemoteAddr() net.Addr { return &net.TCPAddr{} }
func (c *cancelledDialConn) SetDeadline(t time.Time) error {
	if !t.IsZero() && t.Before(time.Now()) {
		select {
		case c.armed <- struct{}{}:
		default:
		}
	}
	return nil
}
func (c *cancelledDialConn) SetReadDeadline(t time.Time) error  { return c.SetDeadline(t) }
func (c *cancelledDialConn) SetWriteDeadline(t time.Time) error { return nil }

// cancelledDialSession: a dial whose context ends while the response arrives. Whatever Dial
// returns, the application does what the documentation asks: a reader that came back goes to
// ws.PutReader. Afterwards it dials again, normally.
func cancelledDialSession(tag byte) func(l logger) {
	return func(l logger) {
		ctx, cancel := context.WithCancel(context.Background())
		defer cancel()
		cc := &cancelledDialConn{l: l, cancel: cancel, armed: make(chan struct{}, 4)}
		d := ws.Dialer{NetDial: func(context.Context, string, string) (net.Conn, error) { return cc, nil }}
		_, br, _, err := d.Dial(ctx, "ws://example.com/chat")
		l.Logf("dial with a context cancelled mid-response: err=%v reader=%v conn closed=%v", err, br != nil, cc.closed)
		if br != nil {
			ws.PutReader(br)
		}
		clientSession(tag, 30)(l)
	}
}

// yDstBuf is a destination that yields to the scheduler before every write.// yDstBuf is a destination that yields to the scheduler before every write.// yDstBuf is a destination that yields to the scheduler before every write.
type yDstBuf struct {
	b *bytes.Buffer
	l logger
}

func (y yDstBuf) Write(p []byte) (int, error) { y.l.Yield(); return y.b.Write(p) }

type session struct {
	name string
	body func(l logger)
}

func sessions() map[string]session {
	m := map[string]session{}
	add := func(name string, b func(l logger)) { m[name] = session{name, b} }
	add("S1", serverSession('a', 30))
	add("S1b", serverSession('b', 30))
	add("S1L", serverSession('c', 5000))
	add("S2", clientSession('d', 30))
	add("S2b", clientSession('e', 30))
	add("S2L", clientSession('f', 5000))
	add("S2s", clientSessionX('g', 30, true))
	add("S2t", clientSessionX('h', 30, true))
	add("S4a", wssSession("host-a.example", false))
	add("S4b", wssSession("host-b.example", true))
	add("S3", utilSession(1, 150))
	add("S3b", utilSession(2, 150))
	add("S3L", utilSession(3, 5000))
	add("S5", helperSession(4, flate.BestSpeed, 400))
	add("S5b", helperSession(5, flate.HuffmanOnly, 400))
	add("S6", textSession(6))
	add("S7", cancelledDialSession(8))
	add("S8", customServerSession('m'))
	add("S9", pooledWriterSession(9))
	add("S9b", pooledWriterSession(10))
	add("S10", compressingWriterSession(11))
	add("S8b", customServerSession('n'))
	add("S6b", textSession(7))
	return m
}

func globalsDigest() string {
	h := sha1.New()
	for _, b := range [][]byte{ws.CompiledPing, ws.CompiledPong, ws.CompiledClose, ws.CompiledCloseNormalClosure, ws.CompiledCloseGoingAway, ws.CompiledCloseProtocolError,
		ws.CompiledCloseUnsupportedData, ws.CompiledCloseNoMeaningYet, ws.CompiledCloseInvalidFramePayloadData, ws.CompiledClosePolicyViolation,
		ws.CompiledCloseMessageTooBig, ws.CompiledCloseMandatoryExt, ws.CompiledCloseInternalServerError, ws.CompiledCloseTLSHandshake} {
		h.Write(b)
		h.Write([]byte{0xff})
	}
	fmt.Fprintf(h, "%v %v %v %v %d", ws.DefaultDialer.Protocols, ws.DefaultDialer.ReadBufferSize, ws.DefaultUpgrader.ReadBufferSize, ws.DefaultHTTPUpgrader.Timeout, wsutil.DefaultWriteBuffer)
	return fmt.Sprintf("%x", h.Sum(nil))
}

// solo runs a session alone on the non-recycling pool.
func solo(s session) []string {
	resetShared()
	vsync.Hook = nil
	vsync.SetMode(vsync.Fresh)
	vsync.ResetAll()
	l := &soloLog{}
	s.body(l)
	return l.lines
}

// object identities for state keys
type objTable struct {
	ids  map[uintptr]int
	objs []interface{}
}

func (o *objTable) note(x interface{}) {
	if x == nil {
		return
	}
	id := identOf(x)
	if id == 0 {
		return
	}
	if _, ok := o.ids[id]; !ok {
		o.ids[id] = len(o.objs)
		o.objs = append(o.objs, x)
	}
}

func identOf(x interface{}) uintptr {
	for _, b := range vsync.Bytes(x) {
		if cap(b) > 0 {
			return uintptr(unsafePtr(b))
		}
	}
	return 0
}

func runMix(t *explore.T, names []string, all map[string]session, ref map[string][]string, opts explore.ExploreOpts, useKey bool) {
	desc := "sessions=" + strings.Join(names, "||")
	g0 := globalsDigest()
	t.Explore(desc, opts, func(c *explore.Chooser) *explore.Fail {
		vsync.SetMode(vsync.LIFOPoison)
		vsync.ResetAll()
		resetShared()
		shared0 := sharedDigest()
		s := sched.New()
		tab := &objTable{ids: map[uintptr]int{}}
		vsync.Hook = func(phase, op string, p *vsync.Pool, x interface{}) {
			if s.Current() == nil {
				return
			}
			if x != nil {
				tab.note(x)
			}
			s.Point()
		}
		defer func() { vsync.Hook = nil }()
		var ths []*sched.Thread
		for _, n := range names {
			sess := all[n]
			ths = append(ths, s.Go(n, func(th *sched.Thread) { sess.body(thLog{th, s}) }))
		}
		if useKey {
			s.KeyFn = func() string {
				h := sha1.New()
				for _, th := range ths {
					fmt.Fprintf(h, "pc%d:%d;", th.ID, th.PC)
					for _, l := range th.Log {
						h.Write([]byte(l))
					}
				}
				for pi, fl := range vsync.FreeObjects() {
					fmt.Fprintf(h, "pool%d[", pi)
					for _, x := range fl {
						fmt.Fprintf(h, "%d,", tab.ids[identOf(x)])
					}
					h.Write([]byte("]"))
				}
				for i, x := range tab.objs {
					fmt.Fprintf(h, "o%d:", i)
					for _, b := range vsync.Bytes(x) {
						h.Write(b)
					}
				}
				return fmt.Sprintf("%x", h.Sum(nil)[:12])
			}
		}
		s.Run(c)
		if ps := s.Panics(); len(ps) > 0 {
			return explore.Failf("session-panic", "%s", ps[0])
		}
		for i, th := range ths {
			want := ref[names[i]]
			if len(th.Log) != len(want) {
				return explore.Failf("session-log-differs-from-solo:"+sessKind(names[i]), "session %s: %d log lines, solo run has %d", names[i], len(th.Log), len(want))
			}
			for k := range want {
				if th.Log[k] != want[k] {
					return explore.Failf("session-log-differs-from-solo:"+sessKind(names[i]), "session %s line %d:\nconcurrent: %s\nsolo:       %s\nschedule: %v", names[i], k, th.Log[k], want[k], s.Trace)
				}
			}
		}
		if g := globalsDigest(); g != g0 {
			return explore.Failf("package-level-values-changed", "")
		}
		if sd := sharedDigest(); sd != shared0 {
			return explore.Failf("shared-dialer-configuration-changed", "before %s\nafter  %s", shared0, sd)
		}
		t.Outcome(fmt.Sprintf("preemptions=%d", s.Preemptions))
		return nil
	})
}

func sessKind(n string) string { return n[:2] }

// racePass is the supplementary free-running pass (this binary built with -race): real
// sync.Pool, real goroutines, no scheduler. It prints one line per mismatch; data races are
// reported by the race detector on stderr.
func racePass() {
	all := sessions()
	var names []string
	for n := range all {
		names = append(names, n)
	}
	sort.Strings(names)
	ref := map[string][]string{}
	vsync.Hook = nil
	vsync.SetMode(vsync.Passthrough)
	resetShared()
	for _, n := range names {
		l := &soloLog{}
		all[n].body(l)
		ref[n] = l.lines
	}
	seed, _ := strconv.Atoi(os.Getenv("VERIF_SEED"))
	rounds := 6
	bad := 0
	for _, procs := range []int{1, 4, 16} {
		runtime.GOMAXPROCS(procs)
		var wg sync.WaitGroup
		var mu sync.Mutex
		for g := 0; g < 32; g++ {
			wg.Add(1)
			go func(g int) {
				defer wg.Done()
				for k := 0; k < rounds; k++ {
					n := names[(g+k*7+seed)%len(names)]
					l := &soloLog{}
					all[n].body(l)
					if strings.Join(l.lines, "\n") != strings.Join(ref[n], "\n") {
						mu.Lock()
						bad++
						fmt.Printf("RACE-PASS MISMATCH session=%s GOMAXPROCS=%d\n", n, procs)
						mu.Unlock()
					}
					runtime.Gosched()
				}
			}(g)
		}
		wg.Wait()
	}
	fmt.Printf("RACE-PASS done sessions=%d mismatches=%d\n", 3*32*rounds, bad)
	if bad > 0 {
		os.Exit(3)
	}
}

func main() {
	if os.Getenv("VERIF_RACE_PASS") == "1" {
		racePass()
		return
	}
	explore.Main("C19", func(r *explore.Run) {
		all := sessions()
		ref := map[string][]string{}
		for n, s := range all {
			ref[n] = solo(s)
		}
		r.Part("E0-solo-determinism", func(t *explore.T) {
			for n, s := range all {
				n, s := n, s
				t.Do(func() string { return "solo " + n }, func() *explore.Fail {
					a := solo(s)
					vsync.SetMode(vsync.LIFOPoison)
					vsync.ResetAll()
					resetShared()
					l := &soloLog{}
					s.body(l)
					b := l.lines
					if strings.Join(a, "\n") != strings.Join(ref[n], "\n") {
						return explore.Failf("solo-run-not-deterministic", "%s", n)
					}
					// a session run alone after other sessions have run in this process: its own
					// assertions (values that must not depend on what other connections did)
					for _, line := range a {
						if strings.HasPrefix(line, "ASSERT-FAILED") {
							return explore.Failf("session-sees-another-connections-values", "%s: %s", n, line)
						}
					}
					if strings.Join(b, "\n") != strings.Join(a, "\n") {
						return explore.Failf("solo-run-depends-on-pool-mode", "%s:\nfresh: %v\nlifo:  %v", n, a, b)
					}
					return nil
				})
			}
			t.Outcome("deterministic")
			t.Note("each session alone: same log on the non-recycling pool twice and on the poisoning LIFO pool")
		})
		mixes2 := [][]string{{"S2s", "S2t"}, {"S4a", "S4b"}, {"S1", "S2"}, {"S1", "S1b"}, {"S2", "S2b"}, {"S1", "S3"}, {"S2", "S3"}, {"S3", "S3b"}, {"S1L", "S2L"}, {"S1L", "S1"}, {"S3L", "S2"}, {"S3L", "S3"}, {"S3", "S5"}, {"S5", "S5b"}, {"S6", "S6b"}, {"S1", "S6"}, {"S7", "S2"}, {"S8", "S8b"}, {"S8", "S1"}, {"S3", "S9"}, {"S9", "S9b"}, {"S10", "S9"}}
		mixes3 := [][]string{{"S1", "S2", "S3"}, {"S1", "S1b", "S2"}, {"S2", "S2b", "S3"}}
		r.Part("E1-two-sessions-preemption-bounded", func(t *explore.T) {
			b := t.Pick(2, 3)
			t.Bound(b)
			for i, m := range mixes2 {
				bm := b
				if i >= 12 && bm > 2 {
					bm = 2 // the mixes added later keep the quick bound in the thorough tier as well (cost)
				}
				runMix(t, m, all, ref, explore.ExploreOpts{Bound: bm}, false)
			}
			t.Note(fmt.Sprintf("all interleavings with <=%d preemptions of the twelve basic two-session mixes and <=2 of the others; scheduling points before and after every Get/Put of the shimmed sync.Pool; pool in poisoning LIFO mode", b))
		})
		r.Part("E2-three-sessions-preemption-bounded", func(t *explore.T) {
			b := t.Pick(1, 2)
			t.Bound(b)
			for _, m := range mixes3 {
				runMix(t, m, all, ref, explore.ExploreOpts{Bound: b}, false)
			}
		})
		// "Any number of goroutines": k connections are in the middle of receiving a large frame
		// (header and the first 4 KiB have arrived, their peers then stall), for every k up to 129;
		// one more connection whose data is all there is served to its end meanwhile, with the
		// result it has alone; then the stalled peers deliver the rest and every one of the k
		// frames arrives intact. Entry points: ReadFrame, ReadMessage, ReadData, Reader+ReadAll.
		r.Part("E5-k-connections-waiting-for-slow-peers", func(t *explore.T) {
			vsync.SetMode(vsync.Passthrough)
			const n = 1<<20 + 100
			body := fill(n, 77)
			wire := mkFrame(2, true, true, body)
			entries := map[string]func(src io.Reader) ([]byte, error){
				"ReadFrame": func(src io.Reader) ([]byte, error) {
					f, err := ws.ReadFrame(src)
					if err == nil && f.Header.Masked {
						f = ws.UnmaskFrameInPlace(f)
					}
					return f.Payload, err
				},
				"ReadMessage": func(src io.Reader) ([]byte, error) {
					m, err := wsutil.ReadClientMessage(src, nil)
					if err != nil || len(m) != 1 {
						return nil, fmt.Errorf("%d messages, err=%v", len(m), err)
					}
					return m[0].Payload, nil
				},
				"ReadData": func(src io.Reader) ([]byte, error) {
					p, _, err := wsutil.ReadClientData(env.RW{Reader: src, Writer: io.Discard})
					return p, err
				},
				"Reader+ReadAll": func(src io.Reader) ([]byte, error) {
					rd := wsutil.NewServerSideReader(src)
					if _, err := rd.NextFrame(); err != nil {
						return nil, err
					}
					return io.ReadAll(rd)
				},
			}
			for _, name := range []string{"ReadFrame", "ReadMessage", "ReadData", "Reader+ReadAll"} {
				run := entries[name]
				for _, k := range []int{1, 2, 3, 4, 8, 9, 16, 17, 32, 33, 64, 65, 128, 129} {
					if k > 33 && !t.Thorough() && k != 129 {
						continue
					}
					name, k := name, k
					t.Do(func() string {
						return fmt.Sprintf("%s: %d connections stalled inside a frame of %d bytes, one more with all its data there", name, k, n)
					}, func() *explore.Fail {
						release := make(chan struct{})
						parked := make(chan struct{}, k)
						type res struct {
							p   []byte
							err error
						}
						results := make(chan res, k)
						for i := 0; i < k; i++ {
							go func() {
								p, err := run(&stallSrc{data: wire, stallAt: 14 + 4096, parked: parked, release: release})
								results <- res{p, err}
							}()
						}
						for i := 0; i < k; i++ {
							<-parked
						}
						done := make(chan res, 1)
						go func() {
							p, err := run(bytes.NewReader(wire))
							done <- res{p, err}
						}()
						var fail *explore.Fail
						select {
						case r := <-done:
							if r.err != nil || !bytes.Equal(r.p, body) {
								fail = explore.Failf("connection-served-wrongly-while-others-wait:"+name, "err=%v, %d bytes", r.err, len(r.p))
							}
						case <-time.After(2 * time.Minute):
							fail = explore.Failf("hang:connection-blocked-by-other-connections-waiting-for-their-peers:"+name, "with %d other connections stalled inside a frame, a connection whose frame is completely there was not served within two minutes", k)
						}
						close(release)
						for i := 0; i < k; i++ {
							r := <-results
							if fail == nil && (r.err != nil || !bytes.Equal(r.p, body)) {
								fail = explore.Failf("stalled-connection-served-wrongly:"+name, "err=%v, %d bytes", r.err, len(r.p))
							}
						}
						return fail
					})
				}
			}
			t.Outcome("served")
			t.Note("real goroutines, no scheduler: the k stalled connections are confirmed parked inside their payload read before the extra connection starts; the only timing element is the two-minute bound after which a connection that was not served counts as blocked")
		})
		r.Part("E3-unbounded-state-pruned", func(t *explore.T) {
			ms := [][]string{{"S2s", "S2t"}}
			if t.Thorough() {
				// the unbounded search is run on the twelve basic two-session mixes and the three-session
				// ones; the mixes added later (own helpers, text reads, cancelled dials, custom callbacks,
				// borrowed writers) are covered by the preemption-bounded parts, with bound 3 in this tier
				ms = append(append([][]string{}, mixes2[:12]...), mixes3...)
			}
			for _, m := range ms {
				runMix(t, m, all, ref, explore.ExploreOpts{Bound: -1, UseKeys: true, MaxExec: int64(t.Pick(150000, 3000000))}, true)
			}
			t.Note("all interleavings (no preemption bound) with pruning on the global state key (per-thread pc and log, free lists as canonical object ids, contents of every pool-managed object)")
		})
		r.Part("E4-free-running-race-pass(supplementary,sampling)", func(t *explore.T) {
			bin := os.Getenv("VERIF_RACE_BIN")
			t.Do(func() string {
				return "race-detector pass: 9 sessions x 32 goroutines x GOMAXPROCS 1/4/16, real sync.Pool"
			}, func() *explore.Fail {
				if bin == "" {
					return explore.Failf("race-binary-missing", "VERIF_RACE_BIN not set (run through ./vcheck)")
				}
				cmd := exec.Command(bin)
				cmd.Env = append(os.Environ(), "VERIF_RACE_PASS=1", "GORACE=halt_on_error=0 exitcode=66")
				out, err := cmd.CombinedOutput()
				txt := string(out)
				if strings.Contains(txt, "DATA RACE") {
					site := ""
					for _, l := range strings.Split(txt, "\n") {
						if strings.Contains(l, "github.com/gobwas/ws") {
							site = strings.TrimSpace(l)
							break
						}
					}
					f := explore.Failf("data-race", "race detector report (first ws frame: %s)\n%s", site, firstN(txt, 3000))
					f.Sampled = true
					return f
				}
				if strings.Contains(txt, "RACE-PASS MISMATCH") {
					f := explore.Failf("free-running-log-mismatch", "%s", firstN(txt, 2000))
					f.Sampled = true
					return f
				}
				if err != nil || !strings.Contains(txt, "RACE-PASS done") {
					return explore.Failf("race-pass-failed", "err=%v\n%s", err, firstN(txt, 2000))
				}
				return nil
			})
			t.Outcome("no-race-reported")
			t.Note("sampling, not part of the coverage numbers: a cooperative scheduler's hand-offs are happens-before edges that blind the race detector, so unsynchronised accesses are looked for in a separate free-running run of the same session bodies")
		})
	})
}

var _ = bufio.NewReader

func firstN(s string, n int) string {
	if len(s) > n {
		return s[:n]
	}
	return s
}
