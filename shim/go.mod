module verifshim

go 1.21
