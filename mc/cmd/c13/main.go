// C13: the compression bit RSV1 is set and accepted only on the first frame of a message.
package main

import (
	"bufio"
	"bytes"
	"compress/flate"
	"fmt"
	"io"
	"strings"

	"github.com/gobwas/ws"
	"github.com/gobwas/ws/wsflate"
	"github.com/gobwas/ws/wsutil"

	"verifmc/drivers"
	"verifmc/env"
	"verifmc/explore"
	"verifmc/refmodel"
	"verifmc/streams"
	"verifshim/vsync"
)

// ---- E1: send side ---------------------------------------------------------------

type msgSpec struct {
	compressed bool
	length     string // 0,3,S,2S+1
	how        string // write, split-flushfragment, writethrough-first, two-writes
	ctlAfter   string // none, WriteMessage-ping, ControlWriter-ping  (sent between this message's fragments and after it)
}

func (m msgSpec) String() string {
	return fmt.Sprintf("{compressed=%v len=%s how=%s ctl=%s}", m.compressed, m.length, m.how, m.ctlAfter)
}

func msgAlphabet() []msgSpec {
	var out []msgSpec
	for _, c := range []bool{true, false} {
		for _, l := range []string{"0", "3", "S", "2S+1"} {
			for _, h := range []string{"write", "split-flushfragment", "writethrough-first", "two-writes"} {
				for _, k := range []string{"none", "WriteMessage-ping", "ControlWriter-ping"} {
					out = append(out, msgSpec{c, l, h, k})
				}
			}
		}
	}
	return out
}

func sendCtl(kind string, d io.Writer, st ws.State) {
	switch kind {
	case "WriteMessage-ping":
		wsutil.WriteMessage(d, st, ws.OpPing, []byte("pi"))
	case "ControlWriter-ping":
		cw := wsutil.NewControlWriter(d, st, ws.OpPing)
		cw.Write([]byte("pi"))
		cw.Flush()
	}
}

// identityExt is a send extension that leaves the header as it is (a second, unrelated
// extension in the chain).
var identityExt = wsutil.SendExtensionFunc(func(h ws.Header) (ws.Header, error) { return h, nil })

// chain says where the message state sits among the writer's send extensions.
var chains = []string{"state-only", "state+other", "other+state"}

func runSend(client bool, bufN int, seq []msgSpec, recycled bool) *explore.Fail {
	// origin: the writer was made for text messages; or made for a control opcode (a pong
	// writer, say) and switched to text with the quick ResetOp; or it writes into a
	// *bufio.Writer that the application flushes after every message
	origins := []string{"made-for-text"}
	chainsHere := chains
	switch {
	case recycled:
		chainsHere = chains[:1]
	case len(seq) == 1:
		origins = []string{"made-for-text", "made-for-pong-then-ResetOp", "through-bufio.Writer"}
	case len(seq) == 2:
		origins = []string{"made-for-text", "through-bufio.Writer"}
	default:
		chainsHere = chains[:1]
	}
	for _, chain := range chainsHere {
		for _, origin := range origins {
			if f := runSendChain(client, bufN, seq, recycled, chain, origin); f != nil {
				f.Detail = "send extensions: " + chain + "; writer " + origin + "\n" + f.Detail
				return f
			}
		}
	}
	return nil
}

func runSendChain(client bool, bufN int, seq []msgSpec, recycled bool, chain, origin string) *explore.Fail {
	d := env.NewDst()
	// dst is where the writer and the control helpers write: the recording destination itself,
	// or a *bufio.Writer in front of it that the application flushes after every message (its
	// buffer then still holds the bytes of what went out before)
	var dst io.Writer = d
	var bw *bufio.Writer
	if origin == "through-bufio.Writer" {
		bw = bufio.NewWriterSize(d, 4096)
		dst = bw
	}
	st := ws.StateServerSide
	if client {
		st = ws.StateClientSide
	}
	var ms wsflate.MessageState
	var w *wsutil.Writer
	if recycled {
		// the writer comes back from an earlier connection whose message died half way:
		// fragments out, destination failed, never flushed; then Reset for this connection
		bad := env.NewDst()
		bad.FailAt = 1
		w = wsutil.NewWriterBufferSize(bad, ws.StateClientSide, ws.OpBinary, bufN)
		var old wsflate.MessageState
		old.SetCompressed(true)
		w.SetExtensions(&old)
		w.Write(bytes.Repeat([]byte{'x'}, 3*bufN))
		w.Flush()
		w.Reset(dst, st, ws.OpText)
	} else if origin == "made-for-pong-then-ResetOp" {
		w = wsutil.NewWriterBufferSize(dst, st, ws.OpPong, bufN)
	} else {
		w = wsutil.NewWriterBufferSize(dst, st, ws.OpText, bufN)
	}
	switch chain {
	case "state+other":
		w.SetExtensions(&ms, identityExt)
	case "other+state":
		w.SetExtensions(identityExt, &ms)
	default:
		w.SetExtensions(&ms)
	}
	if origin == "made-for-pong-then-ResetOp" {
		w.ResetOp(ws.OpText)
	}
	S := w.Size()
	type want struct {
		compressed bool
		n          int
	}
	var wants []want
	for _, m := range seq {
		n := map[string]int{"0": 0, "3": 3, "S": S, "2S+1": 2*S + 1, "70001": 70001}[m.length]
		p := bytes.Repeat([]byte{'m'}, n)
		ms.SetCompressed(m.compressed)
		switch m.how {
		case "write":
			w.Write(p)
		case "two-writes":
			w.Write(p[:n/2])
			sendCtlIfEmpty(m.ctlAfter, dst, st, w)
			w.Write(p[n/2:])
		case "split-flushfragment":
			w.Write(p[:n/2])
			w.FlushFragment()
			sendCtl(m.ctlAfter, dst, st)
			w.Write(p[n/2:])
		case "bytewise":
			for i := range p {
				w.Write(p[i : i+1])
			}
		case "writethrough-first":
			w.WriteThrough(p[:n/2])
			sendCtl(m.ctlAfter, dst, st)
			w.Write(p[n/2:])
		}
		if err := w.Flush(); err != nil {
			return explore.Failf("flush-error", "%v", err)
		}
		sendCtl(m.ctlAfter, dst, st)
		wants = append(wants, want{m.compressed, n})
		if bw != nil {
			bw.Flush()
		}
	}
	frames, rest := drivers.ParseFrames(d.Bytes())
	if len(rest) != 0 {
		return explore.Failf("not-whole-frames", "")
	}
	mi := 0
	first := true
	got := 0
	for _, f := range frames {
		if refmodel.IsControl(f.H.Op) {
			if f.H.Rsv != 0 {
				return explore.Failf("rsv-on-control-frame", "%v", f.H)
			}
			continue
		}
		if mi >= len(wants) {
			return explore.Failf("extra-data-frame", "")
		}
		wantRsv := byte(0)
		if first && wants[mi].compressed {
			wantRsv = 4
		}
		if f.H.Rsv != wantRsv {
			kind := "continuation"
			if first {
				kind = "first-frame"
			}
			return explore.Failf(fmt.Sprintf("rsv1-wrong-on-%s:compressed=%v", kind, wants[mi].compressed), "message %d frame %v: rsv=%d want %d", mi, f.H, f.H.Rsv, wantRsv)
		}
		if first != (f.H.Op != 0) {
			return explore.Failf("frame-structure", "")
		}
		got += len(f.Payload)
		first = false
		if f.H.Fin {
			if got != wants[mi].n {
				return explore.Failf("payload-length", "message %d: %d bytes on the wire, %d written", mi, got, wants[mi].n)
			}
			mi++
			first = true
			got = 0
		}
	}
	if mi != len(wants) {
		return explore.Failf("messages-missing", "%d of %d", mi, len(wants))
	}
	return nil
}

// a control frame written straight to the destination between two plain writes is only
// legal on the wire when the writer has nothing of the current frame out yet; it always is
// (the writer emits whole frames), so send it unconditionally.
func sendCtlIfEmpty(kind string, d io.Writer, st ws.State, w *wsutil.Writer) { sendCtl(kind, d, st) }

// ---- E2: receive side ----------------------------------------------------------------

type obs struct {
	kind       string // first, cont, ctl
	hdr        ws.Header
	compressed bool
	payload    []byte
}

func runRecv(side streams.Side, frames []streams.Frame, chunk int) (out []obs, err error) {
	return runRecvVariant(side, frames, chunk, "")
}

// runRecvVariant: "" = the reader's state says "extended"; "not-extended" = it does not (the
// header check then refuses every RSV bit, but the message state attached to the reader still
// follows the messages - it starts out as a writer sharing it left it, "compressed");
// "not-extended-nocheck" = the same with the header check switched off, so that the extension
// is the only one looking at RSV1.
func runRecvVariant(side streams.Side, frames []streams.Frame, chunk int, variant string) (out []obs, err error) {
	data, _ := streams.Wire(frames)
	src := env.NewSrc(data)
	src.Policy = env.FixedChunk(chunk)
	var ms wsflate.MessageState
	if variant != "" && len(frames) > 0 && !refmodel.IsControl(frames[0].H.Op) {
		// (what the state says before the first data message has arrived is the writer's business)
		ms.SetCompressed(true)
	}
	// the message state sits alone, before or behind an unrelated extension that leaves the
	// header alone (by stream: the three placements rotate with the number of frames and chunk)
	identity := wsutil.RecvExtensionFunc(func(h ws.Header) (ws.Header, error) { return h, nil })
	exts := [][]wsutil.RecvExtension{{&ms}, {&ms, identity}, {identity, &ms}}[(len(frames)+chunk)%3]
	rd := &wsutil.Reader{Source: src, State: drivers.State(side) | ws.StateExtended, Extensions: exts}
	if variant != "" {
		rd.State = drivers.State(side)
		rd.SkipHeaderCheck = variant == "not-extended-nocheck"
	}
	rd.OnIntermediate = func(h ws.Header, r io.Reader) error {
		p, e := io.ReadAll(r)
		out = append(out, obs{"ctl", h, ms.IsCompressed(), p})
		return e
	}
	rd.OnContinuation = func(h ws.Header, r io.Reader) error {
		out = append(out, obs{"cont", h, ms.IsCompressed(), nil})
		return nil
	}
	for i := 0; i < 100; i++ {
		h, e := rd.NextFrame()
		if e != nil {
			return out, e
		}
		kind := "first"
		if h.OpCode.IsControl() {
			kind = "ctl"
		}
		o := obs{kind, h, ms.IsCompressed(), nil}
		idx := len(out)
		out = append(out, o)
		p, e := io.ReadAll(rd)
		out[idx].payload = p
		if e != nil {
			return out, e
		}
	}
	return out, fmt.Errorf("no termination")
}

func wsHdr(f streams.Frame) ws.Header {
	return ws.Header{Fin: f.H.Fin, Rsv: f.H.Rsv, OpCode: ws.OpCode(f.H.Op), Masked: f.H.Masked, Mask: f.H.Mask, Length: int64(len(f.Payload))}
}

func judgeRecv(frames []streams.Frame, out []obs, err error) *explore.Fail {
	// model
	compressed := false
	open := false
	k := 0 // index into out
	var msgPayload []byte
	msgIdx := -1
	for fi, f := range frames {
		ctl := refmodel.IsControl(f.H.Op)
		isFirst := !ctl && f.H.Op != 0
		if (ctl || !isFirst) && f.H.Rsv&4 != 0 {
			// must be rejected here with a protocol error; nothing after
			if k != len(out) {
				return explore.Failf("delivered-after-bad-rsv1", "frame %d has RSV1 illegally, yet %d observations (expected %d)", fi, len(out), k)
			}
			if _, ok := err.(ws.ProtocolError); !ok {
				what := "continuation"
				if ctl {
					what = "control"
				}
				return explore.Failf("rsv1-on-"+what+"-not-protocol-error", "err=%v (%T)", err, err)
			}
			// the open message (if any) must not have been completed
			return nil
		}
		if k >= len(out) {
			return explore.Failf("observation-missing", "frame %d not observed; err=%v", fi, err)
		}
		o := out[k]
		k++
		want := wsHdr(f)
		if isFirst {
			compressed = f.H.Rsv&4 != 0
			want.Rsv &^= 4
			open = !f.H.Fin
			msgIdx = k - 1
			msgPayload = append([]byte{}, f.Payload...)
		}
		wantKind := "first"
		if ctl {
			wantKind = "ctl"
		} else if !isFirst {
			wantKind = "cont"
			open = !f.H.Fin
			msgPayload = append(msgPayload, f.Payload...)
		}
		if o.kind != wantKind {
			return explore.Failf("observation-kind", "frame %d: got %s want %s", fi, o.kind, wantKind)
		}
		if o.hdr != want {
			return explore.Failf("header-handed-out-differs:"+wantKind, "got %+v want %+v", o.hdr, want)
		}
		if o.compressed != compressed {
			return explore.Failf("IsCompressed-wrong-at-"+wantKind, "frame %d: IsCompressed()=%v, first frame of the current message had RSV1=%v", fi, o.compressed, compressed)
		}
		if ctl && !bytes.Equal(o.payload, f.Payload) {
			return explore.Failf("control-payload", "")
		}
		if !ctl && !open && msgIdx >= 0 && msgIdx < len(out) {
			if !bytes.Equal(out[msgIdx].payload, msgPayload) {
				return explore.Failf("message-payload", "got %x want %x", out[msgIdx].payload, msgPayload)
			}
		}
	}
	if k != len(out) {
		return explore.Failf("extra-observations", "")
	}
	if err != io.EOF {
		return explore.Failf("valid-stream-error", "%v", err)
	}
	return nil
}

// ---- E3: round trip --------------------------------------------------------------

func roundTrip(bufN int, payloads [][]byte, compressFirst bool, chunk int) *explore.Fail {
	d := env.NewDst()
	var ms wsflate.MessageState
	w := wsutil.NewWriterBufferSize(d, ws.StateClientSide, ws.OpText, bufN)
	w.SetExtensions(&ms)
	fw := wsflate.NewWriter(nil, func(w io.Writer) wsflate.Compressor {
		f, _ := flate.NewWriter(w, 9)
		return f
	})
	var comp []bool
	for i, p := range payloads {
		c := (i%2 == 0) == compressFirst
		comp = append(comp, c)
		ms.SetCompressed(c)
		w.ResetOp(ws.OpBinary)
		if c {
			fw.Reset(w)
			if _, err := fw.Write(p); err != nil {
				return explore.Failf("compress-write", "%v", err)
			}
			if err := fw.Close(); err != nil {
				return explore.Failf("compress-close", "%v", err)
			}
		} else {
			w.Write(p)
		}
		if err := w.Flush(); err != nil {
			return explore.Failf("flush", "%v", err)
		}
	}
	src := env.NewSrc(d.Bytes())
	src.Policy = env.FixedChunk(chunk)
	var rms wsflate.MessageState
	rd := &wsutil.Reader{Source: src, State: ws.StateServerSide | ws.StateExtended, Extensions: []wsutil.RecvExtension{&rms}}
	fr := wsflate.NewReader(nil, func(r io.Reader) wsflate.Decompressor { return flate.NewReader(r) })
	for i, p := range payloads {
		h, err := rd.NextFrame()
		if err != nil {
			return explore.Failf("read-header", "message %d: %v", i, err)
		}
		if h.OpCode != ws.OpBinary || !h.Masked {
			return explore.Failf("read-header-fields", "%+v", h)
		}
		if rms.IsCompressed() != comp[i] {
			return explore.Failf("roundtrip-IsCompressed", "message %d: %v want %v", i, rms.IsCompressed(), comp[i])
		}
		var got []byte
		if rms.IsCompressed() {
			fr.Reset(rd)
			got, err = io.ReadAll(fr)
		} else {
			got, err = io.ReadAll(rd)
		}
		if err != nil {
			return explore.Failf("roundtrip-read-error:compressed="+fmt.Sprint(comp[i]), "message %d: %v", i, err)
		}
		if !bytes.Equal(got, p) {
			return explore.Failf("roundtrip-payload-differs:compressed="+fmt.Sprint(comp[i]), "message %d: got %d bytes want %d", i, len(got), len(p))
		}
	}
	if _, err := rd.NextFrame(); err != io.EOF {
		return explore.Failf("roundtrip-trailing", "%v", err)
	}
	return nil
}

func main() {
	explore.Main("C13", func(r *explore.Run) {
		r.Part("E1-send-side", func(t *explore.T) {
			alpha := msgAlphabet()
			depth := t.Pick(2, 3)
			for _, client := range []bool{false, true} {
				for _, bufN := range []int{4 + 6, 16 + 6} {
					var rec func(seq []msgSpec)
					rec = func(seq []msgSpec) {
						if len(seq) > 0 {
							seq := append([]msgSpec{}, seq...)
							client, bufN := client, bufN
							t.Do(func() string { return fmt.Sprintf("client=%v buf=%d messages=%v", client, bufN, seq) }, func() *explore.Fail {
								return runSend(client, bufN, seq, false)
							})
							if len(seq) == 1 {
								t.Do(func() string { return fmt.Sprintf("client=%v buf=%d recycled-writer messages=%v", client, bufN, seq) }, func() *explore.Fail {
									return runSend(client, bufN, seq, true)
								})
							}
						}
						if len(seq) == depth {
							return
						}
						for _, m := range alpha {
							if len(seq) >= 1 && depth == 3 && m.ctlAfter == "ControlWriter-ping" {
								continue
							}
							rec(append(seq, m))
						}
					}
					rec(nil)
				}
			}
			// a compressed message of more fragments than a 16-bit counter holds, then a plain one
			for _, client := range []bool{false, true} {
				for _, first := range []bool{true, false} {
					client, first := client, first
					seq := []msgSpec{{first, "70001", "bytewise", "none"}, {!first, "3", "write", "none"}}
					t.DoN(70005, func() string { return fmt.Sprintf("client=%v buf=1 messages=%v", client, seq) }, func() *explore.Fail {
						return runSend(client, 1+6, seq, false)
					})
				}
			}
			t.Outcome("rsv1-only-on-first-frame-of-compressed")
		})

		// An application configures the writers of two connections from one extension list of its
		// own; one writer is later Reset and given another list (longer, shorter, of equal length),
		// any number of times. The application's list is the application's, and the other writer goes
		// on marking its compressed messages with RSV1 on the first frame only.
		r.Part("E1c-one-extension-list-for-two-writers", func(t *explore.T) {
			for _, client := range []bool{false, true} {
				for _, otherLen := range []int{0, 1, 2, 3} {
					for _, rounds := range []int{1, 2, 5} {
						client, otherLen, rounds := client, otherLen, rounds
						t.Do(func() string {
							return fmt.Sprintf("client=%v: writers A and B get SetExtensions(list...) with one application list; A is Reset and given a list of %d other extensions, %d time(s); then B sends a compressed message", client, otherLen, rounds)
						}, func() *explore.Fail {
							st := ws.StateServerSide | ws.StateExtended
							if client {
								st = ws.StateClientSide | ws.StateExtended
							}
							var msB, msOther wsflate.MessageState
							pass := wsutil.SendExtensionFunc(func(h ws.Header) (ws.Header, error) { return h, nil })
							list := []wsutil.SendExtension{&msB, pass}
							keep := append([]wsutil.SendExtension{}, list...)
							dA, dB := env.NewDst(), env.NewDst()
							a := wsutil.NewWriterSize(dA, st, ws.OpText, 16)
							b := wsutil.NewWriterSize(dB, st, ws.OpText, 16)
							a.SetExtensions(list...)
							b.SetExtensions(list...)
							for i := 0; i < rounds; i++ {
								a.Write([]byte("hello"))
								a.Flush()
								a.Reset(dA, st, ws.OpText)
								other := []wsutil.SendExtension{&msOther, pass, pass}[:otherLen]
								a.SetExtensions(other...)
							}
							if len(list) != len(keep) || list[0] != keep[0] {
								return explore.Failf("application-extension-list-modified-by-another-writer", "the application's list changed under it")
							}
							msB.SetCompressed(true)
							payload := bytes.Repeat([]byte("0123456789"), 5)
							b.Write(payload)
							b.Flush()
							frames, rest := drivers.ParseFrames(dB.Bytes())
							if len(rest) != 0 || len(frames) < 2 {
								return explore.Failf("harness-frames", "%d frames, %d stray bytes", len(frames), len(rest))
							}
							for i, f := range frames {
								want := byte(0)
								if i == 0 {
									want = 4
								}
								if f.H.Rsv != want {
									return explore.Failf("RSV1-wrong-after-another-writer-was-reconfigured", "frame %d of B's compressed message has rsv=%d want %d", i, f.H.Rsv, want)
								}
							}
							return nil
						})
					}
				}
			}
			t.Outcome("ok")
		})

		// A writer borrowed with GetWriter by a connection with permessage-deflate (SetExtensions
		// with a message state that says "compressed"), used and handed back with PutWriter; the
		// next borrower - a connection without the extension, or one with a state of its own - gets
		// frames that carry RSV1 exactly as its own configuration says. The pools recycle (LIFO).
		r.Part("E1d-borrowed-writer-after-a-compressing-borrower", func(t *explore.T) {
			for _, client := range []bool{false, true} {
				for _, n := range []int{128, 256, 4096} {
					for _, how := range []string{"GetWriter", "application-writer-whose-Size-is-a-pool-class"} {
						for _, firstLen := range []int{0, 5, 3 * n} {
							for _, second := range []string{"no-extensions", "own-state-plain", "own-state-compressed"} {
								for _, n2 := range []int{n, 128, 4096} {
									client, n, how, firstLen, second, n2 := client, n, how, firstLen, second, n2
									t.Do(func() string {
										return fmt.Sprintf("client=%v: %s(%d) with a compressing message state sends %d bytes, Flush, PutWriter; then GetWriter(%d) %s sends a message", client, how, n, firstLen, n2, second)
									}, func() *explore.Fail {
										vsync.SetMode(vsync.LIFO)
										vsync.ResetAll()
										defer vsync.SetMode(vsync.FreshPoison)
										st := ws.StateServerSide
										if client {
											st = ws.StateClientSide
										}
										d1 := env.NewDst()
										var w1 *wsutil.Writer
										if how == "GetWriter" {
											w1 = wsutil.GetWriter(d1, st|ws.StateExtended, ws.OpText, n)
										} else {
											// an application buffer sized so that Size() == n, a pool class
											for total := n + 1; total <= n+16; total++ {
												w1 = wsutil.NewWriterBufferSize(d1, st|ws.StateExtended, ws.OpText, total)
												if w1.Size() == n {
													break
												}
											}
											if w1.Size() != n {
												return explore.Failf("harness-no-buffer-size-with-Size-equal-to-the-class", "n=%d", n)
											}
										}
										var ms1 wsflate.MessageState
										ms1.SetCompressed(true)
										w1.SetExtensions(&ms1)
										w1.Write(bytes.Repeat([]byte{'a'}, firstLen))
										w1.Flush()
										wsutil.PutWriter(w1)
										d2 := env.NewDst()
										w2 := wsutil.GetWriter(d2, st, ws.OpText, n2)
										var ms2 wsflate.MessageState
										wantFirst := byte(0)
										switch second {
										case "own-state-plain":
											w2.SetExtensions(&ms2)
										case "own-state-compressed":
											ms2.SetCompressed(true)
											w2.SetExtensions(&ms2)
											wantFirst = 4
										}
										w2.Write(bytes.Repeat([]byte{'b'}, 2*n2+3))
										if err := w2.Flush(); err != nil {
											return explore.Failf("borrowed-writer-flush-fails", "%v", err)
										}
										frames, rest := drivers.ParseFrames(d2.Bytes())
										if len(rest) != 0 || len(frames) < 2 {
											return explore.Failf("borrowed-writer-frames", "%d frames, %d stray bytes", len(frames), len(rest))
										}
										for i, f := range frames {
											want := byte(0)
											if i == 0 {
												want = wantFirst
											}
											if f.H.Rsv != want {
												return explore.Failf("RSV-wrong-on-a-borrowed-writer-after-a-compressing-borrower", "frame %d of the second borrower's message has rsv=%d want %d (same writer object: %v)", i, f.H.Rsv, want, w1 == w2)
											}
										}
										return nil
									})
								}
							}
						}
					}
				}
			}
			t.Outcome("ok")
		})

		// Messages that enter the writer through ReadFrom, from sources that deliver some bytes and
		// then stall (a hundred reads without bytes and without error), fail, or end; the
		// application finishes the message with Flush and sends another one. RSV1 sits on the first
		// frame of a compressed message and nowhere else, and a message that is open is continued
		// by continuation frames only.
		r.Part("E1e-ReadFrom-from-sources-that-stall-or-fail", func(t *explore.T) {
			for _, client := range []bool{false, true} {
				for _, bufN := range []int{4 + 6, 16 + 6} {
					for _, first := range []bool{true, false} {
						for _, k := range []int{0, 3, 16, 40, 100} {
							for _, end := range []string{"EOF", "stall", "error", "EOF-with-the-last-bytes"} {
								client, bufN, first, k, end := client, bufN, first, k, end
								t.Do(func() string {
									return fmt.Sprintf("client=%v buf=%d: message 1 (compressed=%v) by ReadFrom of a source giving %d bytes and then %s, Flush; message 2 (compressed=%v) by Write, Flush", client, bufN, first, k, end, !first)
								}, func() *explore.Fail {
									st := ws.StateServerSide | ws.StateExtended
									if client {
										st = ws.StateClientSide | ws.StateExtended
									}
									d := env.NewDst()
									var ms wsflate.MessageState
									w := wsutil.NewWriterBufferSize(d, st, ws.OpText, bufN)
									w.SetExtensions(&ms)
									ms.SetCompressed(first)
									w.ReadFrom(&stallingSrc{left: k, end: end})
									w.Flush()
									ms.SetCompressed(!first)
									w.Write([]byte("second"))
									w.Flush()
									frames, rest := drivers.ParseFrames(d.Bytes())
									if len(rest) != 0 {
										return explore.Failf("ReadFrom-wire-has-stray-bytes", "%d", len(rest))
									}
									// group the data frames into messages; the second message is known by its
									// payload (the first one may be missing altogether when nothing was accepted
									// or the writer remembers a failure)
									type wireMsg struct {
										idx     []int
										payload []byte
									}
									var msgs []wireMsg
									open := false
									for i, f := range frames {
										if refmodel.IsControl(f.H.Op) {
											continue
										}
										if !open {
											if f.H.Op == 0 {
												return explore.Failf("ReadFrom-continuation-without-an-open-message", "frame %d", i)
											}
											msgs = append(msgs, wireMsg{})
										} else if f.H.Op != 0 {
											return explore.Failf("ReadFrom-open-message-continued-by-a-non-continuation-frame", "frame %d of %d: op=%x rsv=%d fin=%v", i, len(frames), f.H.Op, f.H.Rsv, f.H.Fin)
										}
										m := &msgs[len(msgs)-1]
										m.idx = append(m.idx, i)
										m.payload = append(m.payload, f.Payload...)
										open = !f.H.Fin
									}
									for _, m := range msgs {
										compressed := first
										if string(m.payload) == "second" {
											compressed = !first
										}
										for j, i := range m.idx {
											want := byte(0)
											if j == 0 && compressed {
												want = 4
											}
											if frames[i].H.Rsv != want {
												return explore.Failf("ReadFrom-RSV1-not-exactly-on-the-first-frame-of-a-compressed-message", "frame %d (frame %d of its message, compressed=%v): rsv=%d want %d", i, j, compressed, frames[i].H.Rsv, want)
											}
										}
									}
									return nil
								})
							}
						}
					}
				}
			}
			t.Outcome("ok")
		})

		r.Part("E1b-bit-helpers", func(t *explore.T) {
			for fin := 0; fin < 2; fin++ {
				for op := 0; op < 16; op++ {
					for rsv := byte(0); rsv < 8; rsv++ {
						h := ws.Header{Fin: fin == 1, OpCode: ws.OpCode(op), Rsv: rsv, Length: 5}
						t.Do(func() string { return fmt.Sprintf("helpers %+v", h) }, func() *explore.Fail {
							data := h.OpCode.IsData() && h.OpCode != ws.OpContinuation
							// UnsetBit
							g, was, err := wsflate.UnsetBit(h)
							switch {
							case data:
								want := h
								want.Rsv &^= 4
								if err != nil || g != want || was != (rsv&4 != 0) {
									return explore.Failf("UnsetBit-data", "got %+v %v %v", g, was, err)
								}
							case rsv&4 != 0:
								if _, ok := err.(ws.ProtocolError); !ok {
									return explore.Failf("UnsetBit-bad-rsv1-no-protocol-error", "%v", err)
								}
							default:
								if err != nil || g != h || was {
									return explore.Failf("UnsetBit-passthrough", "")
								}
							}
							ic, ierr := wsflate.IsCompressed(h)
							if (ierr == nil) != (err == nil) || (err == nil && ic != was) {
								return explore.Failf("IsCompressed-disagrees", "")
							}
							// the message state: only the first frame of a data message decides; any other
							// frame - accepted or refused - leaves what the state says as it was
							for _, before := range []bool{false, true} {
								var ms wsflate.MessageState
								ms.SetCompressed(before)
								mg, merr := ms.UnsetBits(h)
								if (merr == nil) != (err == nil) || (err == nil && mg != g) {
									return explore.Failf("MessageState.UnsetBits-differs-from-UnsetBit", "state %v: %+v %v; UnsetBit: %+v %v", before, mg, merr, g, err)
								}
								want := before
								if data {
									want = rsv&4 != 0
								}
								if ms.IsCompressed() != want {
									return explore.Failf("MessageState-disturbed", "state said %v; after UnsetBits(%+v) (err=%v) it says %v, want %v", before, h, merr, ms.IsCompressed(), want)
								}
								// send side: SetBits never changes the state either
								var ss wsflate.MessageState
								ss.SetCompressed(before)
								ss.SetBits(h)
								if ss.IsCompressed() != before {
									return explore.Failf("MessageState-disturbed-by-SetBits", "%+v", h)
								}
							}
							// SetBit
							s, serr := wsflate.SetBit(h)
							switch {
							case rsv&4 != 0:
								if serr == nil {
									return explore.Failf("SetBit-already-set-no-error", "")
								}
							case data:
								want := h
								want.Rsv |= 4
								if serr != nil || s != want {
									return explore.Failf("SetBit-data", "%+v %v", s, serr)
								}
							default:
								if serr != nil || s != h {
									return explore.Failf("SetBit-non-first-must-not-set", "%+v %v", s, serr)
								}
							}
							return nil
						})
					}
				}
			}
			t.Outcome("ok")
		})

		r.Part("E2-receive-side", func(t *explore.T) {
			depth := t.Pick(3, 4)
			rsvs := []byte{0, 4, 2, 1, 6, 7}
			if depth == 4 {
				rsvs = []byte{0, 4, 2, 6}
			}
			ctls := []streams.Ctl{{Op: 9, Payload: []byte("pi")}, {Op: 10, Payload: nil}}
			for _, side := range []streams.Side{streams.Server, streams.Client} {
				var all [][]streams.Frame
				streams.Valid(streams.Opts{Depth: depth, Side: side, Controls: ctls}, func(fr []streams.Frame) {
					all = append(all, append([]streams.Frame{}, fr...))
				})
				side := side
				t.Par(len(all), func(i int) {
					base := all[i]
					n := len(base)
					total := 1
					for j := 0; j < n; j++ {
						total *= len(rsvs)
					}
					for code := 0; code < total; code++ {
						frames := append([]streams.Frame{}, base...)
						c := code
						for j := range frames {
							frames[j].H.Rsv = rsvs[c%len(rsvs)]
							c /= len(rsvs)
						}
						for _, chunk := range []int{0, 1} {
							chunk := chunk
							t.Do(func() string { return fmt.Sprintf("%s %s chunk=%d", side, streams.Describe(frames), chunk) }, func() *explore.Fail {
								out, err := runRecv(side, frames, chunk)
								if f := judgeRecv(frames, out, err); f != nil {
									return f
								}
								// the same stream through a reader whose state does not say "extended": with
								// the header check on this is decidable for streams without RSV bits, with the
								// check off for all of them (the extension alone rules on RSV1)
								for _, variant := range []string{"not-extended", "not-extended-nocheck"} {
									if variant == "not-extended" && code != 0 {
										continue
									}
									vout, verr := runRecvVariant(side, frames, chunk, variant)
									if f := judgeRecv(frames, vout, verr); f != nil {
										f.Sig += ":reader-state-" + variant
										return f
									}
								}
								if err == io.EOF {
									t.Outcome("delivered")
								} else {
									t.Outcome("rejected")
								}
								return nil
							})
						}
					}
				})
			}
		})

		// RSV1 on a control frame or a continuation is a protocol error of the frame's *header*: it is
		// reported as such also when the stream ends, or the transport fails, inside that frame's
		// payload - the payload of a refused frame is nobody's business.
		r.Part("E2c-refused-RSV1-frame-with-a-broken-payload", func(t *explore.T) {
			for _, side := range []streams.Side{streams.Server, streams.Client} {
				mk := func(i int, op byte, fin bool, rsv byte, p string) []byte {
					return streams.Frame{H: refmodel.Hdr{Fin: fin, Rsv: rsv, Op: op, Masked: side == streams.Server, Mask: streams.Masks[i%3]}, Payload: []byte(p)}.Wire()
				}
				type sc struct {
					name   string
					prefix []byte
					bad    []byte
				}
				scs := []sc{
					{"Ping(RSV1, pi) at the top level", nil, mk(0, 9, true, 4, "pi")},
					{"Text-(a, compressed) then Ping(RSV1, pi)", mk(0, 1, false, 4, "a"), mk(1, 9, true, 4, "pi")},
					{"Text-(a) then Close(RSV1, 03e8)", mk(0, 1, false, 0, "a"), mk(1, 8, true, 4, "\x03\xe8")},
					{"Bin-(a, compressed) then Cont(RSV1, bc)", mk(0, 2, false, 4, "a"), mk(1, 0, true, 4, "bc")},
				}
				for _, s := range scs {
					hdrLen := len(s.bad) - 2
					for got := 0; got <= 2; got++ {
						for _, end := range []string{"EOF", "error", "error-with-last-bytes", "complete"} {
							if end == "complete" && got != 2 {
								continue
							}
							if end == "error-with-last-bytes" && got == 0 {
								continue
							}
							side, s, got, end := side, s, got, end
							t.Do(func() string {
								return fmt.Sprintf("%s %s: %d of 2 payload bytes arrive, then %s", side, s.name, got, end)
							}, func() *explore.Fail {
								data := append(append([]byte{}, s.prefix...), s.bad[:hdrLen+got]...)
								src := env.NewSrc(data)
								if end == "error" || end == "error-with-last-bytes" {
									src.EndErr = env.ErrInjected
								}
								src.WithLast = end == "error-with-last-bytes"
								var ms wsflate.MessageState
								rd := &wsutil.Reader{Source: src, State: drivers.State(side) | ws.StateExtended, Extensions: []wsutil.RecvExtension{&ms}}
								rd.OnIntermediate = func(h ws.Header, r io.Reader) error {
									_, e := io.Copy(io.Discard, r)
									return e
								}
								var err error
								if len(s.prefix) > 0 {
									if _, err = rd.NextFrame(); err != nil {
										return explore.Failf("harness-prefix", "%v", err)
									}
									_, err = io.ReadAll(rd)
								} else {
									_, err = rd.NextFrame()
								}
								if _, ok := err.(ws.ProtocolError); !ok {
									return explore.Failf("illegal-RSV1-not-reported-as-protocol-error", "err=%v (%T)", err, err)
								}
								return nil
							})
						}
					}
				}
			}
			t.Outcome("protocol-error")
		})

		// A message that the application gives up on - Discard returns an error although the
		// stream stays in sync (the caller's continuation handler fails on the last fragment; the
		// transport reports a temporary error together with the message's last bytes; a control
		// handler fails between the fragments) - and then a compressed message on the same reader:
		// it is received as compressed, RSV1 cleared, payload exact; and a plain one after it.
		r.Part("E2b-compressed-message-after-a-failed-discard", func(t *explore.T) {
			errHandler := fmt.Errorf("handler: cannot take this now")
			for _, side := range []streams.Side{streams.Server, streams.Client} {
				for _, fault := range []string{"none", "continuation-handler-error-on-last-fragment", "temporary-error-with-last-bytes", "ping-handler-error-between-fragments"} {
					for _, firstCompressed := range []bool{false, true} {
						for _, chain := range []int{0, 1, 2} {
							side, fault, firstCompressed, chain := side, fault, firstCompressed, chain
							t.Do(func() string {
								return fmt.Sprintf("%s first message (compressed=%v) discarded, fault=%s, extension chain #%d; then a compressed and a plain message", side, firstCompressed, fault, chain)
							}, func() *explore.Fail {
								mk := func(i int, op byte, fin bool, rsv byte, p string) []byte {
									return streams.Frame{H: refmodel.Hdr{Fin: fin, Rsv: rsv, Op: op, Masked: side == streams.Server, Mask: streams.Masks[i%3]}, Payload: []byte(p)}.Wire()
								}
								r1 := byte(0)
								if firstCompressed {
									r1 = 4
								}
								data := mk(0, 1, false, r1, "ab")
								if fault == "ping-handler-error-between-fragments" {
									data = append(data, mk(1, 9, true, 0, "")...)
								}
								data = append(data, mk(2, 0, true, 0, "cd")...)
								end1 := len(data)
								data = append(data, mk(3, 2, true, 4, "COMP")...)
								data = append(data, mk(4, 1, true, 0, "plain")...)
								src := env.NewSrc(data)
								if fault == "temporary-error-with-last-bytes" {
									src.HiccupAt, src.HiccupErr, src.HiccupWithData = end1, env.TempErr{IsTimeout: true}, true
								}
								var ms wsflate.MessageState
								identity := wsutil.RecvExtensionFunc(func(h ws.Header) (ws.Header, error) { return h, nil })
								exts := [][]wsutil.RecvExtension{{&ms}, {&ms, identity}, {identity, &ms}}[chain]
								rd := &wsutil.Reader{Source: src, State: drivers.State(side) | ws.StateExtended, Extensions: exts}
								fired := false
								rd.OnContinuation = func(h ws.Header, r io.Reader) error {
									if fault == "continuation-handler-error-on-last-fragment" && h.Fin && !fired {
										fired = true
										io.Copy(io.Discard, r)
										return errHandler
									}
									return nil
								}
								rd.OnIntermediate = func(h ws.Header, r io.Reader) error {
									if fault == "ping-handler-error-between-fragments" && !fired {
										fired = true
										return errHandler
									}
									return nil
								}
								if _, err := rd.NextFrame(); err != nil {
									return explore.Failf("harness-first-frame", "%v", err)
								}
								derr := rd.Discard()
								if fault == "ping-handler-error-between-fragments" && derr != nil {
									// the ping was consumed; the rest of the message is still to be skipped
									derr = rd.Discard()
								}
								if fault == "none" && derr != nil {
									return explore.Failf("Discard-error", "%v", derr)
								}
								if src.Off != end1 {
									// the fault left the stream somewhere else than at the message boundary:
									// nothing to ask of what follows
									t.Outcome("not-at-boundary:" + fault)
									return nil
								}
								h, err := rd.NextFrame()
								if err != nil {
									return explore.Failf("compressed-message-refused-after-failed-discard:"+fault, "NextFrame: %v (Discard had returned %v)", err, derr)
								}
								p, err := io.ReadAll(rd)
								if err != nil || string(p) != "COMP" || h.Rsv != 0 || !ms.IsCompressed() {
									return explore.Failf("compressed-message-wrong-after-failed-discard:"+fault, "rsv=%d compressed=%v payload=%q err=%v", h.Rsv, ms.IsCompressed(), p, err)
								}
								h, err = rd.NextFrame()
								if err == nil {
									p, err = io.ReadAll(rd)
								}
								if err != nil || string(p) != "plain" || ms.IsCompressed() {
									return explore.Failf("plain-message-wrong-after-failed-discard:"+fault, "compressed=%v payload=%q err=%v", ms.IsCompressed(), p, err)
								}
								t.Outcome("received:" + fault)
								return nil
							})
						}
					}
				}
			}
		})

		r.Part("E3-round-trip", func(t *explore.T) {
			pls := [][]byte{{}, []byte("a"), []byte("hello"), []byte(strings.Repeat("ab", 600)), bytes.Repeat([]byte{0, 1, 2, 3, 250, 251}, 40)}
			for _, bufN := range []int{8 + 6, 64 + 6} {
				for _, cf := range []bool{true, false} {
					for _, chunk := range []int{0, 1, 3} {
						for a := range pls {
							for b := range pls {
								for c := range pls {
									bufN, cf, chunk := bufN, cf, chunk
									ps := [][]byte{pls[a], pls[b], pls[c]}
									t.Do(func() string {
										return fmt.Sprintf("roundtrip buf=%d compressFirst=%v chunk=%d payload lens=%d,%d,%d", bufN, cf, chunk, len(ps[0]), len(ps[1]), len(ps[2]))
									}, func() *explore.Fail { return roundTrip(bufN, ps, cf, chunk) })
								}
							}
						}
					}
				}
			}
			t.Outcome("identical")
		})
	})
}

// stallingSrc delivers left bytes (7 per Read at most) and then ends as end says: io.EOF, io.EOF
// together with the last bytes, an error, or reads without bytes and without error for ever.
type stallingSrc struct {
	left int
	end  string
}

func (s *stallingSrc) Read(p []byte) (int, error) {
	if s.left == 0 {
		switch s.end {
		case "stall":
			return 0, nil
		case "error":
			return 0, env.ErrInjected
		}
		return 0, io.EOF
	}
	n := 7
	if n > s.left {
		n = s.left
	}
	if n > len(p) {
		n = len(p)
	}
	for i := 0; i < n; i++ {
		p[i] = 'a' + byte((s.left-i)%26)
	}
	s.left -= n
	if s.left == 0 && s.end == "EOF-with-the-last-bytes" {
		return n, io.EOF
	}
	return n, nil
}
