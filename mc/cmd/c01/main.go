// C01: frame header codec is byte-exact per RFC 6455 §5.2 and its own inverse.
package main

import (
	"bufio"
	"bytes"
	"fmt"
	"io"
	"strings"

	"github.com/gobwas/ws"
	"github.com/gobwas/ws/wsutil"

	"verifmc/env"
	"verifmc/explore"
	"verifmc/refmodel"
	"verifshim/vsync"
)

func lengths(thorough bool) []uint64 {
	set := map[uint64]bool{}
	add := func(v uint64) {
		if v < 1<<63 {
			set[v] = true
		}
	}
	for _, v := range []uint64{0, 1, 2, 124, 125, 126, 127, 128, 255, 256, 257, 65534, 65535, 65536, 65537, 1<<63 - 2, 1<<63 - 1} {
		add(v)
	}
	for k := uint(1); k <= 62; k++ {
		add(1<<k - 1)
		add(1 << k)
		add(1<<k + 1)
	}
	var out []uint64
	for v := range set {
		out = append(out, v)
	}
	// deterministic order
	for i := 1; i < len(out); i++ {
		for j := i; j > 0 && out[j] < out[j-1]; j-- {
			out[j], out[j-1] = out[j-1], out[j]
		}
	}
	return out
}

var masks = [][4]byte{{0, 0, 0, 0}, {1, 2, 3, 4}, {0xff, 0xee, 0xdd, 0xcc}, {0x80, 0, 0, 1}}

func toWs(h refmodel.Hdr) ws.Header {
	return ws.Header{Fin: h.Fin, Rsv: h.Rsv, OpCode: ws.OpCode(h.Op), Masked: h.Masked, Mask: h.Mask, Length: int64(h.Len)}
}

func sameHdr(g ws.Header, h refmodel.Hdr) bool {
	if g.Fin != h.Fin || g.Rsv != h.Rsv || byte(g.OpCode) != h.Op || g.Masked != h.Masked || uint64(g.Length) != h.Len || g.Length < 0 {
		return false
	}
	if h.Masked && g.Mask != h.Mask {
		return false
	}
	return true
}

var sentinel = bytes.Repeat([]byte{0xA5}, 16)

// decodeBoth runs the two decoders over data under a read policy.
type decRes struct {
	h      ws.Header
	err    error
	used   int // bytes consumed from the source
	maxEnd int
	reads  int
}

func runReadHeader(data []byte, chunk int) decRes {
	s := env.NewSrc(data)
	s.Policy = env.FixedChunk(chunk)
	h, err := ws.ReadHeader(s)
	return decRes{h, err, s.Off, s.MaxEnd, s.Reads}
}

// The low-level decoder takes any io.Reader and may look at what the reader can do beyond
// Read (buffered readers, in-memory readers): the same bytes are presented through the
// standard library's reader types as well, buffered ones primed so that bytes are already
// waiting in the buffer.
var readerKinds = []string{"bufio-primed", "bufio-primed-16", "bytes.Reader", "bytes.Buffer", "strings.Reader"}

func runReadHeaderKind(kind string, data []byte) decRes {
	switch kind {
	case "bufio-primed", "bufio-primed-16":
		s := env.NewSrc(data)
		size := 32
		if kind == "bufio-primed-16" {
			size = 16
		}
		br := bufio.NewReaderSize(s, size)
		br.Peek(1)
		h, err := ws.ReadHeader(br)
		rest, _ := io.ReadAll(br)
		return decRes{h: h, err: err, used: len(data) - len(rest)}
	case "bytes.Reader":
		r := bytes.NewReader(data)
		h, err := ws.ReadHeader(r)
		return decRes{h: h, err: err, used: len(data) - r.Len()}
	case "bytes.Buffer":
		r := bytes.NewBuffer(append([]byte{}, data...))
		h, err := ws.ReadHeader(r)
		return decRes{h: h, err: err, used: len(data) - r.Len()}
	case "strings.Reader":
		r := strings.NewReader(string(data))
		h, err := ws.ReadHeader(r)
		return decRes{h: h, err: err, used: len(data) - r.Len()}
	}
	panic(kind)
}

func runNextFrame(data []byte, chunk int) decRes { return runNextFrameState(data, chunk, 0) }

// readerStates: with the RFC header check switched off the streaming reader decodes every
// header whatever side it is told to be on; the side must not change what it decodes.
var readerStates = []ws.State{ws.StateServerSide, ws.StateClientSide, ws.StateServerSide | ws.StateExtended}

// runNextFrameKind: the streaming reader's decoder over the standard reader types.
func runNextFrameKind(kind string, data []byte) decRes {
	var src io.Reader
	var left func() int
	switch kind {
	case "bufio-primed", "bufio-primed-16":
		size := 32
		if kind == "bufio-primed-16" {
			size = 16
		}
		br := bufio.NewReaderSize(env.NewSrc(data), size)
		br.Peek(1)
		src = br
		left = func() int { rest, _ := io.ReadAll(br); return len(rest) }
	case "bytes.Reader":
		r := bytes.NewReader(data)
		src, left = r, r.Len
	default:
		r := bytes.NewBuffer(append([]byte{}, data...))
		src, left = r, r.Len
	}
	rd := &wsutil.Reader{Source: src, SkipHeaderCheck: true}
	h, err := rd.NextFrame()
	return decRes{h: h, err: err, used: len(data) - left()}
}

func runNextFrameState(data []byte, chunk int, st ws.State) decRes {
	s := env.NewSrc(data)
	s.Policy = env.FixedChunk(chunk)
	r := &wsutil.Reader{Source: s, State: st, SkipHeaderCheck: true}
	h, err := r.NextFrame()
	return decRes{h, err, s.Off, s.MaxEnd, s.Reads}
}

// runNextFrameMax: the streaming reader's decoder with a frame-size limit configured. The limit
// is about the length the header carries, whatever form carries it.
func runNextFrameMax(data []byte, max int64) decRes {
	s := env.NewSrc(data)
	r := &wsutil.Reader{Source: s, State: ws.StateServerSide, SkipHeaderCheck: true, MaxFrameSize: max}
	h, err := r.NextFrame()
	return decRes{h, err, s.Off, s.MaxEnd, s.Reads}
}

// runHeaderInsideMessage: the streaming reader meets the bytes as the header of the next frame of
// an open message, fetched by Read. For an io.Reader io.EOF means "the message is complete", so an
// incomplete header has to surface as another error.
func runHeaderInsideMessage(data []byte, chunk int) (n int, err error) {
	pre := []byte{0x02, 0x01, 'x'} // binary, not final, one byte
	s := env.NewSrc(append(append([]byte{}, pre...), data...))
	s.Policy = env.FixedChunk(chunk)
	r := &wsutil.Reader{Source: s, SkipHeaderCheck: true}
	if _, e := r.NextFrame(); e != nil {
		return 0, fmt.Errorf("harness: %v", e)
	}
	b := make([]byte, 1)
	if k, e := r.Read(b); k != 1 || e != nil {
		return 0, fmt.Errorf("harness: first fragment: n=%d err=%v", k, e)
	}
	return r.Read(make([]byte, 8))
}

func main() {
	explore.Main("C01", func(r *explore.Run) {
		L := lengths(r.Thorough())
		r.Part("E1-encode-decode", func(t *explore.T) {
			rsvs := []byte{0, 1, 2, 3, 4, 5, 6, 7}
			t.Par(2*8*16, func(i int) {
				fin := i&1 != 0
				rsv := rsvs[(i>>1)&7]
				op := byte(i >> 4)
				for _, masked := range []bool{false, true} {
					mks := masks[:1]
					if masked {
						mks = masks
					}
					for _, mk := range mks {
						for _, ln := range L {
							h := refmodel.Hdr{Fin: fin, Rsv: rsv, Op: op, Masked: masked, Mask: mk, Len: ln}
							t.Do(func() string { return "hdr " + h.String() }, func() *explore.Fail {
								want := refmodel.HdrEncode(h)
								var buf bytes.Buffer
								if err := ws.WriteHeader(&buf, toWs(h)); err != nil {
									return explore.Failf("WriteHeader-error", "%v", err)
								}
								if !bytes.Equal(buf.Bytes(), want) {
									return explore.Failf("WriteHeader-bytes", "got %x want %x", buf.Bytes(), want)
								}
								if n := ws.HeaderSize(toWs(h)); n != len(want) {
									return explore.Failf("HeaderSize", "got %d want %d", n, len(want))
								}
								data := append(append([]byte{}, want...), sentinel...)
								for _, kind := range readerKinds {
									k := runReadHeaderKind(kind, data)
									if k.err != nil || !sameHdr(k.h, h) || k.used != len(want) {
										return explore.Failf("ReadHeader-"+kind, "err=%v got %+v consumed %d want %d", k.err, k.h, k.used, len(want))
									}
								}
								for _, chunk := range []int{0, 1} {
									for di, dec := range []func([]byte, int) decRes{runReadHeader, runNextFrame} {
										name := [2]string{"ReadHeader", "NextFrame"}[di]
										d := dec(data, chunk)
										if d.err != nil {
											return explore.Failf(name+"-error", "chunk=%d: %v", chunk, d.err)
										}
										if !sameHdr(d.h, h) {
											return explore.Failf(name+"-fields", "chunk=%d: got %+v", chunk, d.h)
										}
										if d.used != len(want) {
											return explore.Failf(name+"-consumed", "chunk=%d: consumed %d want %d", chunk, d.used, len(want))
										}
										if d.maxEnd > len(want) {
											return explore.Failf(name+"-overrequest", "chunk=%d: a Read could reach offset %d beyond header end %d", chunk, d.maxEnd, len(want))
										}
									}
								}
								return nil
							})
						}
					}
				}
			})
			t.Outcome("roundtrip-ok")
			t.Note("every header of Fin x Rsv x OpCode x Masked x 4 masks x boundary lengths; one outcome class by construction (all must round-trip)")
		})

		r.Part("E2-decoders-all-prefixes", func(t *explore.T) {
			tails := [][]byte{
				bytes.Repeat([]byte{0x00}, 12),
				bytes.Repeat([]byte{0xff}, 12),
				append([]byte{0x7f, 0xff}, bytes.Repeat([]byte{0xff}, 10)...),
				append([]byte{0x80, 0x00}, bytes.Repeat([]byte{0x00}, 10)...),
				{0x00, 0x7d, 1, 2, 3, 4, 5, 6, 7, 8, 9, 10},                  // 16-bit non-minimal 125
				{0x00, 0x7e, 1, 2, 3, 4, 5, 6, 7, 8, 9, 10},                  // 16-bit minimal 126
				{0, 0, 0, 0, 0, 0, 0xff, 0xff, 9, 8, 7, 6},                   // 64-bit non-minimal 65535
				{0, 0, 0, 0, 0, 1, 0x00, 0x00, 9, 8, 7, 6},                   // 64-bit minimal 65536
				{0x7f, 0xff, 0xff, 0xff, 0xff, 0xff, 0xff, 0xff, 1, 2, 3, 4}, // 2^63-1
				{0x80, 0, 0, 0, 0, 0, 0, 1, 1, 2, 3, 4},                      // MSB set
			}
			kinds := readerKinds[:2]
			if t.Thorough() {
				kinds = readerKinds
			}
			t.Par(65536, func(i int) {
				b0, b1 := byte(i>>8), byte(i)
				for ti, tail := range tails {
					full := append([]byte{b0, b1}, tail...)
					for cut := 0; cut <= len(full); cut++ {
						data := full[:cut]
						t.Do(func() string { return fmt.Sprintf("bytes %x tail#%d cut=%d", []byte{b0, b1}, ti, cut) }, func() *explore.Fail {
							rh, rn, nonMin, rerr := refmodel.HdrDecode(data)
							a := runReadHeader(data, 0)
							b := runNextFrame(data, 0)
							if (a.err == nil) != (b.err == nil) {
								return explore.Failf("decoders-disagree-verdict", "ReadHeader err=%v NextFrame err=%v", a.err, b.err)
							}
							for _, st := range readerStates {
								k := runNextFrameState(data, 0, st)
								if (k.err == nil) != (b.err == nil) || (b.err == nil && (k.h != b.h || k.used != b.used || k.maxEnd > b.used)) {
									return explore.Failf("NextFrame-depends-on-side", "state %08b: %+v/%d (reads reach %d) err=%v; state 0: %+v/%d err=%v", st, k.h, k.used, k.maxEnd, k.err, b.h, b.used, b.err)
								}
							}
							for _, max := range []int64{125, 1000, 65535, 70000, 1 << 62} {
								k := runNextFrameMax(data, max)
								switch {
								case b.err != nil:
									if k.err == nil {
										return explore.Failf("NextFrame-with-size-limit-accepts-what-it-refuses-without", "limit %d: %+v; without: %v", max, k.h, b.err)
									}
								case b.h.Length <= max:
									if k.err != nil || k.h != b.h || k.used != b.used {
										return explore.Failf("NextFrame-decodes-differently-under-a-size-limit", "limit %d: %+v/%d err=%v; without: %+v/%d", max, k.h, k.used, k.err, b.h, b.used)
									}
								default:
									if k.err != wsutil.ErrFrameTooLarge {
										return explore.Failf("NextFrame-size-limit-not-applied", "limit %d, header carries %d: err=%v", max, b.h.Length, k.err)
									}
								}
							}
							for _, kind := range kinds {
								k := runNextFrameKind(kind, data)
								if (k.err == nil) != (b.err == nil) || (b.err == nil && (k.h != b.h || k.used != b.used)) {
									return explore.Failf("NextFrame-depends-on-reader-type:"+kind, "plain reader: %+v/%d err=%v; %s: %+v/%d err=%v", b.h, b.used, b.err, kind, k.h, k.used, k.err)
								}
							}
							for _, kind := range kinds {
								k := runReadHeaderKind(kind, data)
								if (k.err == nil) != (a.err == nil) || (a.err == nil && (k.h != a.h || k.used != a.used)) {
									return explore.Failf("ReadHeader-depends-on-reader-type:"+kind, "plain reader: %+v/%d err=%v; %s: %+v/%d err=%v", a.h, a.used, a.err, kind, k.h, k.used, k.err)
								}
							}
							if a.err == nil && (a.h != b.h || a.used != b.used) {
								return explore.Failf("decoders-disagree-fields", "ReadHeader %+v/%d NextFrame %+v/%d", a.h, a.used, b.h, b.used)
							}
							if rerr == refmodel.ErrIncomplete {
								for _, ch := range []int{0, 1} {
									if n, e := runHeaderInsideMessage(data, ch); e == nil || e == io.EOF || n != 0 {
										return explore.Failf("incomplete-header-inside-a-message-not-a-failure", "Read returned n=%d err=%v (chunk=%d): for an io.Reader that is data or a clean end", n, e, ch)
									}
								}
							}
							if rerr != nil {
								if a.err == nil {
									return explore.Failf("accepts-bad-header", "ref says %v, decoders returned %+v", rerr, a.h)
								}
								if rerr == refmodel.ErrIncomplete {
									t.Outcome("incomplete")
								} else {
									t.Outcome("msb")
								}
								return nil
							}
							if nonMin {
								// open: refuse or decode, but both alike (checked above); if decoded the fields must be the RFC's.
								if a.err == nil && (!sameHdr(a.h, rh) || a.used != rn) {
									return explore.Failf("nonminimal-decoded-wrong", "got %+v/%d want %v/%d", a.h, a.used, rh, rn)
								}
								t.Outcome("non-minimal")
								return nil
							}
							if a.err != nil {
								return explore.Failf("rejects-valid-header", "complete minimal header %v refused: %v", rh, a.err)
							}
							if !sameHdr(a.h, rh) || a.used != rn {
								return explore.Failf("decoded-wrong", "got %+v/%d want %v/%d", a.h, a.used, rh, rn)
							}
							if a.maxEnd > rn || b.maxEnd > rn {
								return explore.Failf("overrequest", "read request could reach %d/%d beyond header end %d", a.maxEnd, b.maxEnd, rn)
							}
							t.Outcome("ok")
							return nil
						})
					}
				}
			})
		})

		// The streaming reader used as a header decoder only: the caller takes every payload straight
		// from the connection (a control handler given the connection as its source does, so does a
		// caller that splices payloads elsewhere) and comes back to NextFrame for the next header.
		// Decoding consumes "not one byte beyond" the header, so each header comes out as
		// ws.ReadHeader decodes it at that position.
		r.Part("E9-reader-as-header-decoder-payloads-taken-from-the-connection", func(t *explore.T) {
			lens := []int{0, 1, 5, 125, 126, 300}
			ops := []byte{1, 2, 9, 10}
			for _, masked := range []bool{false, true} {
				for _, l1 := range lens {
					for _, l2 := range lens {
						for _, op1 := range ops {
							if op1 >= 8 && l1 > 125 {
								continue
							}
							masked, l1, l2, op1 := masked, l1, l2, op1
							t.Do(func() string {
								return fmt.Sprintf("frames op%x(%d bytes) op2(%d bytes) op1(3 bytes), masked=%v: NextFrame, payload read from the source, NextFrame ...", op1, l1, l2, masked)
							}, func() *explore.Fail {
								var hs []refmodel.Hdr
								var data []byte
								for i, f := range []struct {
									op byte
									n  int
								}{{op1, l1}, {2, l2}, {1, 3}} {
									h := refmodel.Hdr{Fin: true, Op: f.op, Masked: masked, Mask: masks[i%len(masks)], Len: uint64(f.n)}
									hs = append(hs, h)
									data = append(data, refmodel.HdrEncode(h)...)
									data = append(data, bytes.Repeat([]byte{0x80 | byte(i)}, f.n)...)
								}
								src := env.NewSrc(data)
								rd := &wsutil.Reader{Source: src, State: ws.StateServerSide, SkipHeaderCheck: true}
								for i, want := range hs {
									at := src.Off
									h, err := rd.NextFrame()
									if err != nil {
										return explore.Failf("header-decoder-use:frame-refused", "frame %d at offset %d: %v", i, at, err)
									}
									if !sameHdr(h, want) {
										return explore.Failf("header-decoder-use:wrong-header", "frame %d at offset %d: got %+v want %v", i, at, h, want)
									}
									if src.Off != at+len(refmodel.HdrEncode(want)) {
										return explore.Failf("header-decoder-use:consumed-beyond-the-header", "frame %d: source at %d, header ends at %d", i, src.Off, at+len(refmodel.HdrEncode(want)))
									}
									if _, err := io.ReadFull(src, make([]byte, want.Len)); err != nil {
										return explore.Failf("harness-payload", "%v", err)
									}
								}
								return nil
							})
						}
					}
				}
			}
			t.Outcome("ok")
		})

		r.Part("E3-whole-frames", func(t *explore.T) {
			// every payload length up to 4200 (past the usual MTU- and page-sized staging buffers),
			// windows around the larger powers of two, and a few large ones
			var sizes []int
			for n := 0; n <= 4200; n++ {
				sizes = append(sizes, n)
			}
			for _, c := range []int{8192, 16384, 32768, 65536, 1 << 20} {
				for d := -20; d <= 20; d++ {
					sizes = append(sizes, c+d)
				}
			}
			sizes = append(sizes, 1<<21+3)
			for _, n := range sizes {
				for _, masked := range []bool{false, true} {
					for _, chunk := range []int{0, 1, 7} {
						if chunk == 1 && (n > 1000 && !t.Thorough() || n > 100000) {
							continue
						}
						if chunk == 7 && n > 200 && n < 65000 && n%97 != 0 {
							continue // chunked reading on a sample of the dense range
						}
						if n >= 1<<20-20 && n <= 1<<20+20 && n != 1<<20 && n != 1<<20+1 && n != 1<<20-1 && masked {
							continue
						}
						n, masked, chunk := n, masked, chunk
						t.Do(func() string { return fmt.Sprintf("frame len=%d masked=%v chunk=%d", n, masked, chunk) }, func() *explore.Fail {
							payload := make([]byte, n)
							for i := range payload {
								payload[i] = byte(i*7 + 3)
							}
							h := refmodel.Hdr{Fin: true, Op: 2, Masked: masked, Mask: masks[1], Len: uint64(n)}
							want := append(refmodel.HdrEncode(h), payload...)
							f := ws.Frame{Header: toWs(h), Payload: payload}
							d := env.NewDst()
							if err := ws.WriteFrame(d, f); err != nil {
								return explore.Failf("WriteFrame-error", "%v", err)
							}
							if !bytes.Equal(d.Bytes(), want) {
								return explore.Failf("WriteFrame-bytes", "len got %d want %d", len(d.Bytes()), len(want))
							}
							cb, err := ws.CompileFrame(f)
							if err != nil || !bytes.Equal(cb, want) {
								return explore.Failf("CompileFrame-bytes", "err=%v len got %d want %d", err, len(cb), len(want))
							}
							s := env.NewSrc(append(append([]byte{}, want...), sentinel...))
							s.Policy = env.FixedChunk(chunk)
							g, err := ws.ReadFrame(s)
							if err != nil {
								return explore.Failf("ReadFrame-error", "%v", err)
							}
							if !sameHdr(g.Header, h) || !bytes.Equal(g.Payload, payload) {
								return explore.Failf("ReadFrame-content", "hdr %+v payload len %d", g.Header, len(g.Payload))
							}
							if s.Off != len(want) || s.MaxEnd > len(want) {
								return explore.Failf("ReadFrame-overread", "consumed %d maxEnd %d want %d", s.Off, s.MaxEnd, len(want))
							}
							// the Must* variants are the same codec
							md := env.NewDst()
							ws.MustWriteFrame(md, f)
							if !bytes.Equal(md.Bytes(), want) || !bytes.Equal(ws.MustCompileFrame(f), want) {
								return explore.Failf("Must-variants-differ", "MustWriteFrame/MustCompileFrame bytes differ from the codec's")
							}
							ms := env.NewSrc(append(append([]byte{}, want...), sentinel...))
							ms.Policy = env.FixedChunk(chunk)
							if mg := ws.MustReadFrame(ms); !sameHdr(mg.Header, h) || !bytes.Equal(mg.Payload, payload) || ms.Off != len(want) {
								return explore.Failf("MustReadFrame-differs", "hdr %+v payload len %d consumed %d", mg.Header, len(mg.Payload), ms.Off)
							}
							// frame constructors: the header describes the payload handed in
							for _, c := range []struct {
								name string
								f    ws.Frame
								op   ws.OpCode
								fin  bool
							}{
								{"NewFrame(op=2,fin)", ws.NewFrame(ws.OpBinary, true, payload), ws.OpBinary, true},
								{"NewFrame(op=0,!fin)", ws.NewFrame(ws.OpContinuation, false, payload), ws.OpContinuation, false},
								{"NewTextFrame", ws.NewTextFrame(payload), ws.OpText, true},
								{"NewBinaryFrame", ws.NewBinaryFrame(payload), ws.OpBinary, true},
								{"NewPingFrame", ws.NewPingFrame(payload), ws.OpPing, true},
								{"NewPongFrame", ws.NewPongFrame(payload), ws.OpPong, true},
								{"NewCloseFrame", ws.NewCloseFrame(payload), ws.OpClose, true},
							} {
								hh := c.f.Header
								if hh.OpCode != c.op || hh.Fin != c.fin || hh.Rsv != 0 || hh.Masked || hh.Length != int64(n) || !bytes.Equal(c.f.Payload, payload) {
									return explore.Failf("frame-constructor:"+c.name, "header %+v for a payload of %d bytes", hh, n)
								}
							}
							rest, _ := io.ReadAll(s)
							if !bytes.Equal(rest, sentinel) {
								return explore.Failf("ReadFrame-sentinel", "following bytes disturbed")
							}
							// a frame is the header followed by exactly Length payload bytes: when fewer
							// are available ReadFrame must not hand back a frame as if it were whole
							for _, missing := range []int{1, n / 2, n} {
								if missing < 1 || missing > n {
									continue
								}
								ts := env.NewSrc(want[:len(want)-missing])
								ts.Policy = env.FixedChunk(chunk)
								tf, terr := ws.ReadFrame(ts)
								if terr == nil {
									return explore.Failf("ReadFrame-short-payload-no-error", "%d of %d payload bytes missing, err=nil, len(Payload)=%d", missing, n, len(tf.Payload))
								}
							}
							t.Outcome("ok")
							return nil
						})
					}
				}
			}
		})

		// The codec functions are stateless by contract: what one call emits or decodes must not
		// depend on which call came before it on the same goroutine, in particular not on a call
		// that failed half-way (scratch state, package-level buffers).
		r.Part("E4-history-independence", func(t *explore.T) {
			poisons := []refmodel.Hdr{
				{Fin: true, Rsv: 7, Op: 0xf, Masked: true, Mask: [4]byte{0xff, 0xff, 0xff, 0xff}, Len: 1<<63 - 1},
				{Fin: false, Rsv: 0, Op: 0, Masked: true, Mask: [4]byte{0x11, 0x22, 0x33, 0x44}, Len: 65536},
			}
			type prior struct {
				name string
				run  func(ph refmodel.Hdr)
			}
			failing := func(at, partial int) *env.Dst {
				d := env.NewDst()
				d.FailAt, d.Partial = at, partial
				return d
			}
			small := func(ph refmodel.Hdr) ws.Frame {
				ph.Len = 5
				return ws.Frame{Header: toWs(ph), Payload: []byte("hello")}
			}
			priors := []prior{
				{"none", func(refmodel.Hdr) {}},
				{"WriteHeader-ok", func(ph refmodel.Hdr) { ws.WriteHeader(env.NewDst(), toWs(ph)) }},
				{"WriteHeader-dst-fails", func(ph refmodel.Hdr) { ws.WriteHeader(failing(0, 0), toWs(ph)) }},
				{"WriteHeader-dst-fails-after-1-byte", func(ph refmodel.Hdr) { ws.WriteHeader(failing(0, 1), toWs(ph)) }},
				{"WriteFrame-ok", func(ph refmodel.Hdr) { ws.WriteFrame(env.NewDst(), small(ph)) }},
				{"WriteFrame-header-write-fails", func(ph refmodel.Hdr) { ws.WriteFrame(failing(0, 0), small(ph)) }},
				{"WriteFrame-payload-write-fails", func(ph refmodel.Hdr) { ws.WriteFrame(failing(1, 2), small(ph)) }},
				{"CompileFrame", func(ph refmodel.Hdr) { ws.CompileFrame(small(ph)) }},
				{"ReadHeader-ok", func(ph refmodel.Hdr) { ws.ReadHeader(env.NewSrc(refmodel.HdrEncode(ph))) }},
				{"ReadHeader-cut-after-1", func(ph refmodel.Hdr) { ws.ReadHeader(env.NewSrc(refmodel.HdrEncode(ph)[:1])) }},
				{"ReadHeader-cut-in-length", func(ph refmodel.Hdr) { ws.ReadHeader(env.NewSrc(refmodel.HdrEncode(ph)[:3])) }},
				{"ReadHeader-cut-in-mask", func(ph refmodel.Hdr) {
					e := refmodel.HdrEncode(ph)
					ws.ReadHeader(env.NewSrc(e[:len(e)-2]))
				}},
				{"ReadHeader-length-msb-set", func(refmodel.Hdr) {
					ws.ReadHeader(env.NewSrc([]byte{0xff, 0xff, 0xff, 0xff, 0xff, 0xff, 0xff, 0xff, 0xff, 0xff, 1, 2, 3, 4}))
				}},
				{"ReadFrame-payload-cut", func(ph refmodel.Hdr) {
					ph.Len = 5
					ws.ReadFrame(env.NewSrc(append(refmodel.HdrEncode(ph), 'h', 'e')))
				}},
			}
			lens := []uint64{0, 125, 126, 65535, 65536, 1<<63 - 1}
			// sequential, with every pool on a deterministic free list that is emptied before each
			// case: a pool declared inside gobwas/ws reaches the shim through vcheck's overlay
			vsync.SetMode(vsync.LIFO)
			defer vsync.SetMode(vsync.FreshPoison)
			for i := 0; i < len(priors)*len(poisons); i++ {
				pr, ph := priors[i/len(poisons)], poisons[i%len(poisons)]
				for hi := 0; hi < 2*3*16*2; hi++ {
					fin, rsv, op, masked := hi&1 != 0, []byte{0, 2, 7}[(hi>>1)%3], byte((hi/6)%16), (hi/96)&1 != 0
					for _, ln := range lens {
						h := refmodel.Hdr{Fin: fin, Rsv: rsv, Op: op, Masked: masked, Len: ln}
						if masked {
							h.Mask = masks[1]
						}
						t.Do(func() string { return fmt.Sprintf("after %s(%v): hdr %s", pr.name, ph, h) }, func() *explore.Fail {
							want := refmodel.HdrEncode(h)
							vsync.ResetAll()
							for round := 0; round < 2; round++ {
								pr.run(ph)
								var buf bytes.Buffer
								if err := ws.WriteHeader(&buf, toWs(h)); err != nil {
									return explore.Failf("WriteHeader-error-after:"+pr.name, "%v", err)
								}
								if !bytes.Equal(buf.Bytes(), want) {
									return explore.Failf("WriteHeader-bytes-depend-on-previous-call:"+pr.name, "got %x want %x", buf.Bytes(), want)
								}
								// the same through a *bufio.Writer whose buffer still holds the bytes of a
								// header that went out before (it offers AvailableBuffer, ReadFrom, ...)
								var under bytes.Buffer
								bw := bufio.NewWriterSize(&under, 64)
								ws.WriteHeader(bw, toWs(ph))
								bw.Flush()
								under.Reset()
								if err := ws.WriteHeader(bw, toWs(h)); err != nil {
									return explore.Failf("WriteHeader-error-into-bufio.Writer", "%v", err)
								}
								bw.Flush()
								if !bytes.Equal(under.Bytes(), want) {
									return explore.Failf("WriteHeader-bytes-depend-on-destination-history:bufio.Writer", "got %x want %x", under.Bytes(), want)
								}
								pr.run(ph)
								cb, err := ws.CompileFrame(ws.Frame{Header: toWs(refmodel.Hdr{Fin: h.Fin, Rsv: h.Rsv, Op: h.Op, Masked: h.Masked, Mask: h.Mask, Len: 0})})
								h0 := h
								h0.Len = 0
								if err != nil || !bytes.Equal(cb, refmodel.HdrEncode(h0)) {
									return explore.Failf("CompileFrame-bytes-depend-on-previous-call:"+pr.name, "err=%v got %x want %x", err, cb, refmodel.HdrEncode(h0))
								}
								pr.run(ph)
								d := runReadHeader(append(append([]byte{}, want...), sentinel...), 0)
								if d.err != nil || !sameHdr(d.h, h) || d.used != len(want) {
									return explore.Failf("ReadHeader-depends-on-previous-call:"+pr.name, "err=%v got %+v consumed %d", d.err, d.h, d.used)
								}
							}
							return nil
						})
					}
				}
			}
			t.Outcome("independent")
			t.Note(fmt.Sprintf("%d prior calls (succeeding, failing at the header or payload write, decoding cut or invalid input) x 2 poison headers, each followed by encode/compile/decode of 1152 headers; pools (gobwas/pool and any declared in gobwas/ws) on a deterministic LIFO free list, emptied before each case", len(priors)))
		})

		// A transient transport error (Temporary() == true) in the middle of a header: a decoder
		// either reports an error, or - if it chooses to carry on - returns exactly the header
		// that is on the wire and consumes exactly its bytes. It never returns a header made of
		// shifted bytes.
		r.Part("E5-transient-read-error-inside-header", func(t *explore.T) {
			var hs []refmodel.Hdr
			for _, ln := range []uint64{0, 5, 125, 126, 300, 65535, 65536, 1 << 40} {
				for _, masked := range []bool{false, true} {
					hs = append(hs, refmodel.Hdr{Fin: true, Op: 2, Masked: masked, Mask: masks[1], Len: ln}, refmodel.Hdr{Fin: false, Rsv: 5, Op: 9, Masked: masked, Mask: masks[2], Len: ln})
				}
			}
			for _, h := range hs {
				enc := refmodel.HdrEncode(h)
				// the bytes behind the header look like another header with other values
				data := append(append([]byte{}, enc...), 0x81, 0xfe, 0x12, 0x34, 0x9a, 0xbc, 0xde, 0xf0, 0x01, 0x02, 0x03, 0x04, 0x05, 0x06, 0x07, 0x08)
				for at := 0; at <= len(enc); at++ {
					for _, timeout := range []bool{false, true} {
						for di, dname := range []string{"ReadHeader", "NextFrame", "ReadFrame"} {
							h, at, timeout, di, dname := h, at, timeout, di, dname
							t.Do(func() string {
								return fmt.Sprintf("%s hdr %s: transient error (timeout=%v) after %d of %d header bytes", dname, h, timeout, at, len(enc))
							}, func() *explore.Fail {
								if dname == "ReadFrame" && h.Len > 16 {
									return nil
								}
								src := env.NewSrc(data)
								src.HiccupAt, src.HiccupErr = at, env.TempErr{IsTimeout: timeout}
								var g ws.Header
								var err error
								switch di {
								case 0:
									g, err = ws.ReadHeader(src)
								case 1:
									rd := &wsutil.Reader{Source: src, SkipHeaderCheck: true}
									g, err = rd.NextFrame()
								case 2:
									var f ws.Frame
									f, err = ws.ReadFrame(src)
									g = f.Header
								}
								if err != nil {
									t.Outcome("error-reported")
									return nil
								}
								wantUsed := len(enc)
								if di == 2 {
									wantUsed += int(h.Len)
								}
								if !sameHdr(g, h) || src.Off != wantUsed {
									return explore.Failf("header-from-shifted-bytes-after-transient-error:"+dname, "returned %+v consuming %d bytes; on the wire: %s (%d bytes)", g, src.Off, h, wantUsed)
								}
								t.Outcome("carried-on-correctly")
								return nil
							})
						}
					}
				}
			}
		})

		// The streaming reader's header decoder after an earlier stream ended in the middle of a
		// header: given a new source (the Reader has no constructor; applications set Source), it
		// decodes the new stream's first header exactly like the low-level decoder does - nothing
		// of the abandoned header is carried over.
		r.Part("E6-reader-with-a-new-source-after-a-cut-header", func(t *explore.T) {
			var hs []refmodel.Hdr
			for _, ln := range []uint64{0, 5, 126, 65536} {
				for _, masked := range []bool{false, true} {
					hs = append(hs, refmodel.Hdr{Fin: true, Rsv: 7, Op: 0xf, Masked: masked, Mask: masks[2], Len: ln}, refmodel.Hdr{Fin: false, Op: 1, Masked: masked, Mask: masks[1], Len: ln})
				}
			}
			for _, h1 := range hs {
				e1 := refmodel.HdrEncode(h1)
				for k := 0; k < len(e1); k++ {
					for _, h2 := range hs {
						h1, h2, k := h1, h2, k
						t.Do(func() string {
							return fmt.Sprintf("first stream: %d of %d bytes of hdr %s; new source: hdr %s", k, len(e1), h1, h2)
						}, func() *explore.Fail {
							rd := &wsutil.Reader{Source: env.NewSrc(e1[:k]), SkipHeaderCheck: true}
							if _, err := rd.NextFrame(); err == nil {
								return explore.Failf("cut-header-no-error", "")
							}
							e2 := refmodel.HdrEncode(h2)
							src := env.NewSrc(append(append([]byte{}, e2...), sentinel...))
							rd.Source = src
							g, err := rd.NextFrame()
							if err != nil || !sameHdr(g, h2) || src.Off != len(e2) {
								return explore.Failf("NextFrame-on-new-source-carries-old-bytes", "err=%v got %+v consuming %d; the new stream starts with %s (%d bytes)", err, g, src.Off, h2, len(e2))
							}
							return nil
						})
					}
				}
			}
			t.Outcome("as-fresh")
		})

		// The streaming reader's decoder on its second, third frame: a Reader with the header
		// check off that has read a whole message (to its end, or discarded) decodes the next
		// header - any header, legal per RFC or not - exactly like the low-level decoder.
		r.Part("E7-reader-decodes-alike-after-a-finished-message", func(t *explore.T) {
			for fin := 0; fin < 2; fin++ {
				for rsv := byte(0); rsv < 8; rsv++ {
					for op := byte(0); op < 16; op++ {
						for _, masked := range []bool{false, true} {
							for _, how := range []string{"read-to-EOF", "Discard"} {
								for _, st := range append([]ws.State{0}, readerStates...) {
									h := refmodel.Hdr{Fin: fin == 1, Rsv: rsv, Op: op, Masked: masked, Mask: masks[1], Len: 3}
									how, st := how, st
									t.Do(func() string { return fmt.Sprintf("state %08b: Text(x) %s, then hdr %s", st, how, h) }, func() *explore.Fail {
										first := append(refmodel.HdrEncode(refmodel.Hdr{Fin: true, Op: 1, Len: 1}), 'x')
										enc := refmodel.HdrEncode(h)
										src := env.NewSrc(append(append(append([]byte{}, first...), enc...), sentinel...))
										rd := &wsutil.Reader{Source: src, State: st, SkipHeaderCheck: true}
										if _, err := rd.NextFrame(); err != nil {
											return explore.Failf("harness-first-frame", "%v", err)
										}
										if how == "Discard" {
											rd.Discard()
										} else {
											io.ReadAll(rd)
										}
										g, err := rd.NextFrame()
										if err != nil || !sameHdr(g, h) || src.Off != len(first)+len(enc) {
											return explore.Failf("NextFrame-after-a-finished-message-differs-from-ReadHeader", "err=%v got %+v consumed %d; on the wire: %s", err, g, src.Off-len(first), h)
										}
										return nil
									})
								}
							}
						}
					}
				}
			}
			t.Outcome("as-ReadHeader")
		})

		// The streaming reader's decoder in the middle of a stream, over a buffered source that
		// already holds what follows (the reader Dial and Upgrade hand back): a fragmented message
		// with a control frame between its fragments whose payload the caller's handler reads
		// (entirely, in part, or not at all), then the next frame's header - decoded like ReadHeader
		// decodes those very bytes, consuming exactly them.
		r.Part("E8-decoding-after-an-in-message-control-frame-over-buffered-sources", func(t *explore.T) {
			for _, masked := range []bool{false, true} {
				for _, ctlLen := range []int{0, 1, 2, 5, 125} {
					for _, handler := range []string{"none", "reads-all", "reads-1", "reads-nothing"} {
						for _, source := range []string{"plain", "bufio-primed-4096", "bufio-primed-16", "bytes.Reader"} {
							for hi := 0; hi < 32; hi++ {
								h := refmodel.Hdr{Fin: hi&1 != 0, Rsv: byte(hi>>1) & 7, Op: []byte{1, 0xb}[hi>>4&1], Masked: masked, Mask: masks[2], Len: 4}
								masked, ctlLen, handler, source := masked, ctlLen, handler, source
								t.Do(func() string {
									return fmt.Sprintf("masked=%v Text-(ab) Ping(%d bytes, handler %s) Cont(cd) then hdr %s, source %s", masked, ctlLen, handler, h, source)
								}, func() *explore.Fail {
									fr := func(op byte, fin bool, p []byte) []byte {
										return refmodel.Frame{H: refmodel.Hdr{Fin: fin, Op: op, Masked: masked, Mask: masks[1]}, Payload: p}.Wire()
									}
									prefix := append(append(fr(1, false, []byte("ab")), fr(9, true, bytes.Repeat([]byte{'p'}, ctlLen))...), fr(0, true, []byte("cd"))...)
									enc := refmodel.HdrEncode(h)
									data := append(append(append([]byte{}, prefix...), enc...), sentinel...)
									var src io.Reader
									var left func() int
									switch source {
									case "plain":
										e := env.NewSrc(data)
										src, left = e, func() int { return len(data) - e.Off }
									case "bytes.Reader":
										b := bytes.NewReader(data)
										src, left = b, b.Len
									default:
										size := 4096
										if source == "bufio-primed-16" {
											size = 16
										}
										br := bufio.NewReaderSize(env.NewSrc(data), size)
										br.Peek(1)
										src, left = br, func() int { rest, _ := io.ReadAll(br); return len(rest) }
									}
									rd := &wsutil.Reader{Source: src, SkipHeaderCheck: true}
									switch handler {
									case "reads-all":
										rd.OnIntermediate = func(_ ws.Header, r io.Reader) error { _, err := io.Copy(io.Discard, r); return err }
									case "reads-1":
										rd.OnIntermediate = func(_ ws.Header, r io.Reader) error { r.Read(make([]byte, 1)); return nil }
									case "reads-nothing":
										rd.OnIntermediate = func(ws.Header, io.Reader) error { return nil }
									}
									if _, err := rd.NextFrame(); err != nil {
										return explore.Failf("harness-first-frame", "%v", err)
									}
									p, err := io.ReadAll(rd)
									if err != nil || string(p) != "abcd" {
										return explore.Failf("message-around-the-control-frame", "payload %q err=%v", p, err)
									}
									g, err := rd.NextFrame()
									if err != nil || !sameHdr(g, h) {
										return explore.Failf("NextFrame-after-in-message-control-frame-differs-from-ReadHeader:"+source, "err=%v got %+v; on the wire: %s", err, g, h)
									}
									if got := len(data) - left(); got != len(prefix)+len(enc) {
										return explore.Failf("consumption-after-in-message-control-frame:"+source, "consumed %d want %d", got, len(prefix)+len(enc))
									}
									return nil
								})
							}
						}
					}
				}
			}
			t.Outcome("as-ReadHeader")
		})
	})
}
