NOT_YET = {}
check("C01",
      "Exhaustive enumeration of every header over Fin x Rsv x OpCode x Masked x masks x all boundary lengths (2^k-1,2^k,2^k+1 up to 2^63-1) and of all 65536 two-byte prefixes x 10 tails x every truncation, each run through the real encoder and both real decoders and compared with an independent RFC 6455 5.2 codec; lengths are boundary-complete rather than all 2^63 values because the code branches on length only at the thresholds.",
      "Trusts the reference codec in mc/refmodel/frame.go (written from the RFC, no ws import) and the counting source in mc/env.",
      "exhaustive input-product enumeration on the real code against a reference model", "4/C01")
