// Package drivers holds the ways an application can consume a frame stream through
// gobwas/ws (wsutil.Reader loops, NextReader, ReadMessage, ReadData and its variants) and
// what each must deliver for a valid stream according to the list-of-messages model.
package drivers

import (
	"bytes"
	"errors"
	"fmt"
	"io"

	"github.com/gobwas/ws"
	"github.com/gobwas/ws/wsutil"

	"verifmc/env"
	"verifmc/refmodel"
	"verifmc/streams"
)

type Event = refmodel.Event

// Result is what a driver observed.
type Result struct {
	Events   []Event
	Err      error  // error that ended the loop (io.EOF = clean end)
	Replies  []byte // bytes written by ReadData's control handler
	ContHdrs int    // OnContinuation invocations
	Calls    int    // successful API-level deliveries
	Retries  int    // calls repeated after a transient transport error
	// ContractBroken: a Read returned a count outside 0..len(p)
	ContractBroken bool
	Reader         *wsutil.Reader
	// HandlerShort: a control handler callback got fewer bytes than announced and saw a
	// clean EOF (C16).
	HandlerShort []string
	Partial      []byte // bytes of the message being read (state keys)
	Dst          *env.Dst
}

func State(side streams.Side) ws.State {
	if side == streams.Server {
		return ws.StateServerSide
	}
	return ws.StateClientSide
}

// Driver consumes src completely (until an error).
type Driver struct {
	Name string
	// Hidden: the wsutil.Reader is created inside the library call (no fingerprint possible).
	Hidden bool
	Run    func(src io.Reader, side streams.Side, cfg Cfg, res *Result)
	// Expect maps the model's event list to what this driver must deliver.
	Expect func(ev []Event) []Event
}

// Cfg are reader options shared by the drivers that expose them.
type Cfg struct {
	Extended     bool
	MaxFrameSize int64
	CheckUTF8    bool
	Extensions   []wsutil.RecvExtension
	// SkipHeaderCheck switches the RFC header check of the drivers' own Reader off (valid
	// streams must read the same with and without it)
	SkipHeaderCheck bool
	// BetweenCalls, when set, runs before every NextFrame and every Read of the Reader-loop
	// drivers (the application doing something to its Reader between two calls)
	BetweenCalls func(rd *wsutil.Reader)
}

// WithSkipHeaderCheck is d with Reader.SkipHeaderCheck set (for the drivers that build their
// Reader themselves).
func WithSkipHeaderCheck(d Driver) Driver {
	run := d.Run
	d.Name += "+skip-header-check"
	d.Run = func(src io.Reader, side streams.Side, cfg Cfg, res *Result) {
		cfg.SkipHeaderCheck = true
		run(src, side, cfg, res)
	}
	return d
}

func identity(ev []Event) []Event { return ev }

const maxIter = 10000

// ReaderLoop: one Reader for the whole stream; NextFrame + Read with a caller buffer of
// size buf until EOF. OnIntermediate / OnContinuation record what they are handed.
func ReaderLoop(buf int) Driver { return readerLoop(buf, -1, -1) }

// ReaderCopy consumes every message with io.Copy into a bytes.Buffer (which goes through the
// reader's WriteTo or the buffer's ReadFrom, not through a Read loop of the caller's).
func ReaderCopy() Driver {
	return Driver{
		Name:   "Reader/io.Copy",
		Expect: identity,
		Run: func(src io.Reader, side streams.Side, cfg Cfg, res *Result) {
			st := State(side)
			if cfg.Extended {
				st |= ws.StateExtended
			}
			rd := &wsutil.Reader{Source: src, State: st, MaxFrameSize: cfg.MaxFrameSize, CheckUTF8: cfg.CheckUTF8, Extensions: cfg.Extensions, SkipHeaderCheck: cfg.SkipHeaderCheck}
			res.Reader = rd
			rd.OnIntermediate = func(h ws.Header, r io.Reader) error {
				var b bytes.Buffer
				_, err := io.Copy(&b, r)
				res.Events = append(res.Events, Event{Kind: "ctl", Op: byte(h.OpCode), Payload: append([]byte{}, b.Bytes()...)})
				return err
			}
			for it := 0; it < maxIter; it++ {
				h, err := rd.NextFrame()
				if err != nil {
					res.Err = err
					return
				}
				var b bytes.Buffer
				_, err = io.Copy(&b, rd)
				res.Partial = b.Bytes()
				if err != nil {
					res.Err = err
					return
				}
				kind := "msg"
				if h.OpCode.IsControl() {
					kind = "ctl"
				}
				res.Events = append(res.Events, Event{Kind: kind, Op: byte(h.OpCode), Payload: append([]byte{}, b.Bytes()...)})
				res.Partial = nil
				res.Calls++
			}
			res.Err = errors.New("driver: loop does not terminate")
		},
	}
}

// ReaderAlternatingBuffers: like ReaderLoop, but the caller's buffer is 64 bytes for the
// first Read of a message and 1 byte for all later ones (a count carried over from one Read
// to a later one would not fit that buffer).
func ReaderAlternatingBuffers() Driver {
	d := readerLoop(-64, -1, -1)
	d.Name = "Reader/buffers-64-then-1"
	return d
}

// ReaderContinuationHandler: like ReaderLoop(7), with an OnContinuation handler that reads up
// to k bytes of each continuation fragment itself (they belong to the message like the bytes
// Read returns afterwards).
func ReaderContinuationHandler(k int) Driver { return readerLoop(7, -1, k) }

// ReaderLazyHandler: like ReaderLoop(7), but the control handler looks at no more than k
// bytes of a control frame's payload and returns nil (a handler that ignores Pongs, or only
// wants a prefix). The reader has to skip what the handler left. Control events carry the
// first k bytes only.
func ReaderLazyHandler(k int) Driver { return readerLoop(7, k, -1) }

func readerLoop(buf, lazy, contReads int) Driver {
	name, expect := fmt.Sprintf("Reader/buf%d", buf), identity
	copyHandler := lazy == -2
	if copyHandler {
		name = "Reader/handler-takes-payload-with-io.Copy"
	}
	if contReads >= 0 {
		name = fmt.Sprintf("Reader/continuation-handler-reads-%d", contReads)
	}
	if lazy >= 0 {
		name = fmt.Sprintf("Reader/handler-reads-%d", lazy)
		expect = func(ev []Event) []Event {
			var out []Event
			for _, e := range ev {
				if e.Kind == "ctl" && len(e.Payload) > lazy {
					e.Payload = e.Payload[:lazy]
				}
				out = append(out, e)
			}
			return out
		}
	}
	return Driver{
		Name:   name,
		Expect: expect,
		Run: func(src io.Reader, side streams.Side, cfg Cfg, res *Result) {
			st := State(side)
			if cfg.Extended {
				st |= ws.StateExtended
			}
			rd := &wsutil.Reader{Source: src, State: st, MaxFrameSize: cfg.MaxFrameSize, CheckUTF8: cfg.CheckUTF8, Extensions: cfg.Extensions, SkipHeaderCheck: cfg.SkipHeaderCheck}
			if buf == 512 && !cfg.Extended && cfg.MaxFrameSize == 0 && len(cfg.Extensions) == 0 {
				// this variant goes through the constructors
				if side == streams.Server {
					rd = wsutil.NewServerSideReader(src)
				} else {
					rd = wsutil.NewClientSideReader(src)
				}
				rd.CheckUTF8 = cfg.CheckUTF8
			}
			res.Reader = rd
			rd.OnIntermediate = func(h ws.Header, r io.Reader) error {
				if lazy >= 0 {
					p := make([]byte, lazy)
					n, _ := io.ReadFull(r, p)
					res.Events = append(res.Events, Event{Kind: "ctl", Op: byte(h.OpCode), Payload: p[:n]})
					return nil
				}
				var p []byte
				var err error
				if copyHandler {
					// the handler takes the payload with io.Copy (which prefers the source's WriteTo)
					var b bytes.Buffer
					_, err = io.Copy(&b, r)
					p = b.Bytes()
				} else {
					p, err = io.ReadAll(r)
				}
				if err != nil {
					return err
				}
				if int64(len(p)) != h.Length {
					res.HandlerShort = append(res.HandlerShort, fmt.Sprintf("OnIntermediate op=%x announced=%d got=%d", h.OpCode, h.Length, len(p)))
				}
				res.Events = append(res.Events, Event{Kind: "ctl", Op: byte(h.OpCode), Payload: p})
				return nil
			}
			var p []byte
			rd.OnContinuation = func(h ws.Header, r io.Reader) error {
				res.ContHdrs++
				if contReads >= 0 {
					q := make([]byte, contReads)
					n, err := io.ReadFull(r, q)
					p = append(p, q[:n]...)
					if err != nil && err != io.EOF && err != io.ErrUnexpectedEOF {
						return err
					}
				}
				return nil
			}
			alternating, size := buf < 0, buf
			if alternating {
				size = -buf
			}
			full := make([]byte, size)
			for it := 0; it < maxIter; it++ {
				if cfg.BetweenCalls != nil {
					cfg.BetweenCalls(rd)
				}
				h, err := rd.NextFrame()
				if _, transient := err.(env.TempErr); transient {
					// a transport error that calls itself temporary: the application tries again
					res.Retries++
					continue
				}
				if err != nil {
					res.Err = err
					return
				}
				p = nil
				for jt := 0; ; jt++ {
					if jt > maxIter {
						res.Err = errors.New("driver: Read does not terminate")
						return
					}
					b := full
					if alternating && jt >= 1 {
						b = full[:1]
					}
					if cfg.BetweenCalls != nil {
						cfg.BetweenCalls(rd)
					}
					n, err := rd.Read(b)
					if n < 0 || n > len(b) {
						// the io.Reader contract; callers such as io.ReadAll panic on it
						res.Err = fmt.Errorf("driver: Read returned n=%d for a buffer of %d bytes (err=%v)", n, len(b), err)
						res.ContractBroken = true
						return
					}
					p = append(p, b[:n]...)
					res.Partial = p
					if _, transient := err.(env.TempErr); transient {
						res.Retries++
						continue
					}
					if err == io.EOF {
						break
					}
					if err != nil {
						res.Err = err
						return
					}
				}
				kind := "msg"
				if h.OpCode.IsControl() {
					kind = "ctl"
					if lazy >= 0 && len(p) > lazy {
						p = p[:lazy]
					}
				}
				res.Events = append(res.Events, Event{Kind: kind, Op: byte(h.OpCode), Payload: p})
				res.Partial = nil
				res.Calls++
			}
			res.Err = errors.New("driver: loop does not terminate")
			return
		},
	}
}

// ReaderCopyHandler: a Reader loop whose intermediate-control handler takes the payload with io.Copy.
func ReaderCopyHandler() Driver { return readerLoop(7, -2, -1) }

// ReaderReceiveLoop is the usual receive loop around a Reader: a control frame met at the top
// level is handed to a handler that takes exactly the announced payload (nothing at all for an
// empty one, so the Reader is not told that the frame is over), data frames are read out. When
// NextFrame refuses a frame while no message is open, the loop - like a caller that logs and
// reads on - still asks Read for bytes a few times: whatever comes out is recorded as an
// "after-refusal" event, which no model stream contains.
func ReaderReceiveLoop() Driver {
	return Driver{
		Name:   "Reader/receive-loop-reading-on-after-a-refusal",
		Expect: identity,
		Run: func(src io.Reader, side streams.Side, cfg Cfg, res *Result) {
			st := State(side)
			if cfg.Extended {
				st |= ws.StateExtended
			}
			rd := &wsutil.Reader{Source: src, State: st, MaxFrameSize: cfg.MaxFrameSize, CheckUTF8: cfg.CheckUTF8, Extensions: cfg.Extensions, SkipHeaderCheck: cfg.SkipHeaderCheck}
			res.Reader = rd
			rd.OnIntermediate = func(h ws.Header, r io.Reader) error {
				p := make([]byte, h.Length)
				if _, err := io.ReadFull(r, p); err != nil {
					return err
				}
				res.Events = append(res.Events, Event{Kind: "ctl", Op: byte(h.OpCode), Payload: p})
				return nil
			}
			for it := 0; it < maxIter; it++ {
				h, err := rd.NextFrame()
				if _, transient := err.(env.TempErr); transient {
					res.Retries++
					continue
				}
				if err != nil {
					res.Err = err
					if !rd.State.Fragmented() {
						buf := make([]byte, 64)
						for k := 0; k < 3; k++ {
							if n, _ := rd.Read(buf); n > 0 {
								res.Events = append(res.Events, Event{Kind: "after-refusal", Payload: append([]byte{}, buf[:n]...)})
							}
						}
					}
					return
				}
				if h.OpCode.IsControl() {
					p := make([]byte, h.Length)
					if h.Length > 0 {
						if _, err := io.ReadFull(rd, p); err != nil {
							res.Err = err
							return
						}
					}
					res.Events = append(res.Events, Event{Kind: "ctl", Op: byte(h.OpCode), Payload: p})
					res.Calls++
					continue
				}
				if h.Fin && h.OpCode != ws.OpContinuation && !rd.State.Fragmented() {
					// a message in one frame: exactly the announced bytes are taken, as ReadMessage does
					// (none at all for an empty one)
					p := make([]byte, h.Length)
					if h.Length > 0 {
						if _, err := io.ReadFull(rd, p); err != nil {
							res.Err = err
							return
						}
					}
					res.Events = append(res.Events, Event{Kind: "msg", Op: byte(h.OpCode), Payload: p})
					res.Calls++
					continue
				}
				var p []byte
				buf := make([]byte, 512)
				for jt := 0; ; jt++ {
					if jt > maxIter {
						res.Err = errors.New("driver: Read does not terminate")
						return
					}
					n, err := rd.Read(buf)
					p = append(p, buf[:n]...)
					res.Partial = p
					if _, transient := err.(env.TempErr); transient {
						res.Retries++
						continue
					}
					if err == io.EOF {
						break
					}
					if err != nil {
						res.Err = err
						return
					}
				}
				res.Events = append(res.Events, Event{Kind: "msg", Op: byte(h.OpCode), Payload: p})
				res.Partial = nil
				res.Calls++
			}
			res.Err = errors.New("driver: loop does not terminate")
		},
	}
}

// ReaderDiscard: like ReaderLoop but every data message is read for k bytes and then
// discarded. The event carries the bytes obtained.
func ReaderDiscard(k int) Driver {
	return Driver{
		Name: fmt.Sprintf("Reader/discard-after-%d", k),
		Expect: func(ev []Event) []Event {
			var out []Event
			for _, e := range ev {
				if e.Kind == "msg" {
					p := e.Payload
					if len(p) > k {
						p = p[:k]
					}
					out = append(out, Event{Kind: "part", Op: e.Op, Payload: p})
				} else {
					out = append(out, e)
				}
			}
			return out
		},
		Run: func(src io.Reader, side streams.Side, cfg Cfg, res *Result) {
			st := State(side)
			if cfg.Extended {
				st |= ws.StateExtended
			}
			rd := &wsutil.Reader{Source: src, State: st, MaxFrameSize: cfg.MaxFrameSize, CheckUTF8: cfg.CheckUTF8, Extensions: cfg.Extensions, SkipHeaderCheck: cfg.SkipHeaderCheck}
			res.Reader = rd
			rd.OnIntermediate = func(h ws.Header, r io.Reader) error {
				p, err := io.ReadAll(r)
				if err != nil {
					return err
				}
				res.Events = append(res.Events, Event{Kind: "ctl", Op: byte(h.OpCode), Payload: p})
				return nil
			}
			for it := 0; it < maxIter; it++ {
				h, err := rd.NextFrame()
				if err != nil {
					res.Err = err
					return
				}
				if h.OpCode.IsControl() {
					p, err := io.ReadAll(rd)
					if err != nil {
						res.Err = err
						return
					}
					res.Events = append(res.Events, Event{Kind: "ctl", Op: byte(h.OpCode), Payload: p})
					continue
				}
				b := make([]byte, k)
				n := 0
				for n < k {
					m, err := rd.Read(b[n:])
					n += m
					if err == io.EOF {
						break // the message ended before k bytes
					}
					if err != nil {
						res.Err = err
						return
					}
				}
				if err := rd.Discard(); err != nil {
					res.Err = err
					return
				}
				res.Events = append(res.Events, Event{Kind: "part", Op: byte(h.OpCode), Payload: b[:n]})
				res.Calls++
			}
			res.Err = errors.New("driver: loop does not terminate")
			return
		},
	}
}

// ReaderDiscardUTF8 is ReaderDiscard with UTF-8 checking switched on: a partial read may
// stop inside a multi-byte sequence before the rest of the message is discarded.
func ReaderDiscardUTF8(k int) Driver {
	d := ReaderDiscard(k)
	inner := d.Run
	d.Name = fmt.Sprintf("Reader/discard-after-%d/utf8", k)
	d.Run = func(src io.Reader, side streams.Side, cfg Cfg, res *Result) {
		cfg.CheckUTF8 = true
		inner(src, side, cfg, res)
	}
	return d
}

// NextReaderLoop: wsutil.NextReader per message; interleaved control frames are dropped
// (documented), top-level ones are returned like messages.
func NextReaderLoop() Driver {
	return Driver{
		Name:   "NextReader",
		Hidden: true,
		Expect: func(ev []Event) []Event { return ev }, // adjusted by caller through DropIntermediate
		Run: func(src io.Reader, side streams.Side, cfg Cfg, res *Result) {
			for it := 0; it < maxIter; it++ {
				h, r, err := wsutil.NextReader(src, State(side))
				if err != nil {
					res.Err = err
					return
				}
				p, err := io.ReadAll(r)
				if err != nil {
					res.Err = err
					return
				}
				kind := "msg"
				if h.OpCode.IsControl() {
					kind = "ctl"
				}
				res.Events = append(res.Events, Event{Kind: kind, Op: byte(h.OpCode), Payload: p})
				res.Calls++
			}
			res.Err = errors.New("driver: loop does not terminate")
			return
		},
	}
}

// ReadMessageLoop: wsutil.ReadMessage until error.
func ReadMessageLoop() Driver { return readMessageLoop(false) }

// ReadSideMessageLoop uses the side-specific shortcuts ReadClientMessage / ReadServerMessage
// and hands the message slice back as m[:0] from call to call.
func ReadSideMessageLoop() Driver { return readMessageLoop(true) }

func readMessageLoop(shortcut bool) Driver {
	name := "ReadMessage"
	if shortcut {
		name = "ReadClient/ServerMessage"
	}
	return Driver{
		Name:   name,
		Hidden: true,
		Expect: identity,
		Run: func(src io.Reader, side streams.Side, cfg Cfg, res *Result) {
			var recycled []wsutil.Message
			for it := 0; it < maxIter; it++ {
				var ms []wsutil.Message
				var err error
				switch {
				case !shortcut:
					ms, err = wsutil.ReadMessage(src, State(side), nil)
				case side == streams.Server:
					ms, err = wsutil.ReadClientMessage(src, recycled[:0])
				default:
					ms, err = wsutil.ReadServerMessage(src, recycled[:0])
				}
				if shortcut {
					// keep own copies: the slice (not the payloads) is reused by the next call
					cp := make([]wsutil.Message, len(ms))
					for i, m := range ms {
						cp[i] = wsutil.Message{OpCode: m.OpCode, Payload: append([]byte{}, m.Payload...)}
					}
					recycled, ms = ms, cp
				}
				if err != nil {
					// messages collected before the error are intermediate control frames
					// of a message that was never completed: record them separately.
					for _, m := range ms {
						res.Events = append(res.Events, Event{Kind: "ctl?", Op: byte(m.OpCode), Payload: m.Payload})
					}
					res.Err = err
					return
				}
				for _, m := range ms {
					kind := "msg"
					if m.OpCode.IsControl() {
						kind = "ctl"
					}
					res.Events = append(res.Events, Event{Kind: kind, Op: byte(m.OpCode), Payload: m.Payload})
				}
				res.Calls++
			}
			res.Err = errors.New("driver: loop does not terminate")
			return
		},
	}
}

// ReadDataLoop: one of the ReadData family until error. want is the opcode filter
// (1 text, 2 binary, 3 both); variant selects the exported entry point.
func ReadDataLoop(variant string) Driver {
	want := byte(3)
	switch variant {
	case "Text":
		want = 1
	case "Binary":
		want = 2
	}
	return Driver{
		Name:   "ReadData/" + variant,
		Hidden: true,
		Expect: func(ev []Event) []Event {
			var out []Event
			for _, e := range ev {
				if e.Kind == "msg" && e.Op&want != 0 {
					out = append(out, e)
				}
			}
			return out
		},
		Run: func(src io.Reader, side streams.Side, cfg Cfg, res *Result) {
			dst := res.Dst
			if dst == nil {
				dst = env.NewDst()
				res.Dst = dst
			}
			rw := env.RW{Reader: src, Writer: dst}
			defer func() { res.Replies = dst.Bytes() }()
			for it := 0; it < maxIter; it++ {
				var (
					p   []byte
					op  ws.OpCode
					err error
				)
				switch variant {
				case "Generic":
					p, op, err = wsutil.ReadData(rw, State(side))
				case "Data":
					if side == streams.Server {
						p, op, err = wsutil.ReadClientData(rw)
					} else {
						p, op, err = wsutil.ReadServerData(rw)
					}
				case "Text":
					op = ws.OpText
					if side == streams.Server {
						p, err = wsutil.ReadClientText(rw)
					} else {
						p, err = wsutil.ReadServerText(rw)
					}
				case "Binary":
					op = ws.OpBinary
					if side == streams.Server {
						p, err = wsutil.ReadClientBinary(rw)
					} else {
						p, err = wsutil.ReadServerBinary(rw)
					}
				default:
					panic("bad variant")
				}
				if err != nil {
					res.Err = err
					return
				}
				res.Events = append(res.Events, Event{Kind: "msg", Op: byte(op), Payload: p})
				res.Calls++
			}
			res.Err = errors.New("driver: loop does not terminate")
			return
		},
	}
}

// DropIntermediate removes control events that fall inside an open message (NextReader).
func DropIntermediate(frames []streams.Frame) []Event {
	var ev []Event
	var cur []byte
	var op byte
	open := false
	for _, f := range frames {
		switch {
		case refmodel.IsControl(f.H.Op):
			if !open {
				ev = append(ev, Event{Kind: "ctl", Op: f.H.Op, Payload: append([]byte{}, f.Payload...)})
			}
		case f.H.Op != 0:
			op, cur, open = f.H.Op, append([]byte{}, f.Payload...), !f.H.Fin
			if f.H.Fin {
				ev = append(ev, Event{Kind: "msg", Op: op, Payload: cur})
			}
		default:
			cur = append(cur, f.Payload...)
			open = !f.H.Fin
			if f.H.Fin {
				ev = append(ev, Event{Kind: "msg", Op: op, Payload: cur})
			}
		}
	}
	return ev
}

// EqualEvents compares event lists (nil and empty payloads are equal).
func EqualEvents(a, b []Event) bool {
	if len(a) != len(b) {
		return false
	}
	for i := range a {
		if a[i].Kind != b[i].Kind || a[i].Op != b[i].Op || !bytes.Equal(a[i].Payload, b[i].Payload) {
			return false
		}
	}
	return true
}

// IsPrefixEvents reports whether a is a prefix of b.
func IsPrefixEvents(a, b []Event) bool {
	if len(a) > len(b) {
		return false
	}
	return EqualEvents(a, b[:len(a)])
}

func FmtEvents(ev []Event) string {
	var b bytes.Buffer
	for i, e := range ev {
		if i > 0 {
			b.WriteByte(' ')
		}
		if len(e.Payload) > 12 {
			fmt.Fprintf(&b, "%s(%x,%x..%d)", e.Kind, e.Op, e.Payload[:4], len(e.Payload))
		} else {
			fmt.Fprintf(&b, "%s(%x,%x)", e.Kind, e.Op, e.Payload)
		}
	}
	return b.String()
}

// ParseFrames splits wire bytes into frames with the reference codec (used for replies).
// rest holds trailing bytes that do not form a whole frame.
func ParseFrames(b []byte) (out []refmodel.Frame, rest []byte) {
	for len(b) > 0 {
		h, n, _, err := refmodel.HdrDecode(b)
		if err != nil || uint64(len(b)-n) < h.Len {
			return out, b
		}
		p := b[n : n+int(h.Len)]
		if h.Masked {
			p = refmodel.XOR(p, h.Mask, 0)
		} else {
			p = append([]byte{}, p...)
		}
		out = append(out, refmodel.Frame{H: h, Payload: p})
		b = b[n+int(h.Len):]
	}
	return out, nil
}

// All returns the C04 driver set.
func All() []Driver {
	return []Driver{
		ReaderLoop(1), ReaderLoop(2), ReaderLoop(7), ReaderLoop(512),
		WithSkipHeaderCheck(ReaderLoop(7)), WithSkipHeaderCheck(ReaderDiscard(1)),
		ReaderCopy(), ReaderAlternatingBuffers(), ReaderReceiveLoop(), ReaderCopyHandler(), ReaderLazyHandler(0), ReaderLazyHandler(1), ReaderContinuationHandler(1), ReaderContinuationHandler(64),
		ReaderDiscard(0), ReaderDiscard(1), ReaderDiscardUTF8(1), ReaderDiscardUTF8(2),
		NextReaderLoop(), ReadMessageLoop(), ReadSideMessageLoop(),
		ReadDataLoop("Generic"), ReadDataLoop("Data"), ReadDataLoop("Text"), ReadDataLoop("Binary"),
	}
}
