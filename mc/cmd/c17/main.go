// C17: returned data and caller buffers are never aliased to pooled or internal memory.
// Runs single-threaded on the shimmed pools in LIFO+poison mode: every Put scribbles 0xDD
// over the object's byte storage and hands it to the very next Get of that class.
package main

import (
	"bufio"
	"bytes"
	"crypto/sha1"
	"fmt"
	"io"
	"net/url"
	"strings"

	"github.com/gobwas/httphead"
	"github.com/gobwas/ws"
	"github.com/gobwas/ws/wsflate"
	"github.com/gobwas/ws/wsutil"
	"verifshim/vsync"

	"verifmc/env"
	"verifmc/explore"
	"verifmc/hs"
	"verifmc/refmodel"
)

// snapshot renders handshake results byte-wise (a deep copy by construction).
func snapHs(h ws.Handshake) string {
	var b strings.Builder
	fmt.Fprintf(&b, "proto=%q", strings.Clone(h.Protocol))
	for _, o := range h.Extensions {
		fmt.Fprintf(&b, " ext=%q{", string(o.Name))
		o.Parameters.ForEach(func(k, v []byte) bool {
			fmt.Fprintf(&b, "%q=%q;", string(k), string(v))
			return true
		})
		b.WriteString("}")
	}
	return b.String()
}

type produced struct {
	name   string
	expect string        // what the result must be (from the inputs)
	live   func() string // re-reads the live result
	br     *bufio.Reader
	msgs   []wsutil.Message // the slice a ReadMessage producer got back (recycled as m[:0] later)
}

var theURL, _ = url.ParseRequestURI("ws://example.com/")

func request(proto, ext string, pad byte) []byte {
	return []byte("GET / HTTP/1.1\r\nHost: example.com\r\nUpgrade: websocket\r\nConnection: Upgrade\r\nSec-WebSocket-Version: 13\r\nSec-WebSocket-Key: " + hs.CanonKey +
		"\r\nSec-WebSocket-Protocol: " + proto + "\r\nSec-WebSocket-Extensions: " + ext + "\r\nX-Pad: " + strings.Repeat(string(pad), 40) + "\r\n\r\n")
}

func runUpgrader(u ws.Upgrader, req []byte) (ws.Handshake, error) {
	var out bytes.Buffer
	return u.Upgrade(struct {
		io.Reader
		io.Writer
	}{bytes.NewReader(req), &out})
}

func producers() []func() (produced, error) {
	mkUp := func(name string, u func() ws.Upgrader, proto, ext, expect string) func() (produced, error) {
		return func() (produced, error) {
			h, err := runUpgrader(u(), request(proto, ext, 'p'))
			hp := &h
			return produced{name: name, expect: expect, live: func() string { return snapHs(*hp) }}, err
		}
	}
	mkHTTP := func(name string, u func() ws.HTTPUpgrader, proto, ext, expect string) func() (produced, error) {
		return func() (produced, error) {
			_, h, err, skipped := hs.RunHTTPUpgrader(u(), request(proto, ext, 'p'))
			if skipped {
				return produced{}, fmt.Errorf("net/http refused the request")
			}
			hp := &h
			return produced{name: name, expect: expect, live: func() string { return snapHs(*hp) }}, err
		}
	}
	pmdOffer := "permessage-deflate; client_max_window_bits; server_no_context_takeover"
	pmdExpect := `proto="" ext="permessage-deflate"{"server_no_context_takeover"="";"client_no_context_takeover"="";}`
	out := []func() (produced, error){
		mkUp("Upgrader/Protocol", func() ws.Upgrader {
			return ws.Upgrader{Protocol: func(b []byte) bool { return string(b) == "beta" }}
		}, "alpha, beta, gamma", "x", `proto="beta"`),
		mkUp("Upgrader/Extension-selector", func() ws.Upgrader {
			return ws.Upgrader{Extension: func(o httphead.Option) bool { return true }}
		}, "alpha", "foo; a=1; bb=22, bar", `proto="" ext="foo"{"a"="1";"bb"="22";} ext="bar"{}`),
		mkUp("Upgrader/Negotiate-wsflate", func() ws.Upgrader {
			e := &wsflate.Extension{Parameters: wsflate.DefaultParameters}
			return ws.Upgrader{Negotiate: e.Negotiate}
		}, "alpha", pmdOffer, pmdExpect),
		mkUp("Upgrader/Protocol+Extension", func() ws.Upgrader {
			return ws.Upgrader{Protocol: func(b []byte) bool { return true }, Extension: func(o httphead.Option) bool { return string(o.Name) == "bar" }}
		}, "gamma, beta", "foo; a=1, bar; k=vvvv", `proto="gamma" ext="bar"{"k"="vvvv";}`),
		mkHTTP("HTTPUpgrader/Protocol", func() ws.HTTPUpgrader {
			return ws.HTTPUpgrader{Protocol: func(s string) bool { return s == "beta" }}
		}, "alpha, beta", "x", `proto="beta"`),
		mkHTTP("HTTPUpgrader/Extension-selector", func() ws.HTTPUpgrader {
			return ws.HTTPUpgrader{Extension: func(o httphead.Option) bool { return true }}
		}, "alpha", "foo; a=1; bb=22, bar", `proto="" ext="foo"{"a"="1";"bb"="22";} ext="bar"{}`),
		mkHTTP("HTTPUpgrader/Negotiate-wsflate", func() ws.HTTPUpgrader {
			e := &wsflate.Extension{Parameters: wsflate.DefaultParameters}
			return ws.HTTPUpgrader{Negotiate: e.Negotiate}
		}, "alpha", pmdOffer, pmdExpect),
	}
	// extension offers of every count 1..12 in one header line, all accepted (a value's number of
	// commas may steer how the selected options are copied)
	for n := 1; n <= 12; n++ {
		n := n
		out = append(out, func() (produced, error) {
			var offers, exp []string
			for i := 0; i < n; i++ {
				offers = append(offers, fmt.Sprintf("ext%02d; p=%d", i, i))
				exp = append(exp, fmt.Sprintf(` ext="ext%02d"{"p"="%d";}`, i, i))
			}
			u := ws.Upgrader{Extension: func(httphead.Option) bool { return true }}
			h, err := runUpgrader(u, request("alpha", strings.Join(offers, ", "), 'p'))
			hp := &h
			return produced{name: fmt.Sprintf("Upgrader/Extension-selector/%d-offers", n), expect: `proto=""` + strings.Join(exp, ""), live: func() string { return snapHs(*hp) }}, err
		})
	}
	// read buffers that are not a pool size class (the pool rounds them up) and header lines
	// that are longer than the configured size but may still fit the real buffer
	for _, rb := range []int{300, 1500, 5000} {
		for _, over := range []int{-40, 40} {
			rb, over := rb, over
			out = append(out, func() (produced, error) {
				var toks []string
				for n := 0; n < (rb+over-60)/6; n++ {
					toks = append(toks, fmt.Sprintf("t%04d", n))
				}
				proto := strings.Join(append(toks, "beta"), ",")
				u := ws.Upgrader{ReadBufferSize: rb, Protocol: func(b []byte) bool { return string(b) == "beta" }, Extension: func(o httphead.Option) bool { return string(o.Name) == "bar" }}
				h, err := runUpgrader(u, request(proto, "foo; a=1, bar; k=vvvv", 'p'))
				hp := &h
				return produced{name: fmt.Sprintf("Upgrader/ReadBufferSize=%d/protocol-line=%+d", rb, over), expect: `proto="beta" ext="bar"{"k"="vvvv";}`, live: func() string { return snapHs(*hp) }}, err
			})
		}
	}
	// Dial's documented pattern: the server sent frames in the same segment as its response, so a
	// reader comes back; the application reads the first frames from it with ws.ReadFrame /
	// wsutil.ReadServerData, keeps the payloads, and hands the reader back with ws.PutReader
	for _, how := range []string{"ws.ReadFrame", "wsutil.ReadServerData", "wsutil.ReadServerMessage"} {
		for _, n := range []int{5, 120, 1000} {
			how, n := how, n
			out = append(out, func() (produced, error) {
				body := bytes.Repeat([]byte{'F'}, n)
				d := ws.Dialer{}
				conn := &hs.LazyConn{}
				conn.Respond = func(req []byte) []byte {
					head := "HTTP/1.1 101 Switching Protocols\r\nUpgrade: websocket\r\nConnection: Upgrade\r\nSec-WebSocket-Accept: " + hs.Accept(hs.KeyOf(req)) + "\r\n\r\n"
					return append([]byte(head), refmodel.Frame{H: refmodel.Hdr{Fin: true, Op: 2}, Payload: body}.Wire()...)
				}
				br, _, err := d.Upgrade(conn, theURL)
				if err != nil || br == nil {
					return produced{}, fmt.Errorf("no reader returned: %v", err)
				}
				var kept []byte
				switch how {
				case "ws.ReadFrame":
					f, e := ws.ReadFrame(br)
					kept, err = f.Payload, e
				case "wsutil.ReadServerData":
					p, _, e := wsutil.ReadServerData(env.RW{Reader: br, Writer: env.NewDst()})
					kept, err = p, e
				default:
					m, e := wsutil.ReadServerMessage(br, nil)
					if e == nil && len(m) == 1 {
						kept = m[0].Payload
					}
					err = e
				}
				return produced{name: fmt.Sprintf("%s(reader returned by Dialer.Upgrade)/len%d", how, n), expect: fmt.Sprintf("%q", body), live: func() string { return fmt.Sprintf("%q", string(kept)) }, br: br}, err
			})
		}
	}
	for _, trailing := range []int{0, 9} {
		trailing := trailing
		out = append(out, func() (produced, error) {
			d := ws.Dialer{Protocols: []string{"alpha", "beta"}, Extensions: []httphead.Option{httphead.NewOption("foo", map[string]string{"q": "1"}), httphead.NewOption("bar", nil)}}
			conn := &hs.LazyConn{}
			conn.Respond = func(req []byte) []byte {
				return []byte("HTTP/1.1 101 Switching Protocols\r\nUpgrade: websocket\r\nConnection: Upgrade\r\nSec-WebSocket-Accept: " + hs.Accept(hs.KeyOf(req)) +
					"\r\nSec-WebSocket-Protocol: beta\r\nSec-WebSocket-Extensions: foo; a=1; bb=22, bar\r\n\r\n" + strings.Repeat("T", trailing))
			}
			br, h, err := d.Upgrade(conn, theURL)
			hp := &h
			exp := `proto="beta" ext="foo"{"a"="1";"bb"="22";} ext="bar"{}`
			return produced{name: fmt.Sprintf("Dialer.Upgrade/trailing%d", trailing), expect: exp, live: func() string { return snapHs(*hp) }, br: br}, err
		})
	}
	// a response that names the same extension twice (in one header value, or on two lines), the
	// second time with parameters
	for _, twoLines := range []bool{false, true} {
		twoLines := twoLines
		out = append(out, func() (produced, error) {
			d := ws.Dialer{Extensions: []httphead.Option{httphead.NewOption("foo", nil), httphead.NewOption("bar", nil)}}
			conn := &hs.LazyConn{}
			conn.Respond = func(req []byte) []byte {
				ext := "Sec-WebSocket-Extensions: foo; a=1, bar, foo; level=22; window=333\r\n"
				if twoLines {
					ext = "Sec-WebSocket-Extensions: foo; a=1, bar\r\nSec-WebSocket-Extensions: foo; level=22; window=333\r\n"
				}
				return []byte("HTTP/1.1 101 Switching Protocols\r\nUpgrade: websocket\r\nConnection: Upgrade\r\nSec-WebSocket-Accept: " + hs.Accept(hs.KeyOf(req)) + "\r\n" + ext + "\r\n")
			}
			br, h, err := d.Upgrade(conn, theURL)
			hp := &h
			exp := `proto="" ext="foo"{"a"="1";} ext="bar"{} ext="foo"{"level"="22";"window"="333";}`
			return produced{name: fmt.Sprintf("Dialer.Upgrade/extension-named-twice/two-lines=%v", twoLines), expect: exp, live: func() string { return snapHs(*hp) }, br: br}, err
		})
	}
	// close reason
	for _, side := range []ws.State{ws.StateServerSide, ws.StateClientSide} {
		for _, rl := range []int{19, 1, 57, 58, 59, 60, 61, 62, 63, 100, 123} {
			side, rl := side, rl
			out = append(out, func() (produced, error) {
				reason := "going away now, bye"
				if rl != 19 {
					reason = strings.Repeat("going away now, bye ", 7)[:rl]
				}
				body := ws.NewCloseFrameBody(1000, reason)
				wire := body
				h := ws.Header{Fin: true, OpCode: ws.OpClose, Length: int64(len(body))}
				if side.ServerSide() {
					h.Masked, h.Mask = true, [4]byte{1, 2, 3, 4}
					wire = refmodel.XOR(body, h.Mask, 0)
				}
				err := wsutil.ControlHandler{Src: bytes.NewReader(wire), Dst: env.NewDst(), State: side}.Handle(h)
				ce, ok := err.(wsutil.ClosedError)
				if !ok {
					return produced{}, fmt.Errorf("no ClosedError: %v", err)
				}
				cp := &ce
				return produced{name: fmt.Sprintf("HandleClose/state%d/reason-of-%d-bytes", side, rl), expect: fmt.Sprintf("1000 %q", reason), live: func() string { return fmt.Sprintf("%d %q", cp.Code, strings.Clone(cp.Reason)) }}, nil
			})
		}
	}
	// message payloads
	for _, n := range []int{1, 127, 128, 129, 300, 4096, 4097} {
		n := n
		mkStream := func(side ws.State) []byte {
			masked := side.ServerSide()
			mk := func(op byte, fin bool, p []byte) []byte {
				return refmodel.Frame{H: refmodel.Hdr{Fin: fin, Op: op, Masked: masked, Mask: [4]byte{9, 9, 1, 1}}, Payload: p}.Wire()
			}
			p := bytes.Repeat([]byte{'M'}, n)
			return append(append(append(mk(2, false, p[:n/2]), mk(9, true, []byte("ping-payload"))...), mk(10, true, []byte("second"))...), mk(0, true, p[n/2:])...)
		}
		for _, side := range []ws.State{ws.StateServerSide, ws.StateClientSide} {
			side := side
			out = append(out, func() (produced, error) {
				ms, err := wsutil.ReadMessage(bytes.NewReader(mkStream(side)), side, nil)
				exp := fmt.Sprintf("9:%q a:%q 2:%q", "ping-payload", "second", bytes.Repeat([]byte{'M'}, n))
				// the caller keeps the payload slices; the message slice itself may go back in as m[:0]
				type keptMsg struct {
					op ws.OpCode
					p  []byte
				}
				var kept []keptMsg
				for _, m := range ms {
					kept = append(kept, keptMsg{m.OpCode, m.Payload})
				}
				return produced{name: fmt.Sprintf("ReadMessage/state%d/len%d", side, n), expect: exp, msgs: ms, live: func() string {
					var parts []string
					for _, m := range kept {
						parts = append(parts, fmt.Sprintf("%x:%q", byte(m.op), string(m.p)))
					}
					return strings.Join(parts, " ")
				}}, err
			})
			// a message that is one final frame; the caller keeps the payload slices and later
			// hands the message slice back as m[:0]
			out = append(out, func() (produced, error) {
				masked := side.ServerSide()
				body := bytes.Repeat([]byte{'S'}, n)
				wire := refmodel.Frame{H: refmodel.Hdr{Fin: true, Op: 1, Masked: masked, Mask: [4]byte{9, 9, 1, 1}}, Payload: body}.Wire()
				ms, err := wsutil.ReadMessage(bytes.NewReader(wire), side, make([]wsutil.Message, 0, 4))
				var kept [][]byte
				for _, m := range ms {
					kept = append(kept, m.Payload)
				}
				exp := fmt.Sprintf("%q", body)
				return produced{name: fmt.Sprintf("ReadMessage-single-frame/state%d/len%d", side, n), expect: exp, msgs: ms, live: func() string {
					var parts []string
					for _, k := range kept {
						parts = append(parts, fmt.Sprintf("%q", string(k)))
					}
					return strings.Join(parts, " ")
				}}, err
			})
			out = append(out, func() (produced, error) {
				p, op, err := wsutil.ReadData(env.RW{Reader: bytes.NewReader(mkStream(side)), Writer: env.NewDst()}, side)
				exp := fmt.Sprintf("2:%q", bytes.Repeat([]byte{'M'}, n))
				return produced{name: fmt.Sprintf("ReadData/state%d/len%d", side, n), expect: exp, live: func() string { return fmt.Sprintf("%x:%q", byte(op), string(p)) }}, err
			})
		}
	}
	// messages beyond what the helpers reserve up front (1 MiB), whole and fragmented; shown by length and digest
	digest := func(op ws.OpCode, b []byte) string {
		// the first 8 KiB, the last 8 KiB and every 509th byte in between
		h := sha1.New()
		if len(b) > 16384 {
			h.Write(b[:8192])
			for i := 8192; i < len(b)-8192; i += 509 {
				h.Write(b[i : i+1])
			}
			h.Write(b[len(b)-8192:])
		} else {
			h.Write(b)
		}
		return fmt.Sprintf("%x:%d bytes digest=%x", byte(op), len(b), h.Sum(nil))
	}
	for _, n := range []int{1<<20 + 5} {
		for _, frags := range []int{1, 3} {
			for _, side := range []ws.State{ws.StateServerSide, ws.StateClientSide} {
				n, frags, side := n, frags, side
				body := make([]byte, n)
				for i := range body {
					body[i] = byte(i*11 + i>>12 + n)
				}
				var wire []byte
				for k := 0; k < frags; k++ {
					op := byte(0)
					if k == 0 {
						op = 2
					}
					wire = append(wire, refmodel.Frame{H: refmodel.Hdr{Fin: k == frags-1, Op: op, Masked: side.ServerSide(), Mask: [4]byte{9, 9, 1, 1}}, Payload: body[k*n/frags : (k+1)*n/frags]}.Wire()...)
				}
				out = append(out, func() (produced, error) {
					ms, err := wsutil.ReadMessage(bytes.NewReader(wire), side, nil)
					if len(ms) != 1 {
						return produced{}, fmt.Errorf("%d messages, err=%v", len(ms), err)
					}
					// the caller keeps the payload; the message slice itself may go back in as m[:0]
					kept, op := ms[0].Payload, ms[0].OpCode
					return produced{name: fmt.Sprintf("ReadMessage/state%d/len%d/fragments%d", side, n, frags), expect: digest(ws.OpBinary, body), msgs: ms, live: func() string {
						return digest(op, kept)
					}}, err
				})
				out = append(out, func() (produced, error) {
					p, op, err := wsutil.ReadData(env.RW{Reader: bytes.NewReader(wire), Writer: env.NewDst()}, side)
					return produced{name: fmt.Sprintf("ReadData/state%d/len%d/fragments%d", side, n, frags), expect: digest(ws.OpBinary, body), live: func() string { return digest(op, p) }}, err
				})
			}
		}
	}
	return out
}

// recycling alphabet
type recycler struct {
	name string
	run  func(p *produced)
}

func recyclers() []recycler {
	return []recycler{
		{"Upgrade-other-bytes", func(*produced) {
			runUpgrader(ws.Upgrader{Protocol: func(b []byte) bool { return string(b) == "BETA" }, Extension: func(httphead.Option) bool { return true }},
				request("ALPHA, BETA, GAMMA", "FOO; A=9; BB=99, BAR", 'Q'))
		}},
		{"Upgrade-other-bytes-odd-read-buffers", func(*produced) {
			for _, rb := range []int{300, 1500, 5000} {
				u := ws.Upgrader{ReadBufferSize: rb, Protocol: func(b []byte) bool { return string(b) == "BETA" }, Extension: func(httphead.Option) bool { return true }}
				runUpgrader(u, request(strings.Repeat("ZZZZZ,", rb/6+20)+"BETA", "FOO; A=9; BB=99, BAR", 'Q'))
			}
		}},
		{"Dialer.Upgrade-other-bytes", func(*produced) {
			d := ws.Dialer{Protocols: []string{"BETA"}, Extensions: []httphead.Option{httphead.NewOption("FOO", nil)}}
			conn := &hs.LazyConn{}
			conn.Respond = func(req []byte) []byte {
				return []byte("HTTP/1.1 101 Switching Protocols\r\nUpgrade: websocket\r\nConnection: Upgrade\r\nSec-WebSocket-Accept: " + hs.Accept(hs.KeyOf(req)) +
					"\r\nSec-WebSocket-Protocol: BETA\r\nSec-WebSocket-Extensions: FOO; A=9; BB=99\r\n\r\nZZZZ")
			}
			br, _, _ := d.Upgrade(conn, theURL)
			if br != nil {
				ws.PutReader(br)
			}
		}},
		{"ReadData-with-Ping", func(*produced) {
			mk := func(op byte, p []byte) []byte {
				return refmodel.Frame{H: refmodel.Hdr{Fin: true, Op: op, Masked: true, Mask: [4]byte{5, 6, 7, 8}}, Payload: p}.Wire()
			}
			data := append(mk(9, bytes.Repeat([]byte{'#'}, 100)), mk(1, bytes.Repeat([]byte{'%'}, 200))...)
			wsutil.ReadClientData(env.RW{Reader: bytes.NewReader(data), Writer: env.NewDst()})
		}},
		{"WriteClientMessage", func(*produced) {
			for _, n := range []int{20, 200, 5000} {
				wsutil.WriteClientMessage(env.NewDst(), ws.OpBinary, bytes.Repeat([]byte{'@'}, n))
			}
		}},
		{"CipherWriter.Write", func(*produced) {
			cw := wsutil.NewCipherWriter(env.NewDst(), [4]byte{1, 1, 1, 1})
			for _, n := range []int{20, 200, 5000} {
				cw.Write(bytes.Repeat([]byte{'!'}, n))
			}
		}},
		{"GetWriter+write+PutWriter", func(*produced) {
			for _, n := range []int{128, 256, 4096} {
				w := wsutil.GetWriter(env.NewDst(), ws.StateClientSide, ws.OpText, n)
				w.Write(bytes.Repeat([]byte{'W'}, n/2))
				w.Flush()
				wsutil.PutWriter(w)
			}
		}},
		{"PutReader(returned br)", func(p *produced) {
			if p.br != nil {
				ws.PutReader(p.br)
				p.br = nil
			}
		}},
		{"ReadMessage/ReadData-of-fragmented-and-large-messages", func(*produced) {
			for _, n := range []int{300, 5000} {
				for _, frags := range []int{2, 1} {
					var wire []byte
					for k := 0; k < frags; k++ {
						op := byte(0)
						if k == 0 {
							op = 1
						}
						wire = append(wire, refmodel.Frame{H: refmodel.Hdr{Fin: k == frags-1, Op: op}, Payload: bytes.Repeat([]byte{'f'}, n/frags)}.Wire()...)
					}
					wsutil.ReadMessage(bytes.NewReader(wire), ws.StateClientSide, nil)
					wsutil.ReadServerMessage(bytes.NewReader(wire), nil)
					wsutil.ReadServerData(env.RW{Reader: bytes.NewReader(wire), Writer: env.NewDst()})
				}
			}
		}},
		{"caller-appends-to-each-returned-payload", func(p *produced) {
			// the payloads are the caller's now: appending to one of them (into whatever spare capacity it
			// came with) is the caller's business and must not reach another one
			for i := range p.msgs {
				_ = append(p.msgs[i].Payload, bytes.Repeat([]byte{0xEE}, 64)...)
			}
		}},
		{"ReadMessage-into-recycled-slice", func(p *produced) {
			// the message slice of the producer (or a stale one of our own) goes back in as m[:0]
			m := p.msgs
			if m == nil {
				m, _ = wsutil.ReadMessage(bytes.NewReader(refmodel.Frame{H: refmodel.Hdr{Fin: true, Op: 2}, Payload: bytes.Repeat([]byte{'o'}, 300)}.Wire()), ws.StateClientSide, nil)
			}
			for _, n := range []int{1, 127, 128, 300, 4096, 4097} {
				wire := refmodel.Frame{H: refmodel.Hdr{Fin: true, Op: 2}, Payload: bytes.Repeat([]byte{'Z'}, n)}.Wire()
				m, _ = wsutil.ReadMessage(bytes.NewReader(wire), ws.StateClientSide, m[:0])
			}
		}},
		{"HandleClose-other-reason", func(*produced) {
			for _, rl := range []int{19, 1, 60, 100, 123} {
				body := ws.NewCloseFrameBody(1001, strings.Repeat("A DIFFERENT REASON! ", 7)[:rl])
				wsutil.ControlHandler{Src: bytes.NewReader(body), Dst: env.NewDst(), State: ws.StateClientSide}.Handle(ws.Header{Fin: true, OpCode: ws.OpClose, Length: int64(len(body))})
				ping := bytes.Repeat([]byte{'#'}, rl+2)
				wsutil.ControlHandler{Src: bytes.NewReader(ping), Dst: env.NewDst(), State: ws.StateClientSide}.Handle(ws.Header{Fin: true, OpCode: ws.OpPing, Length: int64(len(ping))})
			}
		}},
	}
}

func main() {
	explore.Main("C17", func(r *explore.Run) {
		vsync.SetMode(vsync.LIFOPoison)
		r.Part("E1-results-survive-recycling", func(t *explore.T) {
			ps := producers()
			rs := recyclers()
			depth := t.Pick(2, 3)
			var seqs [][]int
			var rec func(s []int)
			rec = func(s []int) {
				seqs = append(seqs, append([]int{}, s...))
				if len(s) == depth {
					return
				}
				for i := range rs {
					rec(append(s, i))
				}
			}
			rec(nil)
			for pi := range ps {
				for _, seq := range seqs {
					pi, seq := pi, seq
					var nm string
					t.Do(func() string {
						var names []string
						for _, i := range seq {
							names = append(names, rs[i].name)
						}
						if nm == "" {
							vsync.ResetAll()
							p, _ := ps[pi]()
							nm = p.name
						}
						return fmt.Sprintf("producer=%s then [%s]", nm, strings.Join(names, "; "))
					}, func() *explore.Fail {
						vsync.SetMode(vsync.LIFOPoison)
						vsync.ResetAll()
						p, err := ps[pi]()
						nm = p.name
						if err != nil {
							return explore.Failf("producer-error:"+p.name, "%v", err)
						}
						snap := p.live()
						if snap != p.expect {
							return explore.Failf("result-wrong-at-return:"+p.name, "got  %s\nwant %s", snap, p.expect)
						}
						for k, i := range seq {
							rs[i].run(&p)
							if now := p.live(); now != snap {
								return explore.Failf("result-changed-by-later-operation:"+p.name, "after step %d (%s):\nnow  %s\nwas  %s", k, rs[i].name, now, snap)
							}
						}
						if vsync.Reuses == 0 && len(seq) > 0 {
							t.Outcome("no-reuse-observed")
						} else {
							t.Outcome("stable")
						}
						return nil
					})
				}
			}
			t.Note(fmt.Sprintf("%d producing operations x every sequence of <=%d of %d recycling operations; pools shimmed: forced LIFO reuse and 0xDD poisoning on every Put", len(ps), depth, len(rs)))
		})

		r.Part("E2-write-side-leaves-caller-bytes-intact", func(t *explore.T) {
			sizes := []int{0, 1, 127, 128, 129, 255, 256, 257, 4095, 4096, 4097, 65536, 65537, 131072}
			type wcase struct {
				name string
				run  func(p []byte, d *env.Dst) (payloadOnWire func() []byte, err error)
			}
			unmaskAll := func(d *env.Dst) []byte {
				frames, _ := parseFrames(d.Bytes())
				var out []byte
				for _, f := range frames {
					out = append(out, f.Payload...)
				}
				return out
			}
			cases := []wcase{
				{"WriteClientMessage", func(p []byte, d *env.Dst) (func() []byte, error) {
					return func() []byte { return unmaskAll(d) }, wsutil.WriteClientMessage(d, ws.OpBinary, p)
				}},
				{"WriteClientText", func(p []byte, d *env.Dst) (func() []byte, error) {
					return func() []byte { return unmaskAll(d) }, wsutil.WriteClientText(d, p)
				}},
				{"WriteClientBinary", func(p []byte, d *env.Dst) (func() []byte, error) {
					return func() []byte { return unmaskAll(d) }, wsutil.WriteClientBinary(d, p)
				}},
				{"WriteServerMessage", func(p []byte, d *env.Dst) (func() []byte, error) {
					return func() []byte { return unmaskAll(d) }, wsutil.WriteServerMessage(d, ws.OpBinary, p)
				}},
				{"CipherWriter.Write", func(p []byte, d *env.Dst) (func() []byte, error) {
					cw := wsutil.NewCipherWriter(d, [4]byte{7, 8, 9, 10})
					_, err := cw.Write(p)
					return func() []byte { return refmodel.XOR(d.Bytes(), [4]byte{7, 8, 9, 10}, 0) }, err
				}},
			}
			// (the side is one bit of the state; a connection with a negotiated extension, or a writer
			// told that a fragmented message is open, carries further bits next to it)
			for _, extra := range []ws.State{ws.StateExtended, ws.StateFragmented, ws.StateExtended | ws.StateFragmented} {
				extra := extra
				cases = append(cases,
					wcase{fmt.Sprintf("WriteMessage/client-state-with-bits-%08b", extra), func(p []byte, d *env.Dst) (func() []byte, error) {
						err := wsutil.WriteMessage(d, ws.StateClientSide|extra, ws.OpBinary, p)
						return func() []byte { return unmaskAll(d) }, err
					}},
					wcase{fmt.Sprintf("Writer.WriteThrough/client-state-with-bits-%08b", extra), func(p []byte, d *env.Dst) (func() []byte, error) {
						w := wsutil.NewWriterSize(d, ws.StateClientSide|extra, ws.OpBinary, 64)
						_, err := w.WriteThrough(p)
						return func() []byte { w.Flush(); return unmaskAll(d) }, err
					}},
					wcase{fmt.Sprintf("Writer.Write-larger-than-buffer/client-state-with-bits-%08b", extra), func(p []byte, d *env.Dst) (func() []byte, error) {
						w := wsutil.NewWriterSize(d, ws.StateClientSide|extra, ws.OpBinary, 16)
						_, err := w.Write(p)
						return func() []byte { w.Flush(); return unmaskAll(d) }, err
					}},
				)
			}
			for _, client := range []bool{true, false} {
				client := client
				st := ws.StateServerSide
				if client {
					st = ws.StateClientSide
				}
				cases = append(cases,
					wcase{fmt.Sprintf("Writer.WriteThrough/client=%v", client), func(p []byte, d *env.Dst) (func() []byte, error) {
						w := wsutil.NewWriterSize(d, st, ws.OpBinary, 64)
						_, err := w.WriteThrough(p)
						return func() []byte { w.Flush(); return unmaskAll(d) }, err
					}},
					wcase{fmt.Sprintf("Writer.Write+Flush/client=%v", client), func(p []byte, d *env.Dst) (func() []byte, error) {
						w := wsutil.NewWriterSize(d, st, ws.OpBinary, 300)
						_, err := w.Write(p)
						// the final flush happens after the caller has reused its slice
						return func() []byte { w.Flush(); return unmaskAll(d) }, err
					}},
					wcase{fmt.Sprintf("Writer.Write-exact-fit+Flush/client=%v", client), func(p []byte, d *env.Dst) (func() []byte, error) {
						n := len(p)
						if n == 0 {
							n = 1
						}
						w := wsutil.NewWriterSize(d, st, ws.OpBinary, n)
						_, err := w.Write(p)
						return func() []byte { w.Flush(); return unmaskAll(d) }, err
					}},
					// the writer's buffer is the front of an arena of the application's; the payload is
					// another slice of the same arena, behind it; flushing is disabled, so a payload
					// larger than the buffer makes the writer grow
					wcase{fmt.Sprintf("NewWriterBuffer-over-arena-front.Write+Flush/client=%v", client), func(p []byte, d *env.Dst) (func() []byte, error) {
						arena := make([]byte, 256+len(p)+64)
						region := arena[256 : 256+len(p)]
						copy(region, p)
						w := wsutil.NewWriterBuffer(d, st, ws.OpBinary, arena[:128])
						w.DisableFlush()
						_, err := w.Write(region)
						return func() []byte {
							w.Flush()
							copy(p, region) // what became of the caller's bytes
							return unmaskAll(d)
						}, err
					}},
					wcase{fmt.Sprintf("GetWriter.Write+Flush/client=%v", client), func(p []byte, d *env.Dst) (func() []byte, error) {
						w := wsutil.GetWriter(d, st, ws.OpBinary, 256)
						_, err := w.Write(p)
						return func() []byte { w.Flush(); wsutil.PutWriter(w); return unmaskAll(d) }, err
					}},
				)
			}
			for _, c := range cases {
				for _, n := range sizes {
					c, n := c, n
					t.Do(func() string { return fmt.Sprintf("%s len=%d", c.name, n) }, func() *explore.Fail {
						vsync.SetMode(vsync.LIFOPoison)
						vsync.ResetAll()
						orig := make([]byte, n)
						for i := range orig {
							orig[i] = byte(i*11 + 5)
						}
						p := append([]byte{}, orig...)
						d := env.NewDst()
						wire, err := c.run(p, d)
						if err != nil {
							return explore.Failf("write-error:"+c.name, "%v", err)
						}
						if !bytes.Equal(p, orig) {
							return explore.Failf("caller-slice-modified:"+c.name, "first difference at %d", firstDiff(p, orig))
						}
						// the caller reuses its slice; more pooled traffic happens
						for i := range p {
							p[i] = 0xAB
						}
						wsutil.WriteClientMessage(env.NewDst(), ws.OpText, bytes.Repeat([]byte{'x'}, n))
						got := wire()
						if strings.HasPrefix(c.name, "NewWriterBuffer-over-arena-front") && !bytes.Equal(p, orig) {
							return explore.Failf("caller-slice-modified:"+c.name, "the payload, a slice of the caller's arena behind the writer's buffer, changed: first difference at %d", firstDiff(p, orig))
						}
						if !bytes.Equal(got, orig) {
							return explore.Failf("wire-payload-affected-by-slice-reuse:"+c.name, "first difference at %d (len %d vs %d)", firstDiff(got, orig), len(got), len(orig))
						}
						// the same call against a destination that fails at every one of its Write
						// calls in turn (accepting nothing, or half): whatever the outcome, the
						// caller's bytes stay as they were
						ncalls := len(d.Calls)
						for k := 0; k < ncalls; k++ {
							for _, partial := range []int{0, len(d.Calls[k]) / 2} {
								copy(p, orig)
								fd := env.NewDst()
								fd.FailAt, fd.Partial = k, partial
								fin, _ := c.run(p, fd)
								if !bytes.Equal(p, orig) {
									return explore.Failf("caller-slice-modified-by-failed-write:"+c.name, "destination failed at call %d (accepted %d bytes): first difference at %d", k, partial, firstDiff(p, orig))
								}
								fin()
								if !bytes.Equal(p, orig) {
									return explore.Failf("caller-slice-modified-by-flush-after-failed-write:"+c.name, "destination failed at call %d: first difference at %d", k, firstDiff(p, orig))
								}
								t.Count(1, 1)
							}
						}
						return nil
					})
				}
			}
			// control-message helpers that are handed a Message the caller keeps (what
			// ReadClientMessage/ReadServerMessage returned): the payload is the caller's before and
			// after the reply went out, whichever side replies, whether or not the destination fails
			for _, client := range []bool{true, false} {
				for _, op := range []ws.OpCode{ws.OpPing, ws.OpPong, ws.OpClose} {
					for _, n := range []int{0, 1, 2, 3, 5, 64, 124, 125} {
						for _, via := range []string{"HandleControlMessage", "HandleClient/ServerControlMessage", "HandleControlMessage/state-with-extension-bit", "ControlHandler.Handle(bytes.Reader over the caller's payload)"} {
							for _, fail := range []int{-1, 0} {
								client, op, n, via, fail := client, op, n, via, fail
								if op == ws.OpClose && n == 1 {
									continue
								}
								t.Do(func() string {
									return fmt.Sprintf("%s client=%v op=%x payload len=%d destination-fails-at=%d", via, client, byte(op), n, fail)
								}, func() *explore.Fail {
									vsync.SetMode(vsync.LIFOPoison)
									vsync.ResetAll()
									orig := make([]byte, n)
									for i := range orig {
										orig[i] = byte('a' + i%26)
									}
									if op == ws.OpClose && n >= 2 {
										orig[0], orig[1] = 0x03, 0xe8
									}
									p := append([]byte{}, orig...)
									st := ws.StateServerSide
									if client {
										st = ws.StateClientSide
									}
									d := env.NewDst()
									d.FailAt = fail
									msg := wsutil.Message{OpCode: op, Payload: p}
									switch via {
									case "HandleControlMessage":
										wsutil.HandleControlMessage(d, st, msg)
									case "HandleControlMessage/state-with-extension-bit":
										wsutil.HandleControlMessage(d, st|ws.StateExtended, msg)
									case "HandleClient/ServerControlMessage":
										if client {
											wsutil.HandleServerControlMessage(d, msg)
										} else {
											wsutil.HandleClientControlMessage(d, msg)
										}
									default:
										wsutil.ControlHandler{Src: bytes.NewReader(p), Dst: d, State: st, DisableSrcCiphering: true}.Handle(ws.Header{Fin: true, OpCode: op, Length: int64(n)})
									}
									if !bytes.Equal(p, orig) {
										return explore.Failf("caller-message-payload-modified:"+via, "client=%v op=%x: first difference at %d", client, byte(op), firstDiff(p, orig))
									}
									return nil
								})
							}
						}
					}
				}
			}
			// copying mask helpers
			for _, n := range sizes {
				n := n
				t.Do(func() string { return fmt.Sprintf("MaskFrame/MaskFrameWith/UnmaskFrame len=%d", n) }, func() *explore.Fail {
					orig := make([]byte, n)
					for i := range orig {
						orig[i] = byte(i*3 + 1)
					}
					p := append([]byte{}, orig...)
					f := ws.NewBinaryFrame(p)
					g1 := ws.MaskFrame(f)
					g2 := ws.MaskFrameWith(f, [4]byte{1, 2, 3, 4})
					f.Header.Masked, f.Header.Mask = true, [4]byte{1, 2, 3, 4}
					g3 := ws.UnmaskFrame(f)
					if !bytes.Equal(p, orig) {
						return explore.Failf("copying-helper-modified-input", "")
					}
					s1, s2, s3 := append([]byte{}, g1.Payload...), append([]byte{}, g2.Payload...), append([]byte{}, g3.Payload...)
					for i := range p {
						p[i] = 0xAB
					}
					if !bytes.Equal(g1.Payload, s1) || !bytes.Equal(g2.Payload, s2) || !bytes.Equal(g3.Payload, s3) {
						return explore.Failf("copying-helper-result-aliases-input", "")
					}
					// the same helpers on frames whose header already says masked / not masked
					// ... and on frames put together by hand, whose Length field was left at zero or says
					// something else than the payload's length: it is the slice that must stay intact
					for _, masked := range []bool{false, true} {
						for _, length := range []int64{int64(n), 0, int64(n) + 1, int64(n) / 2} {
							q := append([]byte{}, orig...)
							fr := ws.NewBinaryFrame(q)
							fr.Header.Length = length
							fr.Header.Masked, fr.Header.Mask = masked, [4]byte{5, 6, 7, 8}
							for hi, helper := range []func() ws.Frame{func() ws.Frame { return ws.MaskFrame(fr) }, func() ws.Frame { return ws.MaskFrameWith(fr, [4]byte{1, 2, 3, 4}) }, func() ws.Frame { return ws.UnmaskFrame(fr) }} {
								var g ws.Frame
								func() {
									defer func() { recover() }() // a helper may refuse an inconsistent frame; it may not scribble
									g = helper()
								}()
								if !bytes.Equal(q, orig) {
									return explore.Failf(fmt.Sprintf("copying-helper-%d-modified-input:header-masked=%v", hi, masked), "Header.Length=%d, payload of %d bytes", length, n)
								}
								if n > 0 && len(g.Payload) > 0 && &g.Payload[0] == &q[0] {
									return explore.Failf(fmt.Sprintf("copying-helper-%d-result-aliases-input:header-masked=%v", hi, masked), "Header.Length=%d, payload of %d bytes", length, n)
								}
							}
						}
					}
					return nil
				})
			}
			t.Outcome("intact")
		})
		vsync.SetMode(vsync.Passthrough)
	})
}

func firstDiff(a, b []byte) int {
	for i := 0; i < len(a) && i < len(b); i++ {
		if a[i] != b[i] {
			return i
		}
	}
	if len(a) != len(b) {
		if len(a) < len(b) {
			return len(a)
		}
		return len(b)
	}
	return -1
}
