// C06: the fragmenting writer emits one well-formed message per flush and loses no byte.
package main

import (
	"bytes"
	"fmt"
	"io"
	"strings"
	"verifmc/refmodel"
	"verifmc/streams"

	"github.com/gobwas/ws"
	"github.com/gobwas/ws/wsutil"

	"verifmc/drivers"
	"verifmc/env"
	"verifmc/explore"
	"verifmc/wops"
)

func configs(sizes []int) []wops.Cfg {
	var out []wops.Cfg
	for _, ctor := range []string{"NewWriterSize", "NewWriterBufferSize", "NewWriterBuffer", "NewWriterBuffer/spare-cap", "NewWriterBuffer/odd-address", "GetWriter"} {
		for _, n := range sizes {
			for _, client := range []bool{false, true} {
				for _, nf := range []bool{false, true} {
					for _, ext := range []bool{false, true} {
						out = append(out, wops.Cfg{Ctor: ctor, N: n, Client: client, NoFlush: nf, Ext: ext, OpCode: ws.OpBinary})
					}
				}
			}
		}
	}
	return out
}

func histDesc(c wops.Cfg, S int, h []wops.Op) string {
	var parts []string
	for _, o := range h {
		parts = append(parts, o.String())
	}
	return fmt.Sprintf("%s S=%d: %s; Flush", c, S, strings.Join(parts, "; "))
}

// runHistory executes one history on a fresh writer.
func runHistory(c wops.Cfg, h []wops.Op) *explore.Fail {
	d := env.NewDst()
	w, ok := wops.Build(c, d)
	if !ok {
		return nil
	}
	s := wops.NewSession(c, w, d)
	for _, o := range h {
		if f := s.Apply(o); f != nil {
			return f
		}
	}
	if f := s.Apply(wops.Op{Kind: "Flush"}); f != nil {
		return f
	}
	if len(s.Accepted) != 0 || s.Dirty {
		// everything accepted must be on the wire after the closing flush
	}
	return nil
}

func enumerate(t *explore.T, cfgs []wops.Cfg, depth int) {
	t.Par(len(cfgs), func(ci int) {
		c := cfgs[ci]
		w, ok := wops.Build(c, env.NewDst())
		if !ok {
			return
		}
		S := w.Size()
		alpha := append(wops.Alphabet(S), wops.Op{Kind: "Reset"})
		if c.Ext {
			alpha = append(alpha, wops.Op{Kind: "SetExtensions-again"})
		}
		var rec func(h []wops.Op)
		rec = func(h []wops.Op) {
			hh := append([]wops.Op{}, h...)
			t.Do(func() string { return histDesc(c, S, hh) }, func() *explore.Fail { return runHistory(c, hh) })
			if len(h) == depth {
				return
			}
			for _, o := range alpha {
				rec(append(h, o))
			}
		}
		rec(nil)
	})
}

func main() {
	explore.Main("C06", func(r *explore.Run) {
		small := []int{3, 4, 9, 16}
		for n := 123; n <= 133; n++ {
			small = append(small, n)
		}
		var large []int
		for n := 65535 - 2; n <= 65535+14; n++ {
			large = append(large, n)
		}
		r.Part("E1-small-buffers", func(t *explore.T) {
			enumerate(t, configs(small), 3)
			D := 3
			if t.Thorough() {
				// depth 4 on the sizes that sit on each side of the 125/126 header-reservation threshold
				// for both sides, and on the tiny ones
				D = 4
				enumerate(t, configs([]int{3, 9, 127, 128, 131, 132}), 4)
			}
			t.Outcome("well-formed")
			t.Note(fmt.Sprintf("6 constructors x sizes {3,4,9,16,123..133} x side x DisableFlush x extension (state carrying the extended/fragmented bits); every history of <=3 ops (<=%d on sizes 3,9,127,128,131,132) over the %d-op alphabet {Write 0/1/S-1/S/S+1/2S+1, ReadFrom 0/S/2S+1 from sources delivering all at once / byte-wise / data together with EOF, ReadFrom S+1 from a *bytes.Reader, ReadFrom from sources that fail after or together with 3 (S+2) bytes, WriteThrough 0/1/S+1, FlushFragment, Flush, Grow 1/S/4S, Reset to a new destination of the other side, and for writers with an extension SetExtensions with the same (bit-owning, hence not idempotent) extension again} + closing Flush; all clauses checked after every call", D, len(wops.Alphabet(16))+1))
		})
		r.Part("E2-large-buffers", func(t *explore.T) {
			D := t.Pick(2, 3)
			cf := configs(large)
			if !t.Thorough() {
				// quick: the two constructors that differ in how the header reservation is derived
				var keep []wops.Cfg
				for _, c := range cf {
					if c.Ctor == "NewWriterSize" || c.Ctor == "NewWriterBuffer" {
						keep = append(keep, c)
					}
				}
				cf = keep
			}
			enumerate(t, cf, D)
			t.Outcome("well-formed")
			t.Note(fmt.Sprintf("sizes 65533..65549 (the 16/64-bit header reservation threshold), histories of <=%d ops", D))
		})
		r.Part("E3-default-writer-and-helpers", func(t *explore.T) {
			for _, client := range []bool{false, true} {
				c := wops.Cfg{Ctor: "NewWriter", Client: client, OpCode: ws.OpText}
				enumerate(t, []wops.Cfg{c}, 2)
				// NewWriter under a default buffer size the application changed
				for _, n := range []int{16, 125, 126, 131} {
					enumerate(t, []wops.Cfg{{Ctor: "NewWriter/DefaultWriteBuffer", N: n, Client: client, OpCode: ws.OpText}}, 2)
				}
			}
			// WriteMessage and its variants: one final frame, correct opcode, masked iff client
			sizes := []int{0, 1, 125, 126, 127, 4096, 65535, 65536}
			type variant struct {
				name   string
				client bool
				op     ws.OpCode
				call   func(d *env.Dst, p []byte) error
			}
			vs := []variant{
				{"WriteMessage/server/text", false, ws.OpText, func(d *env.Dst, p []byte) error { return wsutil.WriteMessage(d, ws.StateServerSide, ws.OpText, p) }},
				{"WriteMessage/client/binary", true, ws.OpBinary, func(d *env.Dst, p []byte) error { return wsutil.WriteMessage(d, ws.StateClientSide, ws.OpBinary, p) }},
				{"WriteServerMessage", false, ws.OpBinary, func(d *env.Dst, p []byte) error { return wsutil.WriteServerMessage(d, ws.OpBinary, p) }},
				{"WriteServerText", false, ws.OpText, func(d *env.Dst, p []byte) error { return wsutil.WriteServerText(d, p) }},
				{"WriteServerBinary", false, ws.OpBinary, func(d *env.Dst, p []byte) error { return wsutil.WriteServerBinary(d, p) }},
				{"WriteClientMessage", true, ws.OpText, func(d *env.Dst, p []byte) error { return wsutil.WriteClientMessage(d, ws.OpText, p) }},
				{"WriteClientText", true, ws.OpText, func(d *env.Dst, p []byte) error { return wsutil.WriteClientText(d, p) }},
				{"WriteClientBinary", true, ws.OpBinary, func(d *env.Dst, p []byte) error { return wsutil.WriteClientBinary(d, p) }},
			}
			for _, v := range vs {
				for _, n := range sizes {
					v, n := v, n
					t.Do(func() string { return fmt.Sprintf("%s len=%d", v.name, n) }, func() *explore.Fail {
						d := env.NewDst()
						p := wops.Gen(0, n)
						keep := append([]byte{}, p...)
						if err := v.call(d, p); err != nil {
							return explore.Failf("helper-error", "%v", err)
						}
						if string(p) != string(keep) {
							return explore.Failf("helper-mutates-caller-slice", "")
						}
						fr, rest := parse(d.Bytes())
						if len(rest) != 0 || len(fr) != 1 {
							return explore.Failf("helper-not-one-frame", "%d frames, %d stray bytes", len(fr), len(rest))
						}
						f := fr[0]
						if !f.H.Fin || f.H.Op != byte(v.op) || f.H.Rsv != 0 || f.H.Masked != v.client || string(f.Payload) != string(keep) {
							return explore.Failf("helper-frame", "%v", f.H)
						}
						return nil
					})
				}
			}
			// the pooled writers, configured from one extension list that the application keeps and
			// spreads into SetExtensions for every writer it takes: three take/write/put cycles, and a
			// second writer alive at the same time
			for _, client := range []bool{false, true} {
				client := client
				t.Do(func() string {
					return fmt.Sprintf("GetWriter/PutWriter cycles sharing one extension list, client=%v", client)
				}, func() *explore.Fail {
					st := ws.StateServerSide
					if client {
						st = ws.StateClientSide
					}
					exts := []wsutil.SendExtension{wops.Rsv1First}
					live := env.NewDst()
					other := wsutil.GetWriter(live, st, ws.OpBinary, 128)
					other.SetExtensions(exts...)
					for cycle := 0; cycle < 3; cycle++ {
						d := env.NewDst()
						w := wsutil.GetWriter(d, st, ws.OpText, 128)
						w.SetExtensions(exts...)
						p := wops.Gen(cycle*10, 200)
						if _, err := w.Write(p); err != nil {
							return explore.Failf("pooled-writer-write", "cycle %d: %v", cycle, err)
						}
						if err := w.Flush(); err != nil {
							return explore.Failf("pooled-writer-flush", "cycle %d: %v", cycle, err)
						}
						wsutil.PutWriter(w)
						fr, rest := parse(d.Bytes())
						var got []byte
						for i, f := range fr {
							wantRsv := byte(0)
							if i == 0 {
								wantRsv = 4
							}
							if f.H.Rsv != wantRsv || f.H.Masked != client {
								return explore.Failf("pooled-writer-frame", "cycle %d frame %d: %v", cycle, i, f.H)
							}
							got = append(got, f.Payload...)
						}
						if len(rest) != 0 || string(got) != string(p) {
							return explore.Failf("pooled-writer-payload", "cycle %d", cycle)
						}
						if exts[0] == nil {
							return explore.Failf("application-extension-list-modified", "after PutWriter in cycle %d the application's list holds nil", cycle)
						}
					}
					other.Write(wops.Gen(0, 50))
					if err := other.Flush(); err != nil {
						return explore.Failf("second-writer-flush", "%v", err)
					}
					if fr, rest := parse(live.Bytes()); len(fr) != 1 || len(rest) != 0 || fr[0].H.Rsv != 4 {
						return explore.Failf("second-writer-frame", "%d frames", len(fr))
					}
					return nil
				})
			}
			t.Outcome("well-formed")
		})

		// A send extension that refuses some headers (only non-final frames, only first frames,
		// every second call): a call that reports n accepted bytes has made exactly those n bytes
		// part of the stream - what reaches the destination is, at every call boundary, whole frames
		// whose payloads are a prefix of the accepted bytes in order; a refused write-through that
		// reported 0 never shows up later. (Plain writes larger than the free buffer space are not
		// part of these histories.)
		r.Part("E5-an-extension-that-refuses-some-frames", func(t *explore.T) {
			type op struct {
				kind string
				k    int
			}
			const S = 8
			alpha := []op{{"WriteThrough", 1}, {"WriteThrough", S}, {"WriteThrough", S + 3}, {"Write", 1}, {"ReadFrom", 2}, {"FlushFragment", 0}, {"Flush", 0}}
			var hists [][]op
			var rec func(h []op)
			rec = func(h []op) {
				if len(h) > 0 {
					hists = append(hists, append([]op{}, h...))
				}
				if len(h) == t.Pick(4, 5) {
					return
				}
				for _, o := range alpha {
					rec(append(h, o))
				}
			}
			rec(nil)
			errRefused := fmt.Errorf("extension: not this frame")
			t.Par(len(hists), func(hi int) {
				h := hists[hi]
				for _, client := range []bool{false, true} {
					for _, policy := range []string{"non-final", "first-frames", "every-second-call", "never, but answers with a header it builds itself"} {
						client, policy := client, policy
						t.Do(func() string {
							return fmt.Sprintf("client=%v buffer=%d extension refuses %s: %v; Flush", client, S, policy, h)
						}, func() *explore.Fail {
							d := env.NewDst()
							st := ws.StateServerSide
							if client {
								st = ws.StateClientSide
							}
							w := wsutil.NewWriterSize(d, st|ws.StateExtended, ws.OpBinary, S)
							calls := 0
							w.SetExtensions(wsutil.SendExtensionFunc(func(hd ws.Header) (ws.Header, error) {
								calls++
								if strings.HasPrefix(policy, "never") {
									// what the extension owns is the reserved bits: it copies what it knows about
									return ws.Header{Fin: hd.Fin, Rsv: hd.Rsv, OpCode: hd.OpCode, Length: hd.Length}, nil
								}
								switch {
								case policy == "non-final" && !hd.Fin, policy == "first-frames" && hd.OpCode != ws.OpContinuation, policy == "every-second-call" && calls%2 == 0:
									return hd, errRefused
								}
								return hd, nil
							}))
							var accepted []byte
							var sticky error
							pos := 0
							for i, o := range append(append([]op{}, h...), op{"Flush", 0}) {
								p := wops.Gen(pos, o.k)
								pos += o.k
								n := 0
								var err error
								switch o.kind {
								case "WriteThrough":
									n, err = w.WriteThrough(p)
								case "Write":
									n, err = w.Write(p)
								case "ReadFrom":
									var n64 int64
									n64, err = w.ReadFrom(bytes.NewReader(p))
									n = int(n64)
								case "FlushFragment":
									err = w.FlushFragment()
								default:
									err = w.Flush()
								}
								// a flush that failed leaves the writer broken for good: every later write and
								// flush reports that very error (reader-to-writer copies may still fill the buffer)
								if sticky != nil && o.kind != "ReadFrom" && err != sticky {
									return explore.Failf("broken-writer-reports-another-error:"+o.kind, "call %d %v returned %v; the writer had failed with %v", i, o, err, sticky)
								}
								if sticky == nil && err != nil && (o.kind == "FlushFragment" || o.kind == "Flush") {
									sticky = err
								}
								if n < 0 || n > len(p) {
									return explore.Failf("count-out-of-range", "call %d %v: n=%d", i, o, n)
								}
								accepted = append(accepted, p[:n]...)
								frames, rest := drivers.ParseFrames(d.Bytes())
								if len(rest) != 0 {
									return explore.Failf("partial-frame-at-call-boundary:refusing-extension", "after call %d %v (err=%v): %d stray bytes", i, o, err, len(rest))
								}
								var wire []byte
								for _, f := range frames {
									wire = append(wire, f.Payload...)
									if f.H.Masked != client {
										return explore.Failf("frame-masking:with-an-extension-in-the-way", "after call %d %v: frame masked=%v from a writer with client=%v", i, o, f.H.Masked, client)
									}
								}
								if len(wire) > len(accepted) || !bytes.Equal(wire, accepted[:len(wire)]) {
									return explore.Failf("bytes-on-the-wire-that-no-call-reported-as-accepted", "after call %d %v (n=%d err=%v): wire payload %x, accepted %x", i, o, n, err, wire, accepted)
								}
							}
							return nil
						})
					}
				}
			})
			t.Outcome("wire-is-a-prefix-of-accepted")
		})

		// The echo loop of the README and of example/autobahn, literally: one Reader with the
		// control-frame handler as OnIntermediate, one Writer kept for the connection and Reset (or
		// ResetOp) per message, io.Copy(writer, reader), Flush. For every valid incoming stream the
		// bytes written are whole frames; taken apart again they are one pong per ping (same payload,
		// in order) and, message by message, the incoming messages with their opcodes and payloads.
		r.Part("E6-echo-loop-as-documented", func(t *explore.T) {
			ctls := []streams.Ctl{{Op: 9, Payload: []byte("pi")}, {Op: 10, Payload: nil}, {Op: 9, Payload: nil}}
			for _, side := range []streams.Side{streams.Server, streams.Client} {
				var all [][]streams.Frame
				streams.Valid(streams.Opts{Depth: t.Pick(3, 4), Side: side, Controls: ctls}, func(fr []streams.Frame) {
					all = append(all, append([]streams.Frame{}, fr...))
				})
				side := side
				t.Par(len(all), func(i int) {
					frames := all[i]
					data, _ := streams.Wire(frames)
					wantMsgs, open := refmodel.Messages(frames)
					if open {
						return
					}
					for _, variant := range []string{"Reset", "ResetOp", "Reset/buffer-of-2"} {
						for _, chunk := range []int{0, 1} {
							variant, chunk := variant, chunk
							t.Do(func() string {
								return fmt.Sprintf("%s %s echoed with %s per message, transport chunk=%d", side, streams.Describe(frames), variant, chunk)
							}, func() *explore.Fail {
								src := env.NewSrc(data)
								src.Policy = env.FixedChunk(chunk)
								conn := env.NewDst()
								state := drivers.State(side)
								ch := wsutil.ControlFrameHandler(conn, state)
								rd := &wsutil.Reader{Source: src, State: state, CheckUTF8: true, OnIntermediate: ch}
								var w *wsutil.Writer
								if variant == "Reset/buffer-of-2" {
									w = wsutil.NewWriterSize(conn, state, 0, 2)
								} else {
									w = wsutil.NewWriter(conn, state, 0)
								}
								var err error
								for {
									var h ws.Header
									h, err = rd.NextFrame()
									if err != nil {
										break
									}
									if h.OpCode.IsControl() {
										if err = ch(h, rd); err != nil {
											break
										}
										continue
									}
									if variant == "ResetOp" {
										w.ResetOp(h.OpCode)
									} else {
										w.Reset(conn, state, h.OpCode)
									}
									if _, err = io.Copy(w, rd); err == nil {
										err = w.Flush()
									}
									if err != nil {
										break
									}
								}
								if err != io.EOF {
									return explore.Failf("echo-loop-error", "%v", err)
								}
								out, rest := drivers.ParseFrames(conn.Bytes())
								if len(rest) != 0 {
									return explore.Failf("echo-not-whole-frames", "%d stray bytes", len(rest))
								}
								// split the echo into pongs and data messages
								var pongs [][]byte
								var dataFrames []streams.Frame
								for _, f := range out {
									if f.H.Masked != (side == streams.Client) {
										return explore.Failf("echo-frame-masking", "%v", f.H)
									}
									if f.H.Op == 10 {
										pongs = append(pongs, f.Payload)
										continue
									}
									if f.H.Op >= 8 {
										return explore.Failf("echo-unexpected-control-frame", "%v", f.H)
									}
									dataFrames = append(dataFrames, streams.Frame{H: f.H, Payload: f.Payload})
								}
								// "data that fits the buffer leaves as a single frame": however the incoming message
								// was cut up, and whatever control frames sat between its fragments
								nInMsg, lenOfMsg := 0, 0
								for _, f := range dataFrames {
									nInMsg++
									lenOfMsg += len(f.Payload)
									if f.H.Fin {
										// (a reader-to-writer copy that fills the buffer *exactly* flushes before it can know
										// that nothing follows; the clause is applied where there is room to spare)
										if lenOfMsg < w.Size() && nInMsg != 1 {
											return explore.Failf("echo-of-a-message-that-fits-the-buffer-in-several-frames", "a message of %d bytes (buffer %d) was echoed as %d frames", lenOfMsg, w.Size(), nInMsg)
										}
										nInMsg, lenOfMsg = 0, 0
									}
								}
								gotMsgs, gopen := refmodel.Messages(dataFrames)
								var wantData []drivers.Event
								var wantPongs [][]byte
								for _, e := range wantMsgs {
									if e.Kind == "msg" {
										wantData = append(wantData, e)
									} else if e.Op == 9 {
										wantPongs = append(wantPongs, e.Payload)
									}
								}
								if gopen || !drivers.EqualEvents(gotMsgs, wantData) {
									return explore.Failf("echo-differs-from-what-came-in", "echoed %s\nwant   %s", drivers.FmtEvents(gotMsgs), drivers.FmtEvents(wantData))
								}
								if len(pongs) != len(wantPongs) {
									return explore.Failf("echo-pong-count", "%d pongs for %d pings", len(pongs), len(wantPongs))
								}
								for k := range pongs {
									if !bytes.Equal(pongs[k], wantPongs[k]) {
										return explore.Failf("echo-pong-payload", "pong %d: %x want %x", k, pongs[k], wantPongs[k])
									}
								}
								return nil
							})
						}
					}
				})
			}
			t.Outcome("echoed")
		})

		// A destination that fails once with an error calling itself temporary (or a timeout),
		// having accepted nothing or a few bytes, and works again afterwards: whenever every call of
		// the writer reported success, what lies on the wire is one well-formed message carrying
		// exactly the bytes written (a failure that is reported obliges to nothing here; C16 judges that).
		r.Part("E7-destination-fails-once-temporarily", func(t *explore.T) {
			for _, client := range []bool{true, false} {
				for _, size := range []int{4, 16, 125} {
					for _, n := range []int{0, 1, 5, 16, 17, 40} {
						for _, how := range []string{"Write+Flush", "Write+FlushFragment+Write+Flush", "WriteThrough+Flush", "ReadFrom+Flush"} {
							for failAt := 0; failAt <= 3; failAt++ {
								for _, timeout := range []bool{false, true} {
									for _, partial := range []int{0, 1, 3} {
										client, size, n, how, failAt, timeout, partial := client, size, n, how, failAt, timeout, partial
										t.Do(func() string {
											return fmt.Sprintf("client=%v Writer of %d bytes, %d bytes by %s; destination call %d fails once (temporary, timeout=%v) after accepting %d bytes", client, size, n, how, failAt, timeout, partial)
										}, func() *explore.Fail {
											st := ws.StateServerSide
											if client {
												st = ws.StateClientSide
											}
											d := env.NewDst()
											d.FailAt, d.Partial, d.Transient, d.Err = failAt, partial, true, env.TempErr{IsTimeout: timeout}
											w := wsutil.NewWriterSize(d, st, ws.OpBinary, size)
											data := make([]byte, n)
											for i := range data {
												data[i] = byte(i*13 + 7)
											}
											var errs []error
											switch how {
											case "Write+Flush":
												_, e := w.Write(data)
												errs = append(errs, e, w.Flush())
											case "Write+FlushFragment+Write+Flush":
												_, e1 := w.Write(data[:n/2])
												e2 := w.FlushFragment()
												_, e3 := w.Write(data[n/2:])
												errs = append(errs, e1, e2, e3, w.Flush())
											case "WriteThrough+Flush":
												_, e := w.WriteThrough(data)
												errs = append(errs, e, w.Flush())
											default:
												_, e := w.ReadFrom(bytes.NewReader(data))
												errs = append(errs, e, w.Flush())
											}
											for _, e := range errs {
												if e != nil {
													t.Outcome("failure-reported")
													return nil
												}
											}
											if !d.Failed {
												t.Outcome("no-failure-happened")
												return nil
											}
											frames, rest := drivers.ParseFrames(d.Bytes())
											var got []byte
											for _, f := range frames {
												got = append(got, f.Payload...)
											}
											if len(rest) != 0 || len(frames) == 0 || !frames[len(frames)-1].H.Fin || !bytes.Equal(got, data) {
												return explore.Failf("success-reported-after-a-temporary-failure-but-the-wire-is-not-the-message", "%d frames, %d stray bytes, payload %x, written %x", len(frames), len(rest), got, data)
											}
											t.Outcome("failure-absorbed-correctly")
											return nil
										})
									}
								}
							}
						}
					}
				}
			}
		})

		// One message of more fragments than a 16-bit counter holds (a one-byte payload per
		// frame), then a short message from the same writer.
		r.Part("E4-message-of-70001-fragments", func(t *explore.T) {
			for _, client := range []bool{false, true} {
				for _, ext := range []bool{false, true} {
					for _, how := range []string{"Write", "ReadFrom"} {
						if how == "Write" && !t.Thorough() {
							continue // 70001 separately judged calls: thorough tier only
						}
						c := wops.Cfg{Ctor: "NewWriterBufferSize", N: 3, Client: client, Ext: ext, OpCode: ws.OpBinary}
						var h []wops.Op
						if how == "Write" {
							for i := 0; i < 70001; i++ {
								h = append(h, wops.Op{Kind: "Write", K: 1, Rel: "1"})
							}
						} else {
							h = append(h, wops.Op{Kind: "ReadFrom", K: 70001, Rel: "70001"})
						}
						h = append(h, wops.Op{Kind: "Flush"}, wops.Op{Kind: "Write", K: 3, Rel: "3"})
						t.DoN(70005, func() string {
							return fmt.Sprintf("%s S=1: 70001 bytes through %s (one byte per frame); Flush; Write(3); Flush", c, how)
						}, func() *explore.Fail { return runHistory(c, h) })
					}
				}
			}
			t.Outcome("well-formed")
		})
	})
}
