package main

import (
	"context"
	"errors"
	"fmt"
	"net"
	"runtime"
	"sort"
	"strings"
	"sync"
	"time"

	"verifshim/vctx"
	"verifshim/vtime"
)

var t0 = time.Date(2030, 1, 1, 0, 0, 0, 0, time.UTC)

// ---- controllable context -----------------------------------------------------------

type hctx struct {
	w           *world
	name        string
	done        chan struct{}
	err         error
	deadline    time.Time
	hasDeadline bool
	parent      context.Context
	children    []*hctx
}

func (c *hctx) Done() <-chan struct{} { return c.done }
func (c *hctx) Err() error {
	// E4: the watcher's call of Err() is a scheduling point of its own (the goroutine that calls
	// Dial may run while the watcher is inside the method)
	if c.w.gateErr && onWatcher() {
		c.w.park(&call{kind: "ctxerr"})
	}
	c.w.mu.Lock()
	defer c.w.mu.Unlock()
	return c.err
}
func (c *hctx) Deadline() (time.Time, bool) { return c.deadline, c.hasDeadline }

// onWatcher reports whether the calling goroutine is the one setupContextDeadliner started.
func onWatcher() bool {
	buf := make([]byte, 1<<14)
	st := string(buf[:runtime.Stack(buf, false)])
	return strings.Contains(st, "gobwas/ws.setupContextDeadliner") && !strings.Contains(st, "main.runDial")
}

// errCause is what Cause() reports for every ended harness context: a value different from
// Err(), as for a context made by WithCancelCause / WithTimeoutCause. Dial has to report the
// context's error, not this.
var errCause = errors.New("harness: the cause the application gave for ending the context")

func (c *hctx) Cause() error {
	c.w.mu.Lock()
	defer c.w.mu.Unlock()
	if c.err == nil {
		return nil
	}
	return errCause
}
func (c *hctx) Value(key interface{}) interface{} { return nil }

// cancel must be called with w.mu held.
func (c *hctx) cancel(err error) {
	if c.err != nil {
		return
	}
	c.err = err
	close(c.done)
	for _, ch := range c.children {
		ch.cancel(err)
	}
}

// ---- gate conn ------------------------------------------------------------------------

type timeoutErr struct{}

func (timeoutErr) Error() string   { return "gate: i/o timeout" }
func (timeoutErr) Timeout() bool   { return true }
func (timeoutErr) Temporary() bool { return true }

var errClosed = errors.New("gate: use of closed connection")
var errAborted = errors.New("gate: execution abandoned")

type call struct {
	id    int
	kind  string // dial, read, write, setdeadline, close
	p     []byte
	t     time.Time
	reply chan answer
	actor string // main or watcher (by the deadline value for setdeadline)
}

type answer struct {
	n    int
	err  error
	conn net.Conn
}

type world struct {
	// gateErr: Err() of a harness context parks when the watcher goroutine calls it (E4)
	gateErr bool
	// refuseDeadlines: SetDeadline fails and arms nothing
	refuseDeadlines bool
	ownTimeoutUsed  bool
	mu              sync.Mutex
	now             time.Time
	ctxs            []*hctx // every virtual context (for time advancement)
	parked          []*call
	nextID          int
	aborted         bool

	// partialWrites: a write cut by a deadline reports half of its bytes as transferred
	partialWrites bool
	// deadlineCuts: conn reads/writes that ended because a deadline had passed
	deadlineCuts int

	// conn state
	connMade    bool
	closed      bool
	closes      int
	rDeadline   time.Time
	wDeadline   time.Time
	written     []byte
	log         []string // every conn call of the Dial goroutine in arrival order
	wlog        []string // conn calls of the watcher goroutine
	lateCalls   []string // conn calls that arrived after Dial returned
	dialDone    bool
	peer        peerScript
	readsServed int
	respOff     int
}

var errNoDeadlines = errors.New("conn: deadlines not supported")

type peerScript struct {
	name     string
	chunks   [][]byte // response chunks served by successive reads
	silentAt int      // reads from this index on get no answer (-1: never silent); after the chunks: EOF
}

func (w *world) park(c *call) answer {
	w.mu.Lock()
	if w.aborted {
		w.mu.Unlock()
		return answer{err: errAborted}
	}
	c.id = w.nextID
	w.nextID++
	c.reply = make(chan answer, 1)
	// the watcher goroutine's only conn call is SetDeadline(aLongTimeAgo = Unix(42,0))
	c.actor = "main"
	if c.kind == "setdeadline" && c.t.Equal(time.Unix(42, 0)) {
		c.actor = "watcher"
	}
	if c.kind == "ctxerr" {
		c.actor = "watcher"
	}
	w.parked = append(w.parked, c)
	// two goroutines can arrive at their gates in either order after one action: keep the
	// parked list and the logs canonical (main before watcher) so that replay is exact
	sort.SliceStable(w.parked, func(i, j int) bool { return w.parked[i].actor < w.parked[j].actor })
	entry := c.kind
	if c.kind == "setdeadline" {
		entry = fmt.Sprintf("setdeadline(%s)", w.classOf(c.t))
	}
	if c.actor == "watcher" {
		w.wlog = append(w.wlog, entry)
	} else {
		w.log = append(w.log, entry)
	}
	if w.dialDone && c.kind != "ctxerr" {
		w.lateCalls = append(w.lateCalls, entry)
	}
	w.mu.Unlock()
	return <-c.reply
}

func (w *world) classOf(t time.Time) string {
	switch {
	case t.IsZero():
		return "none"
	case !t.After(w.now):
		return "past"
	default:
		return "future"
	}
}

type gateConn struct{ w *world }

func (g *gateConn) Read(p []byte) (int, error) {
	a := g.w.park(&call{kind: "read", p: p})
	return a.n, a.err
}
func (g *gateConn) Write(p []byte) (int, error) {
	a := g.w.park(&call{kind: "write", p: p})
	return a.n, a.err
}
func (g *gateConn) Close() error {
	a := g.w.park(&call{kind: "close"})
	return a.err
}
func (g *gateConn) SetDeadline(t time.Time) error {
	a := g.w.park(&call{kind: "setdeadline", t: t})
	return a.err
}
func (g *gateConn) SetReadDeadline(t time.Time) error  { return g.SetDeadline(t) }
func (g *gateConn) SetWriteDeadline(t time.Time) error { return g.SetDeadline(t) }
func (g *gateConn) LocalAddr() net.Addr                { return &net.TCPAddr{} }
func (g *gateConn) RemoteAddr() net.Addr               { return &net.TCPAddr{} }

// releasable reports whether the parked call can complete now, and how (w.mu held).
func (w *world) releasable(c *call) (ok bool, opts []string) {
	switch c.kind {
	case "dial":
		opts = []string{"conn"}
		return true, opts
	case "read":
		if w.closed || (!w.rDeadline.IsZero() && !w.rDeadline.After(w.now)) {
			return true, []string{"fail"}
		}
		if w.refuseDeadlines && !w.ownTimeoutUsed {
			// a transport without deadline support has an idle timeout of its own, which may strike
			// at any read (once per execution)
			if w.peer.silentAt >= 0 && w.readsServed >= w.peer.silentAt {
				return true, []string{"own-timeout"}
			}
			return true, []string{"serve", "own-timeout"}
		}
		if w.peer.silentAt >= 0 && w.readsServed >= w.peer.silentAt {
			return false, nil
		}
		return true, []string{"serve"}
	default:
		return true, []string{"ok"}
	}
}

// release completes a parked call (w.mu held); returns a short label of the answer.
func (w *world) release(c *call, opt string) string {
	for i, x := range w.parked {
		if x == c {
			w.parked = append(w.parked[:i], w.parked[i+1:]...)
			break
		}
	}
	var a answer
	label := c.kind
	switch c.kind {
	case "dial":
		if opt == "ctxerr" {
			a.err = context.Canceled
			label = "dial:ctxerr"
		} else {
			w.connMade = true
			a.conn = &gateConn{w}
			label = "dial:conn"
		}
	case "write":
		switch {
		case w.closed:
			a.err = errClosed
			label = "write:closed"
		case !w.wDeadline.IsZero() && !w.wDeadline.After(w.now):
			a.err = timeoutErr{}
			label = "write:timeout"
			w.deadlineCuts++
			if w.partialWrites && len(c.p) > 1 {
				a.n = len(c.p) / 2
				w.written = append(w.written, c.p[:a.n]...)
				label = "write:timeout-after-half"
			}
		default:
			w.written = append(w.written, c.p...)
			a.n = len(c.p)
			label = "write:ok"
		}
	case "read":
		switch {
		case opt == "own-timeout":
			w.ownTimeoutUsed = true
			a.err = timeoutErr{}
			label = "read:own-timeout"
		case w.closed:
			a.err = errClosed
			label = "read:closed"
		case !w.rDeadline.IsZero() && !w.rDeadline.After(w.now):
			a.err = timeoutErr{}
			label = "read:timeout"
			w.deadlineCuts++
		default:
			if w.readsServed < len(w.peer.chunks) {
				ch := w.peer.chunks[w.readsServed][w.respOff:]
				n := copy(c.p, ch)
				a.n = n
				if n < len(ch) {
					w.respOff += n
				} else {
					w.respOff = 0
					w.readsServed++
				}
				label = fmt.Sprintf("read:data%d", w.readsServed)
			} else {
				a.err = errors.New("gate: EOF from peer")
				label = "read:eof"
			}
		}
	case "setdeadline":
		if w.refuseDeadlines {
			// a transport without deadline support (an ssh channel, a pipe): the call fails, nothing is armed
			a.err = errNoDeadlines
			label = "setdeadline-refused:" + w.classOf(c.t)
			break
		}
		if w.closed {
			a.err = errClosed
		}
		w.rDeadline, w.wDeadline = c.t, c.t
		label = "setdeadline:" + w.classOf(c.t)
	case "close":
		w.closes++
		w.closed = true
		label = "close"
	}
	c.reply <- a
	return label
}

// abort releases everything with errors so that all goroutines finish.
func (w *world) abort() {
	w.mu.Lock()
	w.aborted = true
	for _, c := range w.ctxs {
		c.cancel(context.Canceled)
	}
	ps := w.parked
	w.parked = nil
	w.mu.Unlock()
	for _, c := range ps {
		c.reply <- answer{err: errAborted}
	}
}

// ---- quiescence --------------------------------------------------------------------

type gstate struct {
	state   string
	watcher bool
	dial    bool
}

// snapshot returns the library-related goroutines and their scheduler states.
func snapshot() []gstate {
	buf := make([]byte, 1<<16)
	for {
		n := runtime.Stack(buf, true)
		if n < len(buf) {
			buf = buf[:n]
			break
		}
		buf = make([]byte, 2*len(buf))
	}
	var out []gstate
	for _, g := range strings.Split(string(buf), "\n\n") {
		// relevant goroutines: the one that calls Dial (created by main.execute; before it
		// first runs it only shows as main.execute.gowrapN) and everything the library spawns
		if strings.Contains(g, "main.snapshot") {
			continue
		}
		if !strings.Contains(g, "created by main.execute") && !strings.Contains(g, "created by main.probeDial") && !strings.Contains(g, "created by github.com/gobwas/ws") {
			continue
		}
		i, j := strings.Index(g, "["), strings.Index(g, "]")
		if i < 0 || j < i {
			continue
		}
		st := g[i+1 : j]
		if k := strings.Index(st, ","); k >= 0 {
			st = st[:k]
		}
		out = append(out, gstate{state: st, watcher: strings.Contains(g, "created by github.com/gobwas/ws.setupContextDeadliner"), dial: strings.Contains(g, "created by main.execute") || strings.Contains(g, "created by main.probeDial")})
	}
	return out
}

// waitQuiescent returns once every library goroutine is blocked (or gone).
func waitQuiescent() []gstate {
	start := time.Now()
	for spin := 0; ; spin++ {
		gs := snapshot()
		ok := true
		for _, g := range gs {
			switch g.state {
			case "chan receive", "select", "chan send", "chan receive (nil chan)", "select (no cases)":
			default:
				ok = false
			}
		}
		if ok {
			return gs
		}
		if spin > 200000 && time.Since(start) > 2*time.Minute {
			panic("harness: no quiescence within 2 minutes")
		}
		runtime.Gosched()
		if spin > 1000 {
			time.Sleep(50 * time.Microsecond)
		}
	}
}

// ---- virtual time ---------------------------------------------------------------------

func (w *world) install() {
	vtime.Clock = func() time.Time {
		w.mu.Lock()
		defer w.mu.Unlock()
		return w.now
	}
	vctx.SetNow(vtime.Clock)
	vctx.Virtual = func(parent context.Context, d time.Time) (context.Context, context.CancelFunc) {
		w.mu.Lock()
		defer w.mu.Unlock()
		c := &hctx{w: w, name: "derived", done: make(chan struct{}), deadline: d, hasDeadline: true, parent: parent}
		if pd, ok := parent.Deadline(); ok && pd.Before(d) {
			c.deadline = pd
		}
		w.ctxs = append(w.ctxs, c)
		if p, ok := parent.(*hctx); ok {
			p.children = append(p.children, c)
			if p.err != nil {
				c.cancel(p.err)
			}
		}
		if !c.deadline.After(w.now) {
			c.cancel(context.DeadlineExceeded)
		}
		return c, func() {
			w.mu.Lock()
			c.cancel(context.Canceled)
			w.mu.Unlock()
		}
	}
}

func uninstall() {
	vtime.Clock = nil
	vctx.Virtual = nil
	vctx.SetNow(time.Now)
}

// nextStage returns the next instant at which some virtual context expires (w.mu held).
func (w *world) nextStage(extra []time.Time) (time.Time, bool) {
	var ts []time.Time
	for _, c := range w.ctxs {
		if c.hasDeadline && c.err == nil && c.deadline.After(w.now) {
			ts = append(ts, c.deadline)
		}
	}
	for _, t := range extra {
		if t.After(w.now) {
			ts = append(ts, t)
		}
	}
	if len(ts) == 0 {
		return time.Time{}, false
	}
	sort.Slice(ts, func(i, j int) bool { return ts[i].Before(ts[j]) })
	return ts[0], true
}

// advance moves the clock to t and expires contexts (w.mu held).
func (w *world) advance(t time.Time) {
	w.now = t.Add(time.Nanosecond)
	for _, c := range w.ctxs {
		if c.hasDeadline && c.err == nil && !c.deadline.After(w.now) {
			c.cancel(context.DeadlineExceeded)
		}
	}
}
