// Package env is the controllable environment: sources whose every Read is decided by the
// explorer, destinations that record call boundaries and can fail at a chosen call.
package env

import (
	"errors"
	"io"

	"verifmc/explore"
)

var ErrInjected = errors.New("env: injected transport error")

// ErrSource is the error of a failing ReadFrom source (distinct from a destination failure).
var ErrSource = errors.New("env: source failed")

// TempErr is a transient transport error in the style of net.Error.
type TempErr struct{ IsTimeout bool }

func (e TempErr) Error() string   { return "env: transient transport error" }
func (e TempErr) Temporary() bool { return true }
func (e TempErr) Timeout() bool   { return e.IsTimeout }

// Src is a byte source. Each Read delivers between 1 and min(len(p), remaining) bytes as
// decided by Policy. When the data is exhausted (or Cut is reached) it returns EndErr
// (io.EOF by default).
type Src struct {
	Data   []byte
	Off    int
	Cut    int   // if >=0: the stream ends at this offset
	EndErr error // returned at the end (default io.EOF)
	// WithLast: deliver the final bytes together with EndErr in the same call.
	WithLast bool

	// Policy decides how many bytes (1..max) a Read delivers. nil = deliver max.
	Policy func(max int, off int) int
	// ZeroEvery > 0: every ZeroEvery-th Read call returns (0, nil) without delivering anything
	// (legal for an io.Reader, if discouraged).
	ZeroEvery int
	// HiccupErr != nil: exactly once, when HiccupAt bytes have been delivered, a Read returns
	// (0, HiccupErr) - a transient failure (EAGAIN-like, a deadline that is then extended);
	// the Read before it stops at that offset, the Reads after it carry on normally.
	HiccupAt  int
	HiccupErr error
	// HiccupWithData: the error comes in the same Read as the bytes that end at HiccupAt
	HiccupWithData bool
	hiccuped       bool
	// OnRead, when set, sees the caller's slice before every non-empty Read (state keys).
	OnRead func(p []byte, off int)

	Reads      int // number of Read calls
	ReadsAtEnd int // calls made after the end was reported
	MaxReq     int // largest len(p) requested
	MaxEnd     int // largest offset a Read could have reached (Off+len(p)) — over-read detection
	ZeroReads  int
}

func NewSrc(data []byte) *Src { return &Src{Data: data, Cut: -1} }

func (s *Src) end() int {
	if s.Cut >= 0 && s.Cut < len(s.Data) {
		return s.Cut
	}
	return len(s.Data)
}

func (s *Src) Read(p []byte) (int, error) {
	s.Reads++
	if len(p) > s.MaxReq {
		s.MaxReq = len(p)
	}
	if len(p) == 0 {
		s.ZeroReads++
		return 0, nil
	}
	if e := s.Off + len(p); e > s.MaxEnd {
		s.MaxEnd = e
	}
	end := s.end()
	rem := end - s.Off
	if rem <= 0 {
		s.ReadsAtEnd++
		if s.EndErr != nil {
			return 0, s.EndErr
		}
		return 0, io.EOF
	}
	if s.ZeroEvery > 0 && s.Reads%s.ZeroEvery == 0 {
		s.ZeroReads++
		return 0, nil
	}
	max := len(p)
	if rem < max {
		max = rem
	}
	if s.HiccupErr != nil && !s.hiccuped {
		if s.Off == s.HiccupAt {
			s.hiccuped = true
			return 0, s.HiccupErr
		}
		if s.Off < s.HiccupAt && s.Off+max > s.HiccupAt {
			max = s.HiccupAt - s.Off
		}
	}
	n := max
	if s.OnRead != nil {
		s.OnRead(p, s.Off)
	}
	if s.Policy != nil {
		n = s.Policy(max, s.Off)
		if n < 1 || n > max {
			panic("env.Src: policy out of range")
		}
	}
	copy(p, s.Data[s.Off:s.Off+n])
	s.Off += n
	if s.HiccupErr != nil && !s.hiccuped && s.HiccupWithData && s.Off == s.HiccupAt {
		s.hiccuped = true
		return n, s.HiccupErr
	}
	if s.WithLast && s.Off == end {
		if s.EndErr != nil {
			return n, s.EndErr
		}
		return n, io.EOF
	}
	return n, nil
}

// Remaining returns the bytes not yet delivered.
func (s *Src) Remaining() []byte { return s.Data[s.Off:s.end()] }

// ChooserPolicy lets the explorer pick every read size: choice 0 = deliver everything
// asked for (the default), choice k = deliver k bytes (k < max). Each short read costs 1.
func ChooserPolicy(c *explore.Chooser) func(max, off int) int {
	return func(max, off int) int {
		if max == 1 {
			return 1
		}
		v := c.Choose(max, 1, "rd")
		if v == 0 {
			return max
		}
		return v
	}
}

// FixedChunk delivers at most k bytes per Read.
func FixedChunk(k int) func(max, off int) int {
	return func(max, off int) int {
		if k <= 0 || k > max {
			return max
		}
		return k
	}
}

// Dst records every Write call separately and can fail at call index FailAt.
type Dst struct {
	Calls   [][]byte
	FailAt  int // -1 = never
	Partial int // bytes accepted by the failing call
	// Transient: only call FailAt fails; later calls work again
	Transient bool
	Failed  bool
	After   int // calls that arrived after the failure
	// Err, when set, is returned instead of ErrInjected
	Err error
	// Aux is for the harness that owns the destination (wops keeps the caller's arena here)
	Aux interface{}
}

func NewDst() *Dst { return &Dst{FailAt: -1} }

func (d *Dst) Write(p []byte) (int, error) {
	if d.Failed && !d.Transient {
		d.After++
		return 0, ErrInjected
	}
	if d.FailAt >= 0 && len(d.Calls) == d.FailAt {
		d.Failed = true
		n := d.Partial
		if n > len(p) {
			n = len(p)
		}
		d.Calls = append(d.Calls, append([]byte{}, p[:n]...))
		if d.Err != nil {
			return n, d.Err
		}
		return n, ErrInjected
	}
	d.Calls = append(d.Calls, append([]byte{}, p...))
	return len(p), nil
}

// Bytes returns everything accepted so far.
func (d *Dst) Bytes() []byte {
	var b []byte
	for _, c := range d.Calls {
		b = append(b, c...)
	}
	return b
}

// RW glues a reader and a writer.
type RW struct {
	io.Reader
	io.Writer
}
