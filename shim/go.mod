module verifshim

go 1.16
