NOT_YET = {}
check("C01",
      "Exhaustive enumeration of every header over Fin x Rsv x OpCode x Masked x masks x all boundary lengths (2^k-1,2^k,2^k+1 up to 2^63-1) and of all 65536 two-byte prefixes x 10 tails x every truncation, each run through the real encoder and both real decoders and compared with an independent RFC 6455 5.2 codec; lengths are boundary-complete rather than all 2^63 values because the code branches on length only at the thresholds.",
      "Trusts the reference codec in mc/refmodel/frame.go (written from the RFC, no ws import) and the counting source in mc/env.",
      "exhaustive input-product enumeration on the real code against a reference model", "4/C01")
check("C02",
      "Exhaustive enumeration of ws.Cipher over lengths 0..80 x 28 offsets (small, around 2^31/2^32, MaxInt-7..MaxInt) x 16 slice alignments x 8 keys x 2 fills with guard bytes, every composition of n<=12 bytes into chunks, every 2/3-cut split to n=40, CipherReader under every short-read pattern (state key = bytes delivered), CipherWriter under every write split and every failing destination call, and the six frame helpers, all against a naive XOR loop.",
      "Trusts the naive XOR reference; offsets are boundary-complete (the code only uses offset mod 4).",
      "exhaustive input-product enumeration + exhaustive short-read choice tree with state-key pruning, on the real code", "4/C02")
check("C03",
      "Complete enumeration of all 65536 (header, endpoint state) pairs over Fin x Rsv x OpCode x Masked x 8 length classes x 16 states against the RFC rule list (accept iff no rule broken; a rejection must name a broken rule), all 65536 close codes x 7 reasons against the code table, all status/opcode predicates, and NewCloseFrameBody/Parse/Put for 7 codes x reason lengths 0..130 (ASCII and multibyte across the crop).",
      "Trusts refmodel.CheckRules / CloseCodeClass (written from RFC 6455 5.2, 5.5, 7.4) and unicode/utf8.",
      "exhaustive input-product enumeration on the real code against a rule-list reference", "4/C03")
check("C04",
      "Every RFC-valid frame stream up to depth 4 (5 thorough) generated from the message state machine (data fragments incl. empty ones, interleaved control frames, both sides, masked per side) is pushed through 12 consumer drivers (Reader loop with caller buffers 1/2/7/512, Discard after 0/1 bytes, NextReader, ReadMessage, ReadData and the Client/Server Data/Text/Binary variants) under uniform transport chunk sizes inf/1/2/3/5; for depth<=2 (3) every possible split of the transport into reads is explored with a state key that fingerprints the complete live Reader, and for the helpers that hide their Reader every placement of up to 2 (3) short reads. Oracle: the list-of-messages reference model.",
      "Streams are exhaustive only up to the stated depth and payload alphabet (0/1/3-byte data payloads, 2/0/125-byte controls); the state-key soundness rests on the fingerprint covering every field reachable from the Reader plus the driver's own observations.",
      "bounded-exhaustive history enumeration + exhaustive environment (short-read) choice tree with state-key pruning, on the real code against a reference model", "4/C04")
check("C05",
      "Every valid prefix (message open or closed) up to depth 2 (3 thorough) x every frame header of Fin x Rsv{0,1,2,4,7} x OpCode 0..15 x Masked x Len{0,1,125,126,65536} that the RFC rule list rejects in the state left by the prefix, both sides, extended or not, followed by marker payload and a canary message, through Reader / ReadMessage / ReadData under chunk sizes inf and 1; plus the MaxFrameSize grid (5 limits x 5 announced lengths x in/out of a message). Oracle: prefix delivered as the model says, then a ProtocolError naming a broken rule (or ErrFrameTooLarge), no marker/canary byte anywhere, source not read past the offending header.",
      "Depth and alphabet as stated; the rule list is refmodel.CheckRules.",
      "bounded-exhaustive history enumeration (valid prefix x invalid extension) on the real code against a reference model", "4/C05")
