// Package hs holds the handshake grammars (abstract request / response -> bytes), an
// independent HTTP head parser for judging what the library writes, and the spec predicates
// of C09 / C10.
package hs

import (
	"bytes"
	"crypto/sha1"
	"encoding/base64"
	"fmt"
	"strings"
)

const GUID = "258EAFA5-E914-47DA-95CA-C5AB0DC85B11"

// Accept computes base64(SHA-1(key + GUID)).
func Accept(key string) string {
	s := sha1.Sum([]byte(key + GUID))
	return base64.StdEncoding.EncodeToString(s[:])
}

const CanonKey = "dGhlIHNhbXBsZSBub25jZQ=="
const OtherKey = "AAAAAAAAAAAAAAAAAAAAAA=="

// Field is one dimension of the request grammar. Variant 0 is canonical.
type Field struct {
	Name     string
	Variants []string
}

// ReqFields is the request grammar.
var ReqFields = []Field{
	{"method", []string{"GET", "POST", "get", "HEAD"}},
	{"target", []string{"/", "/chat?x=1"}},
	{"version", []string{"HTTP/1.1", "HTTP/1.0", "HTTP/1.2", "HTTP/1.10", "HTTP/2.0", "HTTP/0.9", "HTTP/1.;", "HTTP/1", "HTTX/1.1", "HTTP/1.?"}},
	{"host", []string{"canon", "absent", "lower", "upper", "mixed", "padded", "dup-same", "triple-same", "dup-conflict"}},
	{"upgrade", []string{"canon", "absent", "lower", "upper", "mixed", "padded", "case", "wrong", "dup-same", "triple-same", "dup-conflict"}},
	{"connection", []string{"canon", "absent", "lower", "upper", "mixed", "padded", "case", "CASE", "wrong", "dup-same", "triple-same", "dup-conflict", "first", "middle", "last", "nearmiss", "list-without"}},
	{"wsversion", []string{"canon", "absent", "lower", "upper", "mixed", "padded", "wrong", "dup-same", "triple-same", "dup-conflict", "empty", "foldname", "crname"}},
	{"key", []string{"canon", "absent", "lower", "upper", "mixed", "padded", "23", "25", "nonb64", "dup-same", "triple-same", "dup-conflict", "foldname", "crname"}},
	{"protocol", []string{"absent", "a", "a, b", "b,a", "malformed", "two-headers", "three-headers", "many"}},
	{"extensions", []string{"absent", "one", "two", "malformed", "pmd", "two-headers", "three-headers", "many"}},
	{"extra", []string{"none", "before", "between", "after", "long-70000"}},
	{"order", []string{"canonical", "reversed", "rotated"}},
	{"lineend", []string{"CRLF", "LF"}},
}

// ManyProtocols: 20 tokens nobody selects, then "a" and "b" (longer than any small fixed-size
// array an implementation may keep).
var ManyProtocols = func() []string {
	var out []string
	for i := 1; i <= 20; i++ {
		out = append(out, fmt.Sprintf("p%02d", i))
	}
	return append(out, "a", "b")
}()

// ManyExtensions: 20 extensions e01..e20, the first with 12 parameters, then x (with a
// parameter) and y.
var ManyExtensions = func() string {
	var out []string
	for i := 1; i <= 20; i++ {
		e := fmt.Sprintf("e%02d", i)
		if i == 1 {
			for k := 1; k <= 12; k++ {
				e += fmt.Sprintf("; k%02d=%d", k, k)
			}
		}
		out = append(out, e)
	}
	return strings.Join(append(out, "x; p=1", "y"), ", ")
}()

// Req is an assignment of a variant index to each field.
type Req []int

func (r Req) V(name string) string {
	for i, f := range ReqFields {
		if f.Name == name {
			return f.Variants[r[i]]
		}
	}
	panic("no field " + name)
}

func (r Req) String() string {
	var parts []string
	for i, f := range ReqFields {
		if r[i] != 0 {
			parts = append(parts, f.Name+"="+f.Variants[r[i]])
		}
	}
	if len(parts) == 0 {
		return "canonical"
	}
	return strings.Join(parts, " ")
}

// Deviations counts the non-canonical fields.
func (r Req) Deviations() int {
	n := 0
	for _, v := range r {
		if v != 0 {
			n++
		}
	}
	return n
}

// EnumReq calls fn for every request with at most k non-canonical fields.
func EnumReq(fields []Field, k int, fn func(r Req)) {
	cur := make(Req, len(fields))
	var rec func(i, left int)
	rec = func(i, left int) {
		if i == len(fields) {
			fn(append(Req{}, cur...))
			return
		}
		cur[i] = 0
		rec(i+1, left)
		if left > 0 {
			for v := 1; v < len(fields[i].Variants); v++ {
				cur[i] = v
				rec(i+1, left-1)
			}
			cur[i] = 0
		}
	}
	rec(0, k)
}

type hline struct{ name, value string }

func nameCase(canon, variant string) string {
	switch variant {
	case "lower":
		return strings.ToLower(canon)
	case "upper":
		return strings.ToUpper(canon)
	case "mixed":
		// sEC-wEBSOCKET-kEY: lower case where the canonical form has upper case and vice versa
		b := []byte(canon)
		for i, c := range b {
			switch {
			case 'a' <= c && c <= 'z':
				b[i] = c - 32
			case 'A' <= c && c <= 'Z':
				b[i] = c + 32
			}
		}
		return string(b)
	}
	return canon
}

// headerLines renders one required header according to its variant.
func headerLines(canonName, canonValue, variant string, alt map[string]string, conflict string) []hline {
	switch variant {
	case "absent":
		return nil
	case "canon", "lower", "upper", "mixed":
		return []hline{{nameCase(canonName, variant), canonValue}}
	case "crname":
		// the header is absent; in its place stands one whose name has a bare CR wherever the
		// real name has a dash (0x0D and 0x2D differ in one bit)
		return []hline{{strings.ReplaceAll(canonName, "-", "\r"), canonValue}}
	case "foldname":
		// the header is absent; in its place stands one whose name differs only by characters
		// that Unicode case folding (not ASCII case folding) identifies with s and k
		r := strings.NewReplacer("S", "\u017f", "s", "\u017f", "K", "\u212a", "k", "\u212a")
		return []hline{{r.Replace(canonName), canonValue}}
	case "padded":
		return []hline{{canonName, " \t" + canonValue + "\t "}}
	case "dup-same":
		return []hline{{canonName, canonValue}, {canonName, canonValue}}
	case "dup-conflict":
		return []hline{{canonName, canonValue}, {canonName, conflict}}
	case "triple-same":
		return []hline{{canonName, canonValue}, {canonName, canonValue}, {canonName, canonValue}}
	}
	if v, ok := alt[variant]; ok {
		return []hline{{canonName, v}}
	}
	panic("bad variant " + variant + " for " + canonName)
}

// Build renders the request bytes.
func (r Req) Build() []byte {
	var hs [][]hline
	hs = append(hs, headerLines("Host", "example.com", r.V("host"), nil, "other.example"))
	hs = append(hs, headerLines("Upgrade", "websocket", r.V("upgrade"), map[string]string{"case": "WebSocket", "wrong": "websocketx"}, "h2c"))
	hs = append(hs, headerLines("Connection", "Upgrade", r.V("connection"), map[string]string{
		"case": "upgrade", "CASE": "UPGRADE", "wrong": "keep-alive", "first": "Upgrade, keep-alive", "middle": "keep-alive, Upgrade, foo",
		"last": "keep-alive, upgrade", "nearmiss": "upgradex", "list-without": "keep-alive, foo"}, "close"))
	hs = append(hs, headerLines("Sec-WebSocket-Version", "13", r.V("wsversion"), map[string]string{"wrong": "12", "empty": ""}, "8"))
	hs = append(hs, headerLines("Sec-WebSocket-Key", CanonKey, r.V("key"), map[string]string{
		"23": CanonKey[:23], "25": CanonKey + "=", "nonb64": "!!!!!!!!!!!!!!!!!!!!!!!!"}, OtherKey))
	switch r.V("protocol") {
	case "a":
		hs = append(hs, []hline{{"Sec-WebSocket-Protocol", "a"}})
	case "a, b":
		hs = append(hs, []hline{{"Sec-WebSocket-Protocol", "a, b"}})
	case "b,a":
		hs = append(hs, []hline{{"Sec-WebSocket-Protocol", "b,a"}})
	case "malformed":
		hs = append(hs, []hline{{"Sec-WebSocket-Protocol", "a, (b"}})
	case "two-headers":
		hs = append(hs, []hline{{"Sec-WebSocket-Protocol", "a"}, {"Sec-WebSocket-Protocol", "b"}})
	case "three-headers":
		hs = append(hs, []hline{{"Sec-WebSocket-Protocol", "c"}, {"Sec-WebSocket-Protocol", "a"}, {"Sec-WebSocket-Protocol", "b"}})
	case "many":
		hs = append(hs, []hline{{"Sec-WebSocket-Protocol", strings.Join(ManyProtocols, ", ")}})
	}
	switch r.V("extensions") {
	case "one":
		hs = append(hs, []hline{{"Sec-WebSocket-Extensions", "x"}})
	case "two":
		hs = append(hs, []hline{{"Sec-WebSocket-Extensions", "x; p=1, y"}})
	case "malformed":
		hs = append(hs, []hline{{"Sec-WebSocket-Extensions", "x; =, ;"}})
	case "pmd":
		hs = append(hs, []hline{{"Sec-WebSocket-Extensions", "permessage-deflate; client_max_window_bits, x"}})
	case "two-headers":
		hs = append(hs, []hline{{"Sec-WebSocket-Extensions", "x; p=1"}, {"Sec-WebSocket-Extensions", "y"}})
	case "many":
		hs = append(hs, []hline{{"Sec-WebSocket-Extensions", ManyExtensions}})
	case "three-headers":
		hs = append(hs, []hline{{"Sec-WebSocket-Extensions", "y"}, {"Sec-WebSocket-Extensions", "permessage-deflate"}, {"Sec-WebSocket-Extensions", "x; p=1"}})
	}
	switch r.V("order") {
	case "reversed":
		for i, j := 0, len(hs)-1; i < j; i, j = i+1, j-1 {
			hs[i], hs[j] = hs[j], hs[i]
		}
	case "rotated":
		hs = append(hs[2:], hs[:2]...)
	}
	var lines []hline
	extra := hline{"X-Custom-Header", "some, value; x=1"}
	if r.V("extra") == "long-70000" {
		// one unrelated header line far longer than any buffer
		lines = append(lines, hline{"X-Custom-Header", strings.Repeat("v", 70000)})
	}
	if r.V("extra") == "before" {
		lines = append(lines, extra)
	}
	for i, g := range hs {
		lines = append(lines, g...)
		if r.V("extra") == "between" && i == 1 {
			lines = append(lines, extra)
		}
	}
	if r.V("extra") == "after" {
		lines = append(lines, extra)
	}
	nl := "\r\n"
	if r.V("lineend") == "LF" {
		nl = "\n"
	}
	var b bytes.Buffer
	fmt.Fprintf(&b, "%s %s %s%s", r.V("method"), r.V("target"), r.V("version"), nl)
	for _, l := range lines {
		fmt.Fprintf(&b, "%s: %s%s", l.name, l.value, nl)
	}
	b.WriteString(nl)
	return b.Bytes()
}

// Key returns the key the server must use for Sec-WebSocket-Accept ("" if absent / not 24 chars).
func (r Req) Key() string {
	switch r.V("key") {
	case "absent", "23", "25", "foldname", "crname":
		return ""
	case "nonb64":
		return "!!!!!!!!!!!!!!!!!!!!!!!!"
	}
	return CanonKey
}

// Verdict of the spec predicate.
type Verdict struct {
	MustAccept bool
	MustReject bool
	Open       bool
	// LineUnparsable: the request line itself cannot be parsed: no response is required.
	LineUnparsable bool
	// Statuses allowed in the error response (built-in checks); callbacks add theirs.
	Statuses map[int]bool
	Reasons  []string
}

// Judge applies the statement of C09 to the abstract request (callbacks are handled by the
// caller). selectorConfigured: a subprotocol selector / extension selector is configured
// (a malformed list header is then refused; otherwise it is never looked at).
func (r Req) Judge(protoSelector, extSelector bool) Verdict {
	v := Verdict{Statuses: map[int]bool{}}
	fault := func(status int, why string) {
		v.MustReject = true
		v.Statuses[status] = true
		v.Reasons = append(v.Reasons, why)
	}
	switch r.V("version") {
	case "HTTP/1.1", "HTTP/1.2", "HTTP/1.10":
	case "HTTP/1.0", "HTTP/2.0", "HTTP/0.9":
		fault(505, "version")
	default:
		// not an HTTP-version token: the request line does not parse
		v.MustReject = true
		v.LineUnparsable = true
		v.Reasons = append(v.Reasons, "request line")
		v.Statuses[400] = true
		v.Statuses[505] = true
	}
	if r.V("method") != "GET" {
		fault(405, "method")
	}
	switch r.V("host") {
	case "absent":
		fault(400, "host")
	}
	switch r.V("upgrade") {
	case "absent", "wrong":
		fault(400, "upgrade")
	case "dup-conflict":
		v.Open = true
		v.Statuses[400] = true
	}
	switch r.V("connection") {
	case "absent", "wrong", "nearmiss", "list-without":
		fault(400, "connection")
	case "dup-conflict":
		v.Open = true
		v.Statuses[400] = true
	}
	switch r.V("wsversion") {
	case "absent", "foldname", "crname":
		fault(400, "wsversion")
	case "wrong", "empty":
		fault(426, "wsversion")
		v.Statuses[400] = true
	case "dup-conflict":
		v.Open = true
		v.Statuses[426] = true
		v.Statuses[400] = true
	}
	switch r.V("key") {
	case "absent", "23", "25", "foldname", "crname":
		fault(400, "key")
	case "nonb64":
		v.Open = true
		v.Statuses[400] = true
	case "dup-conflict":
		v.Open = true
		v.Statuses[400] = true
	}
	if r.V("host") == "dup-conflict" {
		v.Open = true
		v.Statuses[400] = true
	}
	if r.V("protocol") == "malformed" {
		v.Statuses[400] = true
		if protoSelector {
			v.Open = true
		}
	}
	if r.V("extensions") == "malformed" {
		v.Statuses[400] = true
		if extSelector {
			v.Open = true
		}
	}
	if !v.MustReject && !v.Open {
		v.MustAccept = true
	}
	return v
}

// OfferedProtocols returns the client's subprotocol tokens in order.
func (r Req) OfferedProtocols() []string {
	switch r.V("protocol") {
	case "a":
		return []string{"a"}
	case "a, b", "two-headers":
		return []string{"a", "b"}
	case "three-headers":
		return []string{"c", "a", "b"}
	case "many":
		return ManyProtocols
	case "b,a":
		return []string{"b", "a"}
	}
	return nil
}

// OfferedExtensions returns the names offered.
func (r Req) OfferedExtensions() []string {
	switch r.V("extensions") {
	case "one":
		return []string{"x"}
	case "two", "two-headers":
		return []string{"x", "y"}
	case "three-headers":
		return []string{"y", "permessage-deflate", "x"}
	case "many":
		var out []string
		for i := 1; i <= 20; i++ {
			out = append(out, fmt.Sprintf("e%02d", i))
		}
		return append(out, "x", "y")
	case "pmd":
		return []string{"permessage-deflate", "x"}
	}
	return nil
}
