#!/usr/bin/env python3
"""Regenerates /verif/MANIFEST.json from the table below (kept in one place so the manifest
is always schema-valid)."""
import json, os, sys
V = os.path.dirname(os.path.dirname(os.path.abspath(__file__)))
CHECKS = {}
def check(pid, text, note, technique, design_ref):
    if not os.path.isdir(os.path.join(V, "mc", "cmd", pid.lower())):
        return
    CHECKS[pid] = {
        "property_id": pid,
        "quick_cmd": f"./vcheck {pid} --tier quick",
        "thorough_cmd": f"./vcheck {pid} --tier thorough",
        "evidence_file": f"/verif/evidence/{pid}.json",
        "replay_cmd_template": f"./vcheck {pid} --replay {{path}}",
        "engine": "explore",
        "level_claimed": {"category": "model_checking", "text": text, "design_ref": design_ref},
        "level_note": note,
        "technique": technique,
    }

exec(open(os.path.join(V, "tools", "manifest_table.py")).read())

props = [json.loads(l)["id"] for l in open(os.path.join(V, "properties.jsonl"))]
na = []
for p in props:
    if p not in CHECKS:
        na.append({"property_id": p, "reason": NOT_YET.get(p, "check not built yet in this session (planned: see DESIGN.md section 4)")})
m = {
    "version": 1,
    "setup_cmd": "./setup.sh",
    "hooks": {
        "guard": "verif",
        "enable": "no in-tree hooks: instrumentation is by module replace (gobwas/pool -> /verif/poolcopy with sync.Pool shim), go build -overlay (dialer.go imports context/time -> shims) and reflection; the build tag 'verif' is reserved and carried by no file in /repo",
        "baseline_off_cmd": "cd /repo && GOFLAGS=-mod=mod go test -vet=off -count=1 -timeout 25m ./...",
        "source_commits": [],
        "add_only": True,
    },
    "engines": [
        {"name": "explore", "path": "/verif/mc/explore", "serves_properties": sorted(CHECKS),
         "kind_free_text": "hand-written exhaustive explorer: complete input products, stateless DFS over environment/fault/schedule choice trees with replay, deviation bounds and state-key pruning; every execution runs the real gobwas/ws code"},
    ],
    "checks": [CHECKS[p] for p in props if p in CHECKS],
    "not_applicable": na,
    "notes": "Each check rebuilds its harness from /repo's working tree (vcheck), runs exhaustively within stated bounds, writes evidence/<id>.json and replays under evidence/replays/. known_findings.json lists recorded findings and fixed defects.",
}
json.dump(m, open(os.path.join(V, "MANIFEST.json"), "w"), indent=1)
print("MANIFEST.json:", len(m["checks"]), "checks,", len(na), "not_applicable")
