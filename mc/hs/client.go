package hs

import (
	"bufio"
	"bytes"
	"fmt"
	"io"
	"net/url"
	"sort"
	"strings"

	"github.com/gobwas/httphead"
	"github.com/gobwas/ws"

	"verifmc/env"
)

// RespFields is the response grammar. Variant 0 is canonical.
var RespFields = []Field{
	{"version", []string{"HTTP/1.1", "HTTP/1.0", "HTTP/1.2", "HTTP/1.10", "HTTP/2.0", "HTTP/0.9", "HTTP/1.;", "HTTP/1", "HTTX/1.1", "HTTP/4294967297.1", "HTTP/1.4294967297", "HTTP/18446744073709551617.1"}},
	{"status", []string{"101", "0101", "1e1", "0:1", "9;", "18446744073709551717", "100", "200", "404", "", "1010", "10"}},
	{"reason", []string{"Switching Protocols", "empty-with-space", "none", "Weird  Reason 101"}},
	{"upgrade", []string{"canon", "absent", "lower", "upper", "mixed", "padded", "case", "wrong", "dup-same", "triple-same", "dup-conflict"}},
	{"connection", []string{"canon", "absent", "lower", "upper", "mixed", "padded", "case", "wrong", "dup-same", "triple-same", "dup-conflict", "list"}},
	{"accept", []string{"canon", "absent", "lower", "upper", "mixed", "padded", "otherkey", "27", "29", "case", "dup-same", "triple-same", "dup-conflict", "lastchar", "firstchar", "foldname"}},
	{"protocol", []string{"absent", "a", "b", "c", "empty", "b, c", "b+c", "c+b"}},
	{"extensions", []string{"absent", "x", "x;p=1", "z", "malformed", "x, z", "x, y", "two-headers", "x;p=1;r=22, y", "x; a01=1; a02=2; a03=3; a04=4; a05=5; a06=6; a07=7; a08=8; a09=9; a10=10; a11=11; a12=12, y"}},
	{"extra", []string{"none", "before", "between", "after", "kelvin", "long-70000", "long-300000"}},
	{"order", []string{"canonical", "reversed", "rotated"}},
	{"lineend", []string{"CRLF", "LF"}},
	{"trailing", []string{"0", "1", "7", "B", "B+1"}},
}

type Resp []int

func (r Resp) V(name string) string {
	for i, f := range RespFields {
		if f.Name == name {
			return f.Variants[r[i]]
		}
	}
	panic("no field " + name)
}

func (r Resp) String() string {
	var parts []string
	for i, f := range RespFields {
		if r[i] != 0 {
			parts = append(parts, f.Name+"="+f.Variants[r[i]])
		}
	}
	if len(parts) == 0 {
		return "canonical"
	}
	return strings.Join(parts, " ")
}

// Trailing returns the post-handshake bytes for read buffer size B.
func (r Resp) Trailing(B int) []byte {
	n := 0
	switch r.V("trailing") {
	case "1":
		n = 1
	case "7":
		n = 7
	case "B":
		n = B
	case "B+1":
		n = B + 1
	}
	p := make([]byte, n)
	for i := range p {
		p[i] = byte(0x81 + i%97)
	}
	return p
}

func flipFirst(s string) string {
	if s[0] == 'A' {
		return "B" + s[1:]
	}
	return "A" + s[1:]
}

func swapCase(s string) string {
	b := []byte(s)
	for i, c := range b {
		switch {
		case 'a' <= c && c <= 'z':
			b[i] = c - 32
		case 'A' <= c && c <= 'Z':
			b[i] = c + 32
		}
	}
	return string(b)
}

// Build renders the response head for the key the client sent, followed by trailing bytes.
func (r Resp) Build(key string, B int) (headLen int, data []byte) {
	acc := Accept(key)
	var hsL [][]hline
	hsL = append(hsL, headerLines("Upgrade", "websocket", r.V("upgrade"), map[string]string{"case": "WebSocket", "wrong": "h2c"}, "h2c"))
	hsL = append(hsL, headerLines("Connection", "Upgrade", r.V("connection"), map[string]string{"case": "upgrade", "wrong": "close", "list": "keep-alive, Upgrade"}, "close"))
	hsL = append(hsL, headerLines("Sec-WebSocket-Accept", acc, r.V("accept"), map[string]string{
		"otherkey": Accept(OtherKey), "27": acc[:27], "29": acc + "=", "case": swapCase(acc),
		"lastchar": acc[:27] + "A", "firstchar": flipFirst(acc)}, Accept(OtherKey)))
	switch p := r.V("protocol"); p {
	case "a", "b", "c":
		hsL = append(hsL, []hline{{"Sec-WebSocket-Protocol", p}})
	case "empty":
		hsL = append(hsL, []hline{{"Sec-WebSocket-Protocol", ""}})
	case "b, c":
		// a list: not the name of any one protocol, even if one of its tokens was requested
		hsL = append(hsL, []hline{{"Sec-WebSocket-Protocol", "b, c"}})
	case "b+c":
		// two header lines; c is requested by no configuration
		hsL = append(hsL, []hline{{"Sec-WebSocket-Protocol", "b"}, {"Sec-WebSocket-Protocol", "c"}})
	case "c+b":
		hsL = append(hsL, []hline{{"Sec-WebSocket-Protocol", "c"}, {"Sec-WebSocket-Protocol", "b"}})
	}
	switch x := r.V("extensions"); x {
	case "absent":
	case "malformed":
		hsL = append(hsL, []hline{{"Sec-WebSocket-Extensions", "x; =, ;"}})
	case "two-headers":
		hsL = append(hsL, []hline{{"Sec-WebSocket-Extensions", "x"}, {"Sec-WebSocket-Extensions", "y; q=2"}})
	default:
		hsL = append(hsL, []hline{{"Sec-WebSocket-Extensions", x}})
	}
	switch r.V("order") {
	case "reversed":
		for i, j := 0, len(hsL)-1; i < j; i, j = i+1, j-1 {
			hsL[i], hsL[j] = hsL[j], hsL[i]
		}
	case "rotated":
		hsL = append(hsL[2:], hsL[:2]...)
	}
	var lines []hline
	extra := hline{"X-Extra", "1, 2; 3"}
	if x := r.V("extra"); strings.HasPrefix(x, "long-") {
		n := 70000
		if x == "long-300000" {
			n = 300000
		}
		lines = append(lines, hline{"X-Extra", strings.Repeat("v", n)})
	}
	if r.V("extra") == "kelvin" {
		// an unrelated header whose name equals a known one only under Unicode case folding
		lines = append(lines, hline{"Sec-WebSoc\u212aet-Protocol", "zzz"})
	}
	if r.V("extra") == "before" {
		lines = append(lines, extra)
	}
	for i, g := range hsL {
		lines = append(lines, g...)
		if r.V("extra") == "between" && i == 1 {
			lines = append(lines, extra)
		}
	}
	if r.V("extra") == "after" {
		lines = append(lines, extra)
	}
	nl := "\r\n"
	if r.V("lineend") == "LF" {
		nl = "\n"
	}
	var b bytes.Buffer
	switch r.V("reason") {
	case "none":
		fmt.Fprintf(&b, "%s %s%s", r.V("version"), r.V("status"), nl)
	case "empty-with-space":
		fmt.Fprintf(&b, "%s %s %s", r.V("version"), r.V("status"), nl)
	default:
		fmt.Fprintf(&b, "%s %s %s%s", r.V("version"), r.V("status"), r.V("reason"), nl)
	}
	for _, l := range lines {
		fmt.Fprintf(&b, "%s: %s%s", l.name, l.value, nl)
	}
	b.WriteString(nl)
	headLen = b.Len()
	b.Write(r.Trailing(B))
	return headLen, b.Bytes()
}

// DialCfg is a dialer configuration.
var DialFields = []Field{
	{"protocols", []string{"none", "a,b", "a", "ab,bb"}},
	{"extensions", []string{"none", "x,y;q=2", "x"}},
	{"readbuf", []string{"default", "128", "300"}},
	{"header", []string{"nil", "one"}},
	{"host", []string{"", "override.example"}},
}

type DialCfg []int

func (c DialCfg) V(name string) string {
	for i, f := range DialFields {
		if f.Name == name {
			return f.Variants[c[i]]
		}
	}
	panic("no field " + name)
}

func (c DialCfg) String() string {
	var parts []string
	for i, f := range DialFields {
		if c[i] != 0 {
			parts = append(parts, f.Name+"="+f.Variants[c[i]])
		}
	}
	if len(parts) == 0 {
		return "default"
	}
	return strings.Join(parts, " ")
}

func (c DialCfg) ReadBuf() int {
	switch c.V("readbuf") {
	case "128":
		return 128
	case "300":
		return 300
	}
	return 4096
}

func (c DialCfg) Protocols() []string {
	switch c.V("protocols") {
	case "a,b":
		return []string{"a", "b"}
	case "a":
		return []string{"a"}
	case "ab,bb":
		return []string{"ab", "bb"}
	}
	return nil
}

func (c DialCfg) ExtNames() []string {
	switch c.V("extensions") {
	case "x,y;q=2":
		return []string{"x", "y"}
	case "x":
		return []string{"x"}
	}
	return nil
}

func (c DialCfg) Dialer() ws.Dialer {
	var d ws.Dialer
	d.Protocols = c.Protocols()
	switch c.V("extensions") {
	case "x,y;q=2":
		d.Extensions = []httphead.Option{httphead.NewOption("x", nil), httphead.NewOption("y", map[string]string{"q": "2"})}
	case "x":
		d.Extensions = []httphead.Option{httphead.NewOption("x", nil)}
	}
	if c.V("readbuf") != "default" {
		d.ReadBufferSize = c.ReadBuf()
	}
	if c.V("header") == "one" {
		d.Header = ws.HandshakeHeaderString("X-Client: verif\r\n")
	}
	d.Host = c.V("host")
	return d
}

// LazyConn captures what the client writes; the first Read asks Respond for the bytes the
// peer sends (so the response can depend on the key in the request).
type LazyConn struct {
	Req     bytes.Buffer
	Respond func(req []byte) []byte
	Src     *env.Src
	Policy  func(max, off int) int
	OnRead  func(p []byte, off int)
	Writes  int
	// HiccupErr != nil: one transient read error after HiccupAt response bytes (see env.Src)
	HiccupAt  int
	HiccupErr error
}

func (l *LazyConn) Write(p []byte) (int, error) {
	l.Writes++
	return l.Req.Write(p)
}

func (l *LazyConn) Read(p []byte) (int, error) {
	if l.Src == nil {
		l.Src = env.NewSrc(l.Respond(l.Req.Bytes()))
		l.Src.Policy = l.Policy
		l.Src.OnRead = l.OnRead
		l.Src.HiccupAt, l.Src.HiccupErr = l.HiccupAt, l.HiccupErr
	}
	return l.Src.Read(p)
}

// KeyOf extracts the Sec-WebSocket-Key value from request bytes.
func KeyOf(req []byte) string {
	h := ParseHead(req)
	if g := h.Get("Sec-WebSocket-Key"); len(g) > 0 {
		return g[0]
	}
	return ""
}

// ClientVerdict applies the statement of C10 to the abstract response.
type ClientVerdict struct {
	MustAccept, MustReject, Open bool
	Reasons                      []string
	Protocol                     string
	ExtNames                     []string
}

func (r Resp) Judge(c DialCfg) ClientVerdict {
	var v ClientVerdict
	rej := func(why string) { v.MustReject = true; v.Reasons = append(v.Reasons, why) }
	switch r.V("version") {
	case "HTTP/1.1", "HTTP/1.2", "HTTP/1.10":
	default:
		rej("version")
	}
	if r.V("status") != "101" {
		rej("status")
	}
	if r.V("reason") == "none" {
		v.Open = true // status line without the second space: left open
	}
	switch r.V("upgrade") {
	case "absent", "wrong":
		rej("upgrade")
	case "dup-conflict":
		v.Open = true
	}
	switch r.V("connection") {
	case "absent", "wrong":
		rej("connection")
	case "dup-conflict", "list":
		v.Open = true
	}
	switch r.V("accept") {
	case "absent", "otherkey", "27", "29", "case", "lastchar", "firstchar", "foldname":
		rej("accept")
	case "dup-conflict":
		v.Open = true
	}
	switch p := r.V("protocol"); p {
	case "a", "b", "c":
		ok := false
		for _, w := range c.Protocols() {
			if w == p {
				ok = true
			}
		}
		if !ok {
			rej("protocol")
		} else {
			v.Protocol = p
		}
	case "empty":
		v.Open = true
	case "b, c", "b+c", "c+b":
		// the response names a subprotocol that was not requested
		rej("protocol")
	}
	offered := map[string]bool{}
	for _, n := range c.ExtNames() {
		offered[n] = true
	}
	var names []string
	switch x := r.V("extensions"); x {
	case "absent":
	case "malformed":
		v.Open = true
		if len(offered) == 0 {
			// nothing was offered: any extension in the response is unacceptable
		}
	case "two-headers":
		names = []string{"x", "y"}
	default:
		names = ExtNames(x)
	}
	for _, n := range names {
		if !offered[n] {
			rej("extensions")
		}
	}
	v.ExtNames = names
	if !v.MustReject && !v.Open {
		v.MustAccept = true
	}
	return v
}

// RunDialer runs Dialer.Upgrade against a lazy peer that answers with r.
type DialResult struct {
	Req      []byte
	Br       *bufio.Reader
	Hs       ws.Handshake
	Err      error
	Conn     *LazyConn
	HeadLen  int
	Sent     []byte
	Drained  []byte
	DrainErr error
	// ConfigMutated is non-empty when Upgrade changed the dialer's own configuration
	ConfigMutated string
}

// cfgDigest renders the parts of a dialer configuration that are shared by every copy of the
// Dialer value (slices).
func cfgDigest(d ws.Dialer) string {
	var b strings.Builder
	fmt.Fprintf(&b, "protocols=%q ext=", d.Protocols)
	for _, o := range d.Extensions {
		fmt.Fprintf(&b, "%q{", o.Name)
		o.Parameters.ForEach(func(k, v []byte) bool { fmt.Fprintf(&b, "%q=%q;", k, v); return true })
		b.WriteString("}")
	}
	return b.String()
}

func RunDialer(d ws.Dialer, c DialCfg, r Resp, u *url.URL, policy func(max, off int) int) DialResult {
	var res DialResult
	conn := &LazyConn{Policy: policy}
	conn.Respond = func(req []byte) []byte {
		hl, data := r.Build(KeyOf(req), c.ReadBuf())
		res.HeadLen, res.Sent = hl, data
		return data
	}
	res.Conn = conn
	before := cfgDigest(d)
	res.Br, res.Hs, res.Err = d.Upgrade(conn, u)
	if after := cfgDigest(d); after != before {
		res.ConfigMutated = fmt.Sprintf("before %s after %s", before, after)
	}
	res.Req = append([]byte{}, conn.Req.Bytes()...)
	if res.Err == nil {
		var rd io.Reader = conn
		if res.Br != nil {
			rd = res.Br
		}
		res.Drained, res.DrainErr = io.ReadAll(rd)
	}
	return res
}

// JudgeClient checks one client handshake outcome.
func JudgeClient(r Resp, c DialCfg, res DialResult) (sig, detail string) {
	v := r.Judge(c)
	if res.ConfigMutated != "" {
		return "dialer-configuration-mutated-by-Upgrade", res.ConfigMutated
	}
	if res.Err == nil {
		if v.MustReject {
			return "accepts-bad-response:" + strings.Join(v.Reasons, "+"), fmt.Sprintf("response must be refused (%v) but Upgrade returned nil\nresponse: %q", v.Reasons, head(res.Sent))
		}
		if !v.Open {
			if res.Hs.Protocol != v.Protocol {
				return "protocol-returned", fmt.Sprintf("returned %q server sent %q", res.Hs.Protocol, v.Protocol)
			}
			var names []string
			for _, o := range res.Hs.Extensions {
				names = append(names, string(o.Name))
			}
			if strings.Join(names, ",") != strings.Join(v.ExtNames, ",") {
				return "extensions-returned", fmt.Sprintf("returned %v server sent %v", names, v.ExtNames)
			}
			// parameters: exactly those the server sent for each extension
			wantParams := map[string][]string{
				"x": {"x{}"}, "x;p=1": {"x{p=1;}"}, "x, y": {"x{}", "y{}"}, "two-headers": {"x{}", "y{q=2;}"}, "x;p=1;r=22, y": {"x{p=1;r=22;}", "y{}"},
				"x; a01=1; a02=2; a03=3; a04=4; a05=5; a06=6; a07=7; a08=8; a09=9; a10=10; a11=11; a12=12, y": {"x{a01=1;a02=2;a03=3;a04=4;a05=5;a06=6;a07=7;a08=8;a09=9;a10=10;a11=11;a12=12;}", "y{}"},
			}
			if wp, ok := wantParams[r.V("extensions")]; ok {
				var got []string
				for _, o := range res.Hs.Extensions {
					var ps []string
					o.Parameters.ForEach(func(k, v []byte) bool { ps = append(ps, string(k)+"="+string(v)+";"); return true })
					sort.Strings(ps)
					got = append(got, string(o.Name)+"{"+strings.Join(ps, "")+"}")
				}
				if strings.Join(got, ",") != strings.Join(wp, ",") {
					return "extension-parameters-returned", fmt.Sprintf("returned %v, server sent %v", got, wp)
				}
			}
		}
		want := res.Sent[res.HeadLen:]
		if !bytes.Equal(res.Drained, want) {
			return "trailing-bytes-lost-or-reordered:trailing=" + r.V("trailing"), fmt.Sprintf("server sent %d bytes after the head, reader+conn yield %d (%x.. vs %x..)", len(want), len(res.Drained), head16(res.Drained), head16(want))
		}
		return "", "accept"
	}
	if v.MustAccept {
		return "refuses-valid-response", fmt.Sprintf("err=%v\nresponse: %q", res.Err, head(res.Sent))
	}
	if res.Br != nil {
		return "reader-returned-on-failure", ""
	}
	return "", "reject"
}

func head16(b []byte) []byte {
	if len(b) > 16 {
		return b[:16]
	}
	return b
}
