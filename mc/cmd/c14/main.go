// C14: permessage-deflate negotiation answers every offer as RFC 7692 §7.1 requires.
package main

import (
	"bytes"
	"fmt"
	"io"
	"sort"
	"strconv"
	"strings"

	"github.com/gobwas/httphead"
	"github.com/gobwas/ws"
	"github.com/gobwas/ws/wsflate"

	"verifmc/explore"
	"verifmc/hs"
)

type P = wsflate.Parameters

var bitsCfg = []wsflate.WindowBits{0, 8, 9, 10, 11, 12, 13, 14, 15}
var bitsOfferC = []wsflate.WindowBits{0, 1, 8, 9, 10, 11, 12, 13, 14, 15}

func allConfigs() []P {
	var out []P
	for _, a := range []bool{false, true} {
		for _, b := range []bool{false, true} {
			for _, s := range bitsCfg {
				for _, c := range bitsCfg {
					out = append(out, P{ServerNoContextTakeover: a, ClientNoContextTakeover: b, ServerMaxWindowBits: s, ClientMaxWindowBits: c})
				}
			}
		}
	}
	return out
}

func allOffers() []P {
	var out []P
	for _, a := range []bool{false, true} {
		for _, b := range []bool{false, true} {
			for _, s := range bitsCfg {
				for _, c := range bitsOfferC {
					out = append(out, P{ServerNoContextTakeover: a, ClientNoContextTakeover: b, ServerMaxWindowBits: s, ClientMaxWindowBits: c})
				}
			}
		}
	}
	return out
}

func ps(p P) string {
	return fmt.Sprintf("{snct=%v cnct=%v smwb=%d cmwb=%d}", p.ServerNoContextTakeover, p.ClientNoContextTakeover, p.ServerMaxWindowBits, p.ClientMaxWindowBits)
}

// offerOption renders an offer as the client would (through the library's encoder for E1;
// E4 checks the encoder itself).
func offerOption(p P) httphead.Option { return p.Option() }

type kv struct{ k, v string }

func params(o httphead.Option) []kv {
	var out []kv
	o.Parameters.ForEach(func(k, v []byte) bool {
		out = append(out, kv{string(k), string(v)})
		return true
	})
	return out
}

// legal judges an answer against an offer per RFC 7692 §7.1. "" = legal.
func legal(offer P, ans httphead.Option) string {
	if string(ans.Name) != "permessage-deflate" {
		return fmt.Sprintf("answer-name:%q", ans.Name)
	}
	seen := map[string]string{}
	for _, p := range params(ans) {
		if _, dup := seen[p.k]; dup {
			return "answer-duplicate-parameter:" + p.k
		}
		seen[p.k] = p.v
		switch p.k {
		case "server_no_context_takeover", "client_no_context_takeover":
			if p.v != "" {
				return "answer-flag-with-value:" + p.k
			}
		case "server_max_window_bits", "client_max_window_bits":
			n, err := strconv.Atoi(p.v)
			if err != nil || n < 8 || n > 15 {
				return "answer-window-value-out-of-range:" + p.k
			}
		default:
			return "answer-unknown-parameter:" + p.k
		}
	}
	if offer.ServerMaxWindowBits != 0 {
		v, ok := seen["server_max_window_bits"]
		if !ok {
			return "server_max_window_bits-requested-but-absent"
		}
		if n, _ := strconv.Atoi(v); n > int(offer.ServerMaxWindowBits) {
			return "server_max_window_bits-larger-than-requested"
		}
	}
	if v, ok := seen["client_max_window_bits"]; ok {
		if offer.ClientMaxWindowBits == 0 {
			return "client_max_window_bits-not-offered"
		}
		if n, _ := strconv.Atoi(v); offer.ClientMaxWindowBits > 1 && n > int(offer.ClientMaxWindowBits) {
			return "client_max_window_bits-larger-than-offered"
		}
	}
	if offer.ServerNoContextTakeover {
		if _, ok := seen["server_no_context_takeover"]; !ok {
			return "server_no_context_takeover-requested-but-absent"
		}
	}
	return ""
}

func optStr(o httphead.Option) string {
	if o.Size() == 0 {
		return "(none)"
	}
	var parts []string
	for _, p := range params(o) {
		if p.v == "" {
			parts = append(parts, p.k)
		} else {
			parts = append(parts, p.k+"="+p.v)
		}
	}
	return string(o.Name) + "; " + strings.Join(parts, "; ")
}

func sortedParams(o httphead.Option) string {
	var parts []string
	for _, p := range params(o) {
		parts = append(parts, p.k+"="+p.v)
	}
	sort.Strings(parts)
	return strings.Join(parts, ";")
}

func main() {
	explore.Main("C14", func(r *explore.Run) {
		cfgs := allConfigs()
		offers := allOffers()

		r.Part("E1-full-grid", func(t *explore.T) {
			t.Par(len(cfgs), func(ci int) {
				cfg := cfgs[ci]
				for _, off := range offers {
					off := off
					t.Do(func() string { return fmt.Sprintf("config%s offer%s", ps(cfg), ps(off)) }, func() *explore.Fail {
						e := &wsflate.Extension{Parameters: cfg}
						ans, err := e.Negotiate(offerOption(off))
						if err != nil {
							return explore.Failf("valid-offer-error", "%v", err)
						}
						got, accepted := e.Accepted()
						if accepted != (ans.Size() > 0) {
							return explore.Failf("Accepted-flag", "accepted=%v answer=%s", accepted, optStr(ans))
						}
						if got != off {
							return explore.Failf("Accepted-params", "reports %s for offer %s", ps(got), ps(off))
						}
						if ans.Size() == 0 {
							t.Outcome("declined")
							return nil
						}
						if why := legal(off, ans); why != "" {
							return explore.Failf("illegal-answer:"+why, "answer %q", optStr(ans))
						}
						// Reset -> behaves as new
						e.Reset()
						if p, a := e.Accepted(); a || p != (P{}) {
							return explore.Failf("Reset-leaves-state", "")
						}
						ans2, err2 := e.Negotiate(offerOption(off))
						if err2 != nil || optStr(ans2) != optStr(ans) {
							return explore.Failf("after-Reset-differs", "%s vs %s", optStr(ans2), optStr(ans))
						}
						// "The argument is only valid until the Negotiate callback returns": the offer as the
						// upgrader hands it over points into its read buffer; the answer must not
						e.Reset()
						var hdr bytes.Buffer
						httphead.WriteOptions(&hdr, []httphead.Option{offerOption(off)})
						raw := append([]byte{}, hdr.Bytes()...)
						parsed, ok := httphead.ParseOptions(raw, nil)
						if !ok || len(parsed) != 1 {
							return explore.Failf("harness-offer-rendering", "%q", raw)
						}
						ans3, err3 := e.Negotiate(parsed[0])
						if err3 != nil || optStr(ans3) != optStr(ans) {
							return explore.Failf("parsed-offer-differs", "%s vs %s (%v)", optStr(ans3), optStr(ans), err3)
						}
						for i := range raw {
							raw[i] = 0xDD
						}
						if optStr(ans3) != optStr(ans) {
							return explore.Failf("answer-refers-to-the-offer's-memory", "after the caller reused the buffer the offer was parsed in, the answer reads %q (was %q)", optStr(ans3), optStr(ans))
						}
						t.Outcome("accepted")
						return nil
					})
				}
			})
		})

		// One Extension value serves many upgrades (Reset between them), and its owner may
		// change Parameters between two upgrades: the answer to an offer must be the one a fresh
		// Extension with the current Parameters gives, whatever was negotiated before.
		r.Part("E1c-reused-extension-history", func(t *explore.T) {
			pick := func(n, k int) []int {
				var out []int
				for i := 0; i < k; i++ {
					out = append(out, (i*n)/k+(i*7)%((n/k)+1)%(n/k))
				}
				return out
			}
			cfgSub, offSub := pick(len(cfgs), 12), pick(len(offers), 8)
			type hist struct{ cfg, off P }
			var hists []hist
			for _, ci := range cfgSub {
				for _, oi := range offSub {
					hists = append(hists, hist{cfgs[ci], offers[oi]})
				}
			}
			type cur struct{ cfg, off P }
			var curs []cur
			for _, cfg := range cfgs {
				for _, oi := range offSub {
					curs = append(curs, cur{cfg, offers[oi]})
				}
			}
			for _, ci := range cfgSub {
				for _, off := range offers {
					curs = append(curs, cur{cfgs[ci], off})
				}
			}
			bogus := httphead.Option{Name: []byte("permessage-deflate")}
			bogus.Parameters.Set([]byte("bogus"), nil)
			t.Par(len(hists), func(hi int) {
				h := hists[hi]
				for _, failFirst := range []bool{false, true} {
					t.DoN(int64(len(curs)), func() string {
						return fmt.Sprintf("first upgrade config%s offer%s (then a refused offer: %v), Reset, then every config x offer", ps(h.cfg), ps(h.off), failFirst)
					}, func() *explore.Fail {
						for _, c := range curs {
							e := &wsflate.Extension{Parameters: h.cfg}
							if _, err := e.Negotiate(offerOption(h.off)); err != nil {
								return explore.Failf("valid-offer-error", "%v", err)
							}
							if failFirst {
								e.Reset()
								e.Negotiate(bogus)
							}
							e.Reset()
							if p, a := e.Accepted(); a || p != (P{}) {
								return explore.Failf("Reset-leaves-state", "Accepted() right after Reset reports %s, %v", ps(p), a)
							}
							e.Parameters = c.cfg
							got, err := e.Negotiate(offerOption(c.off))
							f := &wsflate.Extension{Parameters: c.cfg}
							want, err2 := f.Negotiate(offerOption(c.off))
							if (err == nil) != (err2 == nil) || optStr(got) != optStr(want) {
								return explore.Failf("answer-depends-on-earlier-upgrade", "second upgrade config%s offer%s: reused extension answers %q (err=%v), fresh one %q (err=%v)", ps(c.cfg), ps(c.off), optStr(got), err, optStr(want), err2)
							}
							gp, ga := e.Accepted()
							fp, fa := f.Accepted()
							if gp != fp || ga != fa {
								return explore.Failf("Accepted-depends-on-earlier-upgrade", "second upgrade config%s offer%s", ps(c.cfg), ps(c.off))
							}
							if got.Size() > 0 {
								if why := legal(c.off, got); why != "" {
									return explore.Failf("illegal-answer-after-reuse:"+why, "answer %q", optStr(got))
								}
							}
						}
						return nil
					})
				}
			})
			t.Outcome("same-as-fresh")
			t.Note(fmt.Sprintf("%d first upgrades x {plain, followed by a refused offer} x %d (config, offer) second upgrades on the same Extension after Reset with Parameters reassigned", len(hists), len(curs)))
		})

		// The upgrader parses every offer inside its read buffer, and the next handshake's offer
		// lands in the very same bytes. One Extension (Reset between upgrades) sees offer A parsed in
		// a buffer, then - the buffer rewritten in place - offer B of the same rendered length: the
		// answer to B is the answer a fresh Extension gives to B.
		r.Part("E1d-offers-parsed-in-a-reused-buffer", func(t *explore.T) {
			render := func(p P) []byte {
				var b bytes.Buffer
				httphead.WriteOptions(&b, []httphead.Option{offerOption(p)})
				return append([]byte{}, b.Bytes()...)
			}
			byLen := map[int][]P{}
			for _, o := range offers {
				byLen[len(render(o))] = append(byLen[len(render(o))], o)
			}
			var cfgsHere []P
			for i, c := range cfgs {
				if i%9 == 0 || t.Thorough() {
					cfgsHere = append(cfgsHere, c)
				}
			}
			t.Par(len(cfgsHere), func(ci int) {
				cfg := cfgsHere[ci]
				for _, group := range byLen {
					for _, a := range group {
						for _, b := range group {
							if a == b {
								continue
							}
							a, b := a, b
							t.Do(func() string {
								return fmt.Sprintf("config%s: offer%s parsed in a buffer and negotiated, Reset, the buffer rewritten with offer%s", ps(cfg), ps(a), ps(b))
							}, func() *explore.Fail {
								buf := render(a)
								pa, ok := httphead.ParseOptions(buf, nil)
								if !ok || len(pa) != 1 {
									return explore.Failf("harness-offer-rendering", "%q", buf)
								}
								e := &wsflate.Extension{Parameters: cfg}
								if _, err := e.Negotiate(pa[0]); err != nil {
									return explore.Failf("valid-offer-error", "%v", err)
								}
								e.Reset()
								copy(buf, render(b))
								pb, ok := httphead.ParseOptions(buf, nil)
								if !ok || len(pb) != 1 {
									return explore.Failf("harness-offer-rendering", "%q", buf)
								}
								got, err := e.Negotiate(pb[0])
								f := &wsflate.Extension{Parameters: cfg}
								want, werr := f.Negotiate(offerOption(b))
								if (err == nil) != (werr == nil) || optStr(got) != optStr(want) {
									return explore.Failf("answer-depends-on-the-previous-offer-in-the-same-buffer", "got %q (%v), a fresh negotiator answers %q (%v)", optStr(got), err, optStr(want), werr)
								}
								gp, ga := e.Accepted()
								wp, wa := f.Accepted()
								if gp != wp || ga != wa {
									return explore.Failf("Accepted-depends-on-the-previous-offer-in-the-same-buffer", "%s/%v vs %s/%v", ps(gp), ga, ps(wp), wa)
								}
								return nil
							})
						}
					}
				}
			})
			t.Outcome("as-fresh")
		})

		// One Extension serves a connection after the other (Reset in between): every history of up
		// to 6 (7) upgrades over 8 different offers, each offer parsed in a buffer of its own that is
		// scribbled over afterwards. Every answer along the way is the answer a fresh Extension gives.
		r.Part("E1e-long-histories-of-one-negotiator", func(t *explore.T) {
			pick := []P{{}, {false, false, 10, 0}, {false, false, 0, 1}, {false, false, 0, 10}, {true, false, 0, 0}, {false, true, 12, 0}, {true, true, 8, 8}, {false, false, 15, 15}}
			depth := t.Pick(6, 7)
			cfgsHere := []P{{}, {false, false, 12, 0}, {true, false, 0, 12}, {false, true, 0, 0}, {true, true, 10, 10}, {false, false, 15, 15}}
			t.Par(len(cfgsHere)*len(pick), func(i int) {
				cfg, firstOffer := cfgsHere[i/len(pick)], i%len(pick)
				fresh := make([]string, len(pick))
				for k, o := range pick {
					f := &wsflate.Extension{Parameters: cfg}
					a, err := f.Negotiate(offerOption(o))
					fresh[k] = fmt.Sprintf("%s err=%v", optStr(a), err)
				}
				var rec func(hist []int) *explore.Fail
				run := func(hist []int) *explore.Fail {
					e := &wsflate.Extension{Parameters: cfg}
					for step, k := range hist {
						var hdr bytes.Buffer
						httphead.WriteOptions(&hdr, []httphead.Option{offerOption(pick[k])})
						raw := append([]byte{}, hdr.Bytes()...)
						parsed, ok := httphead.ParseOptions(raw, nil)
						if !ok || len(parsed) != 1 {
							return explore.Failf("harness-offer-rendering", "%q", raw)
						}
						a, err := e.Negotiate(parsed[0])
						got := fmt.Sprintf("%s err=%v", optStr(a), err)
						for j := range raw {
							raw[j] = 0xDD
						}
						if got != fresh[k] {
							return explore.Failf("answer-depends-on-earlier-upgrades-of-the-same-negotiator", "upgrade #%d of history %v (offer%s): %s; a fresh negotiator: %s", step, hist, ps(pick[k]), got, fresh[k])
						}
						e.Reset()
					}
					return nil
				}
				rec = func(hist []int) *explore.Fail {
					if len(hist) == depth {
						return run(hist)
					}
					for k := range pick {
						if f := rec(append(hist, k)); f != nil {
							return f
						}
					}
					return nil
				}
				n := int64(1)
				for j := 1; j < depth; j++ {
					n *= int64(len(pick))
				}
				t.DoN(n, func() string {
					return fmt.Sprintf("config%s: every history of %d upgrades starting with offer%s", ps(cfg), depth, ps(pick[firstOffer]))
				}, func() *explore.Fail { return rec([]int{firstOffer}) })
			})
			t.Outcome("as-fresh")
		})

		r.Part("E1b-through-Upgrader", func(t *explore.T) {
			stride := t.Pick(7, 1)
			t.Par(len(cfgs), func(ci int) {
				cfg := cfgs[ci]
				for oi, off := range offers {
					if (oi+ci)%stride != 0 {
						continue
					}
					off := off
					t.Do(func() string { return fmt.Sprintf("Upgrader config%s offer%s", ps(cfg), ps(off)) }, func() *explore.Fail {
						e := &wsflate.Extension{Parameters: cfg}
						u := ws.Upgrader{Negotiate: e.Negotiate}
						var hdr bytes.Buffer
						httphead.WriteOptions(&hdr, []httphead.Option{offerOption(off)})
						req := "GET / HTTP/1.1\r\nHost: h\r\nUpgrade: websocket\r\nConnection: Upgrade\r\nSec-WebSocket-Version: 13\r\nSec-WebSocket-Key: " + hs.CanonKey +
							"\r\nSec-WebSocket-Extensions: " + hdr.String() + "\r\n\r\n"
						var out bytes.Buffer
						hsk, err := u.Upgrade(struct {
							io.Reader
							io.Writer
						}{strings.NewReader(req), &out})
						if err != nil {
							return explore.Failf("upgrade-error", "%v", err)
						}
						direct := &wsflate.Extension{Parameters: cfg}
						want, _ := direct.Negotiate(offerOption(off))
						h := hs.ParseHead(out.Bytes())
						g := h.Get("Sec-WebSocket-Extensions")
						if want.Size() == 0 {
							if len(g) != 0 || len(hsk.Extensions) != 0 {
								return explore.Failf("upgrader-header-for-declined", "%v", g)
							}
							t.Outcome("declined")
							return nil
						}
						if len(g) != 1 || len(hsk.Extensions) != 1 {
							return explore.Failf("upgrader-header-missing", "%v", g)
						}
						parsed, ok := httphead.ParseOptions([]byte(g[0]), nil)
						if !ok || len(parsed) != 1 || string(parsed[0].Name) != "permessage-deflate" || sortedParams(parsed[0]) != sortedParams(want) {
							return explore.Failf("upgrader-header-differs-from-answer", "header %q answer %q", g[0], optStr(want))
						}
						if why := legal(off, parsed[0]); why != "" {
							return explore.Failf("illegal-answer-on-wire:"+why, "header %q", g[0])
						}
						t.Outcome("accepted")
						return nil
					})
				}
			})
		})

		r.Part("E2-offer-lists", func(t *explore.T) {
			// negotiate a list the way the upgrader does: offers in order on one Extension
			run := func(cfg P, list []httphead.Option) (answers []httphead.Option, idx []int, err error) {
				e := &wsflate.Extension{Parameters: cfg}
				for i, o := range list {
					a, er := e.Negotiate(o)
					if er != nil {
						return answers, idx, er
					}
					if a.Size() > 0 {
						answers = append(answers, a)
						idx = append(idx, i)
					}
				}
				return
			}
			alone := func(cfg P, o httphead.Option) bool {
				e := &wsflate.Extension{Parameters: cfg}
				a, err := e.Negotiate(o)
				return err == nil && a.Size() > 0
			}
			foreignName := "x-foreign"
			judge := func(cfg P, list []P, withForeign bool) *explore.Fail {
				var opts []httphead.Option
				var isPmd []int
				for i, p := range list {
					if withForeign && i == 1 {
						opts = append(opts, httphead.NewOption(foreignName, map[string]string{"a": "1"}))
						isPmd = append(isPmd, -1)
					}
					if withForeign && i == 0 && foreignName != "x-foreign" {
						// another extension whose name merely resembles ours comes first, bare
						opts = append(opts, httphead.NewOption(foreignName, nil))
						isPmd = append(isPmd, -1)
					}
					opts = append(opts, offerOption(p))
					isPmd = append(isPmd, i)
				}
				answers, idx, err := run(cfg, opts)
				if err != nil {
					return explore.Failf("valid-list-error", "%v", err)
				}
				if len(answers) > 1 {
					return explore.Failf("more-than-one-offer-accepted", "%d answers", len(answers))
				}
				first := -1
				for i, o := range opts {
					if isPmd[i] >= 0 && alone(cfg, o) {
						first = i
						break
					}
				}
				if first < 0 {
					if len(answers) != 0 {
						return explore.Failf("accepts-offer-it-declines-alone", "")
					}
					return nil
				}
				if len(answers) != 1 || idx[0] != first {
					return explore.Failf("not-first-acceptable-offer", "first acceptable is #%d, answered %v", first, idx)
				}
				if why := legal(list[isPmd[first]], answers[0]); why != "" {
					return explore.Failf("illegal-answer-in-list:"+why, "answer %q", optStr(answers[0]))
				}
				return nil
			}
			// all ordered pairs x 36 configurations
			var cfg36 []P
			for _, a := range []bool{false, true} {
				for _, b := range []bool{false, true} {
					for _, s := range []wsflate.WindowBits{0, 10, 15} {
						for _, c := range []wsflate.WindowBits{0, 10, 15} {
							cfg36 = append(cfg36, P{a, b, s, c})
						}
					}
				}
			}
			t.Par(len(offers), func(i int) {
				for _, o2 := range offers {
					for _, cfg := range cfg36 {
						o1, o2, cfg := offers[i], o2, cfg
						t.Do(func() string { return fmt.Sprintf("pair config%s offers[%s,%s]", ps(cfg), ps(o1), ps(o2)) }, func() *explore.Fail {
							if f := judge(cfg, []P{o1, o2}, false); f != nil {
								return f
							}
							return nil
						})
					}
				}
			})
			// all triples over 12 representative offers x 324 configurations, with a foreign option interleaved
			rep := []P{{}, {true, false, 0, 0}, {false, true, 0, 0}, {false, false, 10, 0}, {false, false, 15, 0}, {false, false, 0, 1},
				{false, false, 0, 10}, {false, false, 0, 15}, {true, true, 8, 8}, {true, false, 12, 1}, {false, false, 8, 15}, {true, true, 15, 9}}
			t.Par(len(cfgs), func(ci int) {
				cfg := cfgs[ci]
				for _, a := range rep {
					for _, b := range rep {
						for _, c := range rep {
							a, b, c := a, b, c
							t.Do(func() string { return fmt.Sprintf("triple config%s offers[%s,%s,%s]", ps(cfg), ps(a), ps(b), ps(c)) }, func() *explore.Fail {
								return judge(cfg, []P{a, b, c}, true)
							})
						}
					}
				}
			})
			// extension names that only resemble ours (another letter case, a prefix, a suffix) belong
			// to somebody else: they get no answer, are not reported as accepted, and do not stand in
			// the way of the genuine offer behind them
			for _, name := range []string{"Permessage-Deflate", "PERMESSAGE-DEFLATE", "permessage-deflat", "permessage-deflate2", "x-permessage-deflate"} {
				name := name
				for _, cfg := range cfg36 {
					for _, a := range rep {
						for _, b := range rep {
							cfg, a, b := cfg, a, b
							t.Do(func() string {
								return fmt.Sprintf("config%s offers[%s (bare), offer%s, %s; a=1, offer%s]", ps(cfg), name, ps(a), name, ps(b))
							}, func() *explore.Fail {
								var opts []httphead.Option
								opts = append(opts, httphead.NewOption(name, nil), offerOption(a), httphead.NewOption(name, map[string]string{"a": "1"}), offerOption(b))
								e := &wsflate.Extension{Parameters: cfg}
								var answered []int
								for i, o := range opts {
									ans, err := e.Negotiate(o)
									if err != nil {
										return explore.Failf("look-alike-name-error", "offer #%d %q: %v", i, o.Name, err)
									}
									if ans.Size() > 0 {
										if string(ans.Name) != "permessage-deflate" {
											return explore.Failf("answer-name", "%q", ans.Name)
										}
										answered = append(answered, i)
									}
								}
								want := -1
								if alone(cfg, offerOption(a)) {
									want = 1
								} else if alone(cfg, offerOption(b)) {
									want = 3
								}
								if (want < 0 && len(answered) != 0) || (want >= 0 && (len(answered) != 1 || answered[0] != want)) {
									return explore.Failf("look-alike-extension-name-treated-as-ours", "answered offers %v, the first acceptable permessage-deflate offer is #%d (names: %s, pmd, %s, pmd)", answered, want, name, name)
								}
								return nil
							})
						}
					}
				}
			}
			// long lists: N offers the configuration declines (N up to 300), then an acceptable one;
			// and N declined offers followed by a malformed one (which is still an error)
			longN := []int{4, 8, 15, 16, 17, 31, 32, 33, 63, 64, 65, 100, 300}
			t.Par(len(cfgs), func(ci int) {
				cfg := cfgs[ci]
				var declined, accepted *P
				for i := range rep {
					if alone(cfg, offerOption(rep[i])) {
						if accepted == nil {
							accepted = &rep[i]
						}
					} else if declined == nil {
						declined = &rep[i]
					}
				}
				if declined == nil || accepted == nil {
					return
				}
				for _, n := range longN {
					n := n
					t.Do(func() string {
						return fmt.Sprintf("long list config%s: %d x offer%s (declined) then offer%s", ps(cfg), n, ps(*declined), ps(*accepted))
					}, func() *explore.Fail {
						var list []P
						for i := 0; i < n; i++ {
							list = append(list, *declined)
						}
						if f := judge(cfg, append(list, *accepted), false); f != nil {
							return f
						}
						var opts []httphead.Option
						for _, p := range list {
							opts = append(opts, offerOption(p))
						}
						bad := httphead.Option{Name: []byte("permessage-deflate")}
						bad.Parameters.Set([]byte("server_max_window_bits"), []byte("99"))
						if _, _, err := run(cfg, append(opts, bad)); err == nil {
							return explore.Failf("malformed-offer-accepted-after-long-list", "%d declined offers, then server_max_window_bits=99: no error", n)
						}
						return nil
					})
				}
			})
			// A caller that does not stop at an error (a callback that declines the offer in error and
			// goes on to the next, as RFC 7692 lets it): every list of up to 4 offers over {acceptable,
			// declined, malformed, foreign} on one negotiator. Still at most one answer, and it goes to
			// the first acceptable offer.
			t.Par(len(cfgs), func(ci int) {
				cfg := cfgs[ci]
				var declined, accepted *P
				for i := range rep {
					if alone(cfg, offerOption(rep[i])) {
						if accepted == nil {
							accepted = &rep[i]
						}
					} else if declined == nil {
						declined = &rep[i]
					}
				}
				if accepted == nil {
					return
				}
				kinds := []byte("AMF")
				if declined != nil {
					kinds = []byte("AMFD")
				}
				var lists []string
				var gen func(cur string)
				gen = func(cur string) {
					if len(cur) >= 2 {
						lists = append(lists, cur)
					}
					if len(cur) == 4 {
						return
					}
					for _, k := range kinds {
						gen(cur + string(k))
					}
				}
				gen("")
				for _, l := range lists {
					if !strings.Contains(l, "M") || strings.Count(l, "A") == 0 {
						continue // lists without an error are judged above
					}
					l := l
					t.Do(func() string {
						return fmt.Sprintf("config%s offers %s (A=offer%s, M=malformed, F=foreign, D=declined), the caller carries on after an error", ps(cfg), l, ps(*accepted))
					}, func() *explore.Fail {
						e := &wsflate.Extension{Parameters: cfg}
						var answered []int
						for i, k := range []byte(l) {
							var o httphead.Option
							switch k {
							case 'A':
								o = offerOption(*accepted)
							case 'D':
								o = offerOption(*declined)
							case 'F':
								o = httphead.NewOption("x-foreign", map[string]string{"a": "1"})
							default:
								o = httphead.Option{Name: []byte("permessage-deflate")}
								o.Parameters.Set([]byte("server_max_window_bits"), []byte("99"))
							}
							a, _ := e.Negotiate(o)
							if a.Size() > 0 {
								answered = append(answered, i)
							}
						}
						if len(answered) > 1 {
							return explore.Failf("more-than-one-offer-accepted:after-an-error", "offers #%v were all answered", answered)
						}
						if first := strings.Index(l, "A"); len(answered) != 1 || answered[0] != first {
							return explore.Failf("not-first-acceptable-offer:after-an-error", "first acceptable is #%d, answered %v", first, answered)
						}
						if _, ok := e.Accepted(); !ok {
							return explore.Failf("Accepted-flag:after-an-error", "an offer was answered but Accepted() says no")
						}
						return nil
					})
				}
			})
			t.Outcome("ok")
		})

		r.Part("E3-malformed-parameter-lists", func(t *explore.T) {
			names := []string{"server_no_context_takeover", "client_no_context_takeover", "server_max_window_bits", "client_max_window_bits", "unknown_param"}
			values := []string{"<none>", "8", "15", "7", "16", "0", "x", "08"}
			type prm struct{ n, v string }
			var all []prm
			for _, n := range names {
				for _, v := range values {
					all = append(all, prm{n, v})
				}
			}
			// expectation: nil = must be accepted, non-empty = must be an error, "open" = not judged
			expect := func(list []prm) string {
				seen := map[string]bool{}
				open := false
				for _, p := range list {
					if seen[p.n] {
						return "duplicate:" + p.n
					}
					seen[p.n] = true
					has := p.v != "<none>"
					switch p.n {
					case "unknown_param":
						return "unknown-parameter"
					case "server_no_context_takeover", "client_no_context_takeover":
						if has {
							return "value-on-flag"
						}
					case "server_max_window_bits":
						if !has {
							return "missing-window-value"
						}
						fallthrough
					case "client_max_window_bits":
						if has {
							if p.v == "08" {
								open = true
							} else if n, err := strconv.Atoi(p.v); err != nil || n < 8 || n > 15 {
								return "bad-window-value"
							}
						}
					}
				}
				if open {
					return "open"
				}
				return ""
			}
			var rec func(list []prm)
			rec = func(list []prm) {
				if len(list) > 0 {
					list := append([]prm{}, list...)
					t.Do(func() string { return fmt.Sprintf("params %v", list) }, func() *explore.Fail {
						opt := httphead.Option{Name: []byte("permessage-deflate")}
						var hdr []string
						for _, p := range list {
							if p.v == "<none>" {
								opt.Parameters.Set([]byte(p.n), nil)
								hdr = append(hdr, p.n)
							} else {
								opt.Parameters.Set([]byte(p.n), []byte(p.v))
								hdr = append(hdr, p.n+"="+p.v)
							}
						}
						want := expect(list)
						var p P
						err := p.Parse(opt)
						e := &wsflate.Extension{}
						_, nerr := e.Negotiate(opt)
						// and through the header parser
						parsed, ok := httphead.ParseOptions([]byte("permessage-deflate; "+strings.Join(hdr, "; ")), nil)
						var herr error
						if ok && len(parsed) == 1 {
							var q P
							herr = q.Parse(parsed[0])
						}
						switch want {
						case "open":
							t.Outcome("open")
						case "":
							if err != nil || nerr != nil || herr != nil {
								return explore.Failf("valid-parameters-refused", "Parse=%v Negotiate=%v header=%v", err, nerr, herr)
							}
							t.Outcome("valid")
						default:
							if err == nil || nerr == nil || herr == nil {
								return explore.Failf("malformed-accepted:"+want, "Parse=%v Negotiate=%v header=%v", err, nerr, herr)
							}
							t.Outcome("error:" + strings.SplitN(want, ":", 2)[0])
						}
						return nil
					})
				}
				if len(list) == t.Pick(3, 3) {
					return
				}
				for _, p := range all {
					rec(append(list, p))
				}
			}
			rec(nil)
		})

		// complete offers (all four legal parameters, in every order) with one more parameter that
		// is unknown, a duplicate or ill-valued at every position: an error, wherever it stands
		r.Part("E3c-complete-offers-plus-one-bad-parameter", func(t *explore.T) {
			type prm struct{ n, v string }
			legalSets := [][]prm{
				{{"server_no_context_takeover", ""}, {"client_no_context_takeover", ""}, {"server_max_window_bits", "10"}, {"client_max_window_bits", "12"}},
				{{"server_no_context_takeover", ""}, {"client_no_context_takeover", ""}, {"server_max_window_bits", "15"}, {"client_max_window_bits", ""}},
			}
			bads := []prm{{"unknown_param", ""}, {"unknown_param", "1"}, {"server_no_context_takeover", ""}, {"client_no_context_takeover", "x"}, {"server_max_window_bits", "10"}, {"server_max_window_bits", "7"},
				{"client_max_window_bits", "16"}, {"client_max_window_bits", ""}, {"server_max_window_bits", ""}}
			var perms [][]int
			var permute func(cur []int, used int)
			permute = func(cur []int, used int) {
				if len(cur) == 4 {
					perms = append(perms, append([]int{}, cur...))
					return
				}
				for i := 0; i < 4; i++ {
					if used&(1<<i) == 0 {
						permute(append(cur, i), used|1<<i)
					}
				}
			}
			permute(nil, 0)
			for _, set := range legalSets {
				for _, pm := range perms {
					for pos := 0; pos <= 4; pos++ {
						for _, bad := range bads {
							set, pm, pos, bad := set, pm, pos, bad
							var list []prm
							for i, k := range pm {
								if i == pos {
									list = append(list, bad)
								}
								list = append(list, set[k])
							}
							if pos == 4 {
								list = append(list, bad)
							}
							t.Do(func() string { return fmt.Sprintf("params %v", list) }, func() *explore.Fail {
								var parts []string
								for _, p := range list {
									if p.v == "" {
										parts = append(parts, p.n)
									} else {
										parts = append(parts, p.n+"="+p.v)
									}
								}
								hdr := "permessage-deflate; " + strings.Join(parts, "; ")
								parsed, ok := httphead.ParseOptions([]byte(hdr), nil)
								if !ok || len(parsed) != 1 {
									return explore.Failf("harness-header-parse", "%q", hdr)
								}
								var p P
								perr := p.Parse(parsed[0])
								e := &wsflate.Extension{}
								ans, nerr := e.Negotiate(parsed[0])
								if perr == nil || nerr == nil {
									return explore.Failf("malformed-offer-accepted", "%q: Parse err=%v, Negotiate err=%v answer %q", hdr, perr, nerr, optStr(ans))
								}
								return nil
							})
						}
					}
				}
			}
			t.Outcome("refused")
		})

		// every integer value of the two window parameters, far beyond the legal range (values
		// that wrap around a narrower integer type must not come back as legal ones), plus the
		// classic non-numbers
		r.Part("E3b-window-values", func(t *explore.T) {
			var vals []string
			for n := 0; n <= 70000; n++ {
				vals = append(vals, strconv.Itoa(n))
			}
			for _, base := range []uint64{1 << 31, 1 << 32, 1 << 62, 1 << 63} {
				for d := uint64(0); d < 16; d++ {
					vals = append(vals, strconv.FormatUint(base+d, 10))
				}
			}
			for d := 0; d < 16; d++ {
				vals = append(vals, "18446744073709551616"[:18]+fmt.Sprintf("%02d", 16+d), "1"+strings.Repeat("0", 30)+strconv.Itoa(d))
			}
			vals = append(vals, "+8", "-8", " 8", "8 ", "8.0", "0x8", "1e1", "", "٨", "８", "1_0", "８９")
			// the six characters that share the high nibble of the ASCII digits
			for _, c := range ":;<=>?" {
				vals = append(vals, string(c), "0"+string(c), "1"+string(c), string(c)+"0", string(c)+string(c))
			}
			for _, name := range []string{"server_max_window_bits", "client_max_window_bits"} {
				name := name
				t.Par(len(vals), func(i int) {
					v := vals[i]
					t.Do(func() string { return fmt.Sprintf("%s=%q", name, v) }, func() *explore.Fail {
						opt := httphead.Option{Name: []byte("permessage-deflate")}
						opt.Parameters.Set([]byte(name), []byte(v))
						n, aerr := strconv.Atoi(v)
						legal := aerr == nil && n >= 8 && n <= 15 && v == strconv.Itoa(n)
						var p P
						err := p.Parse(opt)
						e := &wsflate.Extension{}
						ans, nerr := e.Negotiate(opt)
						if legal {
							if err != nil || nerr != nil {
								return explore.Failf("legal-window-value-refused", "%v / %v", err, nerr)
							}
							got := p.ServerMaxWindowBits
							if name[0] == 'c' {
								got = p.ClientMaxWindowBits
							}
							if int(got) != n {
								return explore.Failf("window-value-misparsed", "parsed %d", got)
							}
							t.Outcome("legal")
							return nil
						}
						if v == "" && name[0] == 'c' {
							t.Outcome("empty-value-open")
							return nil
						}
						if err == nil || nerr == nil {
							return explore.Failf("ill-valued-window-parameter-accepted", "Parse err=%v parsed %+v; Negotiate err=%v answer %q", err, p, nerr, optStr(ans))
						}
						t.Outcome("refused")
						return nil
					})
				})
			}
		})

		r.Part("E4-encode-parse-inverse", func(t *explore.T) {
			for _, p := range offers {
				p := p
				t.Do(func() string { return "roundtrip " + ps(p) }, func() *explore.Fail {
					var q P
					if err := q.Parse(p.Option()); err != nil {
						return explore.Failf("Parse(Option)-error", "%v", err)
					}
					if q != p {
						return explore.Failf("Parse(Option)!=p", "got %s", ps(q))
					}
					// Parse(o).Option() equals o as a parameter multiset, for o built by hand in every order
					o := httphead.Option{Name: []byte("permessage-deflate")}
					// reversed parameter order relative to the encoder
					if p.ClientMaxWindowBits == 1 {
						o.Parameters.Set([]byte("client_max_window_bits"), nil)
					} else if p.ClientMaxWindowBits != 0 {
						o.Parameters.Set([]byte("client_max_window_bits"), []byte(strconv.Itoa(int(p.ClientMaxWindowBits))))
					}
					if p.ServerMaxWindowBits != 0 {
						o.Parameters.Set([]byte("server_max_window_bits"), []byte(strconv.Itoa(int(p.ServerMaxWindowBits))))
					}
					if p.ClientNoContextTakeover {
						o.Parameters.Set([]byte("client_no_context_takeover"), nil)
					}
					if p.ServerNoContextTakeover {
						o.Parameters.Set([]byte("server_no_context_takeover"), nil)
					}
					var q2 P
					if err := q2.Parse(o); err != nil {
						return explore.Failf("Parse-error", "%v", err)
					}
					if sortedParams(q2.Option()) != sortedParams(o) {
						return explore.Failf("Option(Parse(o))!=o", "%s vs %s", sortedParams(q2.Option()), sortedParams(o))
					}
					return nil
				})
			}
			// the exported default parameters are a variable the application may set: encoding
			// and negotiating with a value equal to the current default behaves like with any other
			// value (sequential: the variable is process-wide)
			t.DoN(int64(len(cfgs)), func() string { return "wsflate.DefaultParameters reassigned to each configuration in turn" }, func() *explore.Fail {
				saved := wsflate.DefaultParameters
				defer func() { wsflate.DefaultParameters = saved }()
				for _, p := range cfgs {
					wsflate.DefaultParameters = p
					o := wsflate.DefaultParameters.Option()
					var q P
					if err := q.Parse(o); err != nil || q != p {
						return explore.Failf("Option-of-reassigned-default-parameters", "default set to %s: Option() parses back to %s (err=%v)", ps(p), ps(q), err)
					}
					e := &wsflate.Extension{Parameters: wsflate.DefaultParameters}
					f := &wsflate.Extension{Parameters: p}
					for _, off := range []P{{}, {ServerMaxWindowBits: 12}, {ClientMaxWindowBits: 1}, {ServerNoContextTakeover: true, ClientMaxWindowBits: 10}} {
						a, aerr := e.Negotiate(offerOption(off))
						b, berr := f.Negotiate(offerOption(off))
						e.Reset()
						f.Reset()
						if (aerr == nil) != (berr == nil) || optStr(a) != optStr(b) {
							return explore.Failf("negotiation-with-reassigned-default-parameters", "default set to %s, offer %s: %q vs %q", ps(p), ps(off), optStr(a), optStr(b))
						}
						if a.Size() > 0 {
							if why := legal(off, a); why != "" {
								return explore.Failf("illegal-answer-with-reassigned-default-parameters:"+why, "%q", optStr(a))
							}
						}
					}
				}
				return nil
			})
			for b := 0; b < 256; b++ {
				b := wsflate.WindowBits(b)
				t.Do(func() string { return fmt.Sprintf("WindowBits(%d) helpers", b) }, func() *explore.Fail {
					if b.Defined() != (b > 0) {
						return explore.Failf("WindowBits.Defined", "%d", b)
					}
					if b <= 15 && b.Bytes() != 1<<uint(b) {
						return explore.Failf("WindowBits.Bytes", "%d -> %d", b, b.Bytes())
					}
					return nil
				})
			}
			if wsflate.MaxLZ77WindowSize != wsflate.WindowBits(15).Bytes() || string(wsflate.ExtensionNameBytes) != wsflate.ExtensionName || wsflate.ExtensionName != "permessage-deflate" {
				t.Do(func() string { return "package constants" }, func() *explore.Fail { return explore.Failf("package-constants", "") })
			}
			// Reset after an error history behaves as new
			t.Do(func() string { return "Reset after failed negotiation" }, func() *explore.Fail {
				e := &wsflate.Extension{Parameters: P{ServerNoContextTakeover: true}}
				bad := httphead.Option{Name: []byte("permessage-deflate")}
				bad.Parameters.Set([]byte("bogus"), nil)
				if _, err := e.Negotiate(bad); err == nil {
					return explore.Failf("bogus-accepted", "")
				}
				e.Reset()
				a, err := e.Negotiate((P{}).Option())
				f := &wsflate.Extension{Parameters: P{ServerNoContextTakeover: true}}
				b, err2 := f.Negotiate((P{}).Option())
				if (err == nil) != (err2 == nil) || optStr(a) != optStr(b) {
					return explore.Failf("after-Reset-differs", "")
				}
				return nil
			})
			t.Outcome("ok")
		})
	})
}
