package refmodel

import (
	"errors"
	"fmt"
)

// Inflate is an independent raw-DEFLATE (RFC 1951) decoder: stored, fixed and dynamic
// Huffman blocks. It stops at a block with BFINAL set, or when the input is exhausted
// exactly at a block boundary (a permessage-deflate message ends with a sync-flush marker,
// not with a final block). consumed reports how many input bytes were used.
func Inflate(in []byte) (out []byte, consumed int, err error) {
	s := &inflater{in: in}
	for {
		if s.atEnd() {
			return s.out, s.pos, nil
		}
		final, e := s.bits(1)
		if e != nil {
			return s.out, s.pos, e
		}
		typ, e := s.bits(2)
		if e != nil {
			return s.out, s.pos, e
		}
		switch typ {
		case 0:
			e = s.stored()
		case 1:
			e = s.codes(fixedLit, fixedDist)
		case 2:
			e = s.dynamic()
		default:
			e = errors.New("inflate: reserved block type")
		}
		if e != nil {
			return s.out, s.pos, e
		}
		if final == 1 {
			return s.out, s.pos, nil
		}
	}
}

var ErrInflateTruncated = errors.New("inflate: input truncated")

type inflater struct {
	in     []byte
	pos    int
	bitbuf uint32
	bitcnt uint
	out    []byte
}

// atEnd: no whole byte left and the buffered bits are zero padding.
func (s *inflater) atEnd() bool {
	return s.pos >= len(s.in) && (s.bitcnt == 0 || s.bitbuf == 0)
}

func (s *inflater) bits(n uint) (uint32, error) {
	for s.bitcnt < n {
		if s.pos >= len(s.in) {
			return 0, ErrInflateTruncated
		}
		s.bitbuf |= uint32(s.in[s.pos]) << s.bitcnt
		s.pos++
		s.bitcnt += 8
	}
	v := s.bitbuf & (1<<n - 1)
	s.bitbuf >>= n
	s.bitcnt -= n
	return v, nil
}

func (s *inflater) stored() error {
	s.bitbuf, s.bitcnt = 0, 0
	if s.pos+4 > len(s.in) {
		return ErrInflateTruncated
	}
	n := int(s.in[s.pos]) | int(s.in[s.pos+1])<<8
	nn := int(s.in[s.pos+2]) | int(s.in[s.pos+3])<<8
	if n != ^nn&0xffff {
		return errors.New("inflate: stored block length check failed")
	}
	s.pos += 4
	if s.pos+n > len(s.in) {
		return ErrInflateTruncated
	}
	s.out = append(s.out, s.in[s.pos:s.pos+n]...)
	s.pos += n
	return nil
}

type huff struct {
	count  [16]int
	symbol []int
}

func mkHuff(lengths []int) (*huff, error) {
	h := &huff{symbol: make([]int, len(lengths))}
	for _, l := range lengths {
		h.count[l]++
	}
	if h.count[0] == len(lengths) {
		return h, nil
	}
	left := 1
	for l := 1; l < 16; l++ {
		left <<= 1
		left -= h.count[l]
		if left < 0 {
			return nil, errors.New("inflate: over-subscribed code")
		}
	}
	var offs [16]int
	for l := 1; l < 15; l++ {
		offs[l+1] = offs[l] + h.count[l]
	}
	for sym, l := range lengths {
		if l != 0 {
			h.symbol[offs[l]] = sym
			offs[l]++
		}
	}
	return h, nil
}

func (s *inflater) decode(h *huff) (int, error) {
	code, first, index := 0, 0, 0
	for l := 1; l < 16; l++ {
		b, err := s.bits(1)
		if err != nil {
			return 0, err
		}
		code |= int(b)
		count := h.count[l]
		if code-count < first {
			return h.symbol[index+(code-first)], nil
		}
		index += count
		first += count
		first <<= 1
		code <<= 1
	}
	return 0, errors.New("inflate: invalid code")
}

var (
	lenBase  = []int{3, 4, 5, 6, 7, 8, 9, 10, 11, 13, 15, 17, 19, 23, 27, 31, 35, 43, 51, 59, 67, 83, 99, 115, 131, 163, 195, 227, 258}
	lenExtra = []uint{0, 0, 0, 0, 0, 0, 0, 0, 1, 1, 1, 1, 2, 2, 2, 2, 3, 3, 3, 3, 4, 4, 4, 4, 5, 5, 5, 5, 0}
	dstBase  = []int{1, 2, 3, 4, 5, 7, 9, 13, 17, 25, 33, 49, 65, 97, 129, 193, 257, 385, 513, 769, 1025, 1537, 2049, 3073, 4097, 6145, 8193, 12289, 16385, 24577}
	dstExtra = []uint{0, 0, 0, 0, 1, 1, 2, 2, 3, 3, 4, 4, 5, 5, 6, 6, 7, 7, 8, 8, 9, 9, 10, 10, 11, 11, 12, 12, 13, 13}

	fixedLit, fixedDist *huff
)

func init() {
	l := make([]int, 288)
	for i := range l {
		switch {
		case i < 144:
			l[i] = 8
		case i < 256:
			l[i] = 9
		case i < 280:
			l[i] = 7
		default:
			l[i] = 8
		}
	}
	fixedLit, _ = mkHuff(l)
	d := make([]int, 30)
	for i := range d {
		d[i] = 5
	}
	fixedDist, _ = mkHuff(d)
}

func (s *inflater) codes(lit, dist *huff) error {
	for {
		sym, err := s.decode(lit)
		if err != nil {
			return err
		}
		switch {
		case sym < 256:
			s.out = append(s.out, byte(sym))
		case sym == 256:
			return nil
		default:
			sym -= 257
			if sym >= 29 {
				return errors.New("inflate: bad length symbol")
			}
			eb, err := s.bits(lenExtra[sym])
			if err != nil {
				return err
			}
			length := lenBase[sym] + int(eb)
			ds, err := s.decode(dist)
			if err != nil {
				return err
			}
			if ds >= 30 {
				return errors.New("inflate: bad distance symbol")
			}
			eb, err = s.bits(dstExtra[ds])
			if err != nil {
				return err
			}
			d := dstBase[ds] + int(eb)
			if d > len(s.out) {
				return fmt.Errorf("inflate: distance %d too far back (have %d)", d, len(s.out))
			}
			for i := 0; i < length; i++ {
				s.out = append(s.out, s.out[len(s.out)-d])
			}
		}
	}
}

var clOrder = []int{16, 17, 18, 0, 8, 7, 9, 6, 10, 5, 11, 4, 12, 3, 13, 2, 14, 1, 15}

func (s *inflater) dynamic() error {
	nlen, err := s.bits(5)
	if err != nil {
		return err
	}
	ndist, err := s.bits(5)
	if err != nil {
		return err
	}
	ncode, err := s.bits(4)
	if err != nil {
		return err
	}
	hl, hd, hc := int(nlen)+257, int(ndist)+1, int(ncode)+4
	if hl > 286 || hd > 30 {
		return errors.New("inflate: bad counts")
	}
	lengths := make([]int, 19)
	for i := 0; i < hc; i++ {
		v, err := s.bits(3)
		if err != nil {
			return err
		}
		lengths[clOrder[i]] = int(v)
	}
	cl, err := mkHuff(lengths)
	if err != nil {
		return err
	}
	ll := make([]int, hl+hd)
	for i := 0; i < hl+hd; {
		sym, err := s.decode(cl)
		if err != nil {
			return err
		}
		if sym < 16 {
			ll[i] = sym
			i++
			continue
		}
		prev, rep := 0, 0
		switch sym {
		case 16:
			if i == 0 {
				return errors.New("inflate: repeat with no previous length")
			}
			prev = ll[i-1]
			v, err := s.bits(2)
			if err != nil {
				return err
			}
			rep = 3 + int(v)
		case 17:
			v, err := s.bits(3)
			if err != nil {
				return err
			}
			rep = 3 + int(v)
		default:
			v, err := s.bits(7)
			if err != nil {
				return err
			}
			rep = 11 + int(v)
		}
		if i+rep > hl+hd {
			return errors.New("inflate: too many lengths")
		}
		for ; rep > 0; rep-- {
			ll[i] = prev
			i++
		}
	}
	if ll[256] == 0 {
		return errors.New("inflate: no end-of-block code")
	}
	lit, err := mkHuff(ll[:hl])
	if err != nil {
		return err
	}
	dist, err := mkHuff(ll[hl:])
	if err != nil {
		return err
	}
	return s.codes(lit, dist)
}

// ---- a tiny independent encoder (stored and fixed-Huffman literal blocks) -------------

// BitWriter packs DEFLATE bit strings LSB first.
type BitWriter struct {
	Out  []byte
	acc  uint32
	nacc uint
}

func (w *BitWriter) Bits(v uint32, n uint) {
	w.acc |= v << w.nacc
	w.nacc += n
	for w.nacc >= 8 {
		w.Out = append(w.Out, byte(w.acc))
		w.acc >>= 8
		w.nacc -= 8
	}
}

// Huff writes a Huffman code (MSB first as RFC 1951 prescribes).
func (w *BitWriter) Huff(code uint32, n uint) {
	for i := int(n) - 1; i >= 0; i-- {
		w.Bits((code>>uint(i))&1, 1)
	}
}

func (w *BitWriter) Align() {
	if w.nacc > 0 {
		w.Out = append(w.Out, byte(w.acc))
		w.acc, w.nacc = 0, 0
	}
}

// Stored appends a stored block.
func (w *BitWriter) Stored(p []byte, final bool) {
	f := uint32(0)
	if final {
		f = 1
	}
	w.Bits(f, 1)
	w.Bits(0, 2)
	w.Align()
	n := len(p)
	w.Out = append(w.Out, byte(n), byte(n>>8), byte(^n), byte(^n>>8))
	w.Out = append(w.Out, p...)
}

// Fixed appends a fixed-Huffman block of literals only.
func (w *BitWriter) Fixed(p []byte, final bool) {
	f := uint32(0)
	if final {
		f = 1
	}
	w.Bits(f, 1)
	w.Bits(1, 2)
	for _, b := range p {
		if b < 144 {
			w.Huff(0x30+uint32(b), 8)
		} else {
			w.Huff(0x190+uint32(b)-144, 9)
		}
	}
	w.Huff(0, 7) // end of block
}

// SyncFlush appends the empty stored block and returns the output with the 4-byte tail
// (00 00 ff ff) removed, as RFC 7692 §7.2.1 prescribes.
func (w *BitWriter) SyncFlushStripped() []byte {
	w.Stored(nil, false)
	return w.Out[:len(w.Out)-4]
}
