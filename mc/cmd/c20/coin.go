package main

import (
	"context"
	"fmt"
	"net"
	"sync"
	"time"

	"github.com/gobwas/ws"

	"verifmc/explore"
	"verifmc/hs"
)

// freeConn is an ungated in-memory conn that records what is done to it.
type freeConn struct {
	mu       sync.Mutex
	req      []byte
	resp     []byte
	off      int
	deadline time.Time
	closed   bool
	calls    []string
}

func (f *freeConn) Read(p []byte) (int, error) {
	f.mu.Lock()
	defer f.mu.Unlock()
	f.calls = append(f.calls, "read")
	if f.closed {
		return 0, errClosed
	}
	if !f.deadline.IsZero() && f.deadline.Before(time.Now()) {
		return 0, timeoutErr{}
	}
	if f.resp == nil {
		f.resp = response(hs.KeyOf(f.req))
	}
	n := copy(p, f.resp[f.off:])
	f.off += n
	return n, nil
}
func (f *freeConn) Write(p []byte) (int, error) {
	f.mu.Lock()
	defer f.mu.Unlock()
	f.calls = append(f.calls, "write")
	if f.closed {
		return 0, errClosed
	}
	if !f.deadline.IsZero() && f.deadline.Before(time.Now()) {
		return 0, timeoutErr{}
	}
	f.req = append(f.req, p...)
	return len(p), nil
}
func (f *freeConn) Close() error {
	f.mu.Lock()
	defer f.mu.Unlock()
	f.calls = append(f.calls, "close")
	f.closed = true
	return nil
}
func (f *freeConn) SetDeadline(t time.Time) error {
	f.mu.Lock()
	defer f.mu.Unlock()
	f.calls = append(f.calls, "setdeadline")
	f.deadline = t
	return nil
}
func (f *freeConn) SetReadDeadline(t time.Time) error  { return f.SetDeadline(t) }
func (f *freeConn) SetWriteDeadline(t time.Time) error { return f.SetDeadline(t) }
func (f *freeConn) LocalAddr() net.Addr                { return &net.TCPAddr{} }
func (f *freeConn) RemoteAddr() net.Addr               { return &net.TCPAddr{} }

func coinRuns(t *explore.T, n int) *explore.Fail {
	for i := 0; i < n; i++ {
		ctx, cancel := context.WithCancel(context.Background())
		if i%2 == 0 {
			cancel()
		}
		fc := &freeConn{}
		d := ws.Dialer{NetDial: func(context.Context, string, string) (net.Conn, error) { return fc, nil }}
		if i%2 == 1 {
			go cancel()
		}
		_, _, _, err := d.Dial(ctx, "ws://example.com/")
		cancel()
		fc.mu.Lock()
		calls := len(fc.calls)
		closed, dl := fc.closed, fc.deadline
		fc.mu.Unlock()
		if err == nil {
			if closed || !dl.IsZero() {
				f := explore.Failf("coin:nil-error-but-conn-poisoned-or-closed", "run %d: closed=%v deadline=%v", i, closed, dl)
				f.Sampled = true
				return f
			}
			t.Outcome("coin:ok")
		} else {
			if !closed {
				f := explore.Failf("coin:error-but-conn-not-closed", "run %d: err=%v", i, err)
				f.Sampled = true
				return f
			}
			t.Outcome(fmt.Sprintf("coin:err=%v", err == context.Canceled))
		}
		time.Sleep(time.Millisecond)
		fc.mu.Lock()
		late := len(fc.calls) - calls
		fc.mu.Unlock()
		if late > 0 {
			f := explore.Failf("coin:conn-touched-after-return", "run %d: %d late calls", i, late)
			f.Sampled = true
			return f
		}
	}
	return nil
}
