// C04: the message reader reassembles every valid frame stream exactly under any chunking.
package main

import (
	"bytes"
	"fmt"
	"io"
	"reflect"

	"verifmc/drivers"
	"verifmc/env"
	"verifmc/explore"
	"verifmc/fp"
	"verifmc/refmodel"
	"verifmc/streams"
)

type stream struct {
	side   streams.Side
	frames []streams.Frame
}

func collect(depth int, ctls []streams.Ctl) []stream {
	var out []stream
	for _, side := range []streams.Side{streams.Server, streams.Client} {
		streams.Valid(streams.Opts{Depth: depth, Side: side, Controls: ctls}, func(fr []streams.Frame) {
			out = append(out, stream{side, append([]streams.Frame{}, fr...)})
		})
	}
	return out
}

func expected(d drivers.Driver, frames []streams.Frame) []drivers.Event {
	if d.Name == "NextReader" {
		return drivers.DropIntermediate(frames)
	}
	ev, _ := refmodel.Messages(frames)
	return d.Expect(ev)
}

// judge compares a finished run with the model.
func judge(d drivers.Driver, st stream, res *drivers.Result, src *env.Src) *explore.Fail {
	want := expected(d, st.frames)
	if !drivers.EqualEvents(res.Events, want) {
		return explore.Failf("events-mismatch:"+d.Name, "got  %s\nwant %s\nerr=%v", drivers.FmtEvents(res.Events), drivers.FmtEvents(want), res.Err)
	}
	if res.Err != io.EOF {
		return explore.Failf("end-not-EOF:"+d.Name, "valid stream ended with %v", res.Err)
	}
	if src.Off != len(src.Data) {
		return explore.Failf("bytes-unconsumed:"+d.Name, "consumed %d of %d", src.Off, len(src.Data))
	}
	if res.Replies != nil || d.Hidden && len(d.Name) > 8 && d.Name[:8] == "ReadData" {
		// one Pong per Ping, same payload, in order; nothing for Pong
		var pings [][]byte
		for _, f := range st.frames {
			if f.H.Op == 9 {
				pings = append(pings, f.Payload)
			}
		}
		rf, rest := drivers.ParseFrames(res.Replies)
		if len(rest) != 0 {
			return explore.Failf("replies-not-whole-frames:"+d.Name, "%x", res.Replies)
		}
		if len(rf) != len(pings) {
			return explore.Failf("reply-count:"+d.Name, "got %d replies for %d pings", len(rf), len(pings))
		}
		for i, f := range rf {
			if f.H.Op != 10 || !bytes.Equal(f.Payload, pings[i]) || !f.H.Fin {
				return explore.Failf("reply-content:"+d.Name, "reply %d: %v %x", i, f.H, f.Payload)
			}
		}
	}
	return nil
}

var srcType = reflect.TypeOf(&env.Src{})

func main() {
	explore.Main("C04", func(r *explore.Run) {
		ds := drivers.All()
		D := r.Pick(4, 5)
		r.Part("E1-streams-x-drivers-x-uniform-chunks", func(t *explore.T) {
			all := collect(D, nil)
			// -1: the stream's last bytes arrive together with io.EOF; -2: every second Read
			// returns (0, nil) first, chunks of 2
			chunks := []int{0, 1, 2, 3, 5, -1, -2}
			t.Par(len(all), func(i int) {
				st := all[i]
				data, _ := streams.Wire(st.frames)
				for _, d := range ds {
					for _, ch := range chunks {
						d, ch := d, ch
						t.Do(func() string {
							return fmt.Sprintf("%s %s driver=%s chunk=%d", st.side, streams.Describe(st.frames), d.Name, ch)
						}, func() *explore.Fail {
							src := env.NewSrc(data)
							switch {
							case ch > 0:
								src.Policy = env.FixedChunk(ch)
							case ch == -1:
								src.WithLast = true
							case ch == -2:
								src.ZeroEvery = 2
								src.Policy = env.FixedChunk(2)
							}
							var res drivers.Result
							d.Run(src, st.side, drivers.Cfg{}, &res)
							return judge(d, st, &res, src)
						})
					}
				}
			})
			t.Outcome("delivered-as-model")
			t.Note(fmt.Sprintf("all valid streams of depth<=%d over {Text,Bin}x fin x 3 payloads, Cont x fin x 3 payloads, 3 control frames; both sides; 12 drivers; chunk sizes inf,1,2,3,5", D))
		})

		// All transport chunkings with state keys (drivers whose Reader is visible).
		Dc := r.Pick(2, 3)
		smallCtl := []streams.Ctl{{Op: 9, Payload: []byte("pi")}, {Op: 10, Payload: nil}}
		r.Part("E2-all-chunkings-state-keyed", func(t *explore.T) {
			all := collect(Dc, smallCtl)
			t.Par(len(all), func(i int) {
				st := all[i]
				data, _ := streams.Wire(st.frames)
				for _, d := range ds {
					if d.Hidden {
						continue
					}
					d := d
					desc := fmt.Sprintf("%s %s driver=%s", st.side, streams.Describe(st.frames), d.Name)
					t.Explore(desc, explore.ExploreOpts{Bound: -1, UseKeys: true}, func(c *explore.Chooser) *explore.Fail {
						src := env.NewSrc(data)
						var res drivers.Result
						pol := env.ChooserPolicy(c)
						src.Policy = func(max, off int) int {
							k := fp.Of([]fp.Opt{{Type: srcType, Fn: func(v reflect.Value) string { return "src" }}},
								off, max, res.Reader, res.Events, res.Partial, res.ContHdrs)
							c.Key(fmt.Sprintf("%x", k))
							return pol(max, off)
						}
						d.Run(src, st.side, drivers.Cfg{}, &res)
						return judge(d, st, &res, src)
					})
				}
			})
			t.Outcome("delivered-as-model")
			t.Note(fmt.Sprintf("every split of the transport bytes into reads for all streams of depth<=%d; state key = (offset, request size, fingerprint of every field of the live wsutil.Reader incl. cipher/utf8/limited readers, events delivered, partial payload)", Dc))
		})

		// Hidden-reader drivers: deviation-bounded (each short read is one deviation).
		B := r.Pick(2, 3)
		r.Part("E3-short-reads-bounded", func(t *explore.T) {
			all := collect(Dc, smallCtl)
			t.Bound(B)
			t.Par(len(all), func(i int) {
				st := all[i]
				data, _ := streams.Wire(st.frames)
				for _, d := range ds {
					if !d.Hidden {
						continue
					}
					d := d
					desc := fmt.Sprintf("%s %s driver=%s", st.side, streams.Describe(st.frames), d.Name)
					t.Explore(desc, explore.ExploreOpts{Bound: B}, func(c *explore.Chooser) *explore.Fail {
						src := env.NewSrc(data)
						src.Policy = env.ChooserPolicy(c)
						var res drivers.Result
						d.Run(src, st.side, drivers.Cfg{}, &res)
						return judge(d, st, &res, src)
					})
				}
			})
			t.Outcome("delivered-as-model")
			t.Note(fmt.Sprintf("drivers that build their Reader internally (NextReader, ReadMessage, ReadData family): every placement of up to %d short reads (any size) in streams of depth<=%d", B, Dc))
		})
	})
}
