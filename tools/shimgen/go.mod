module shimgen

go 1.23
