// C20: Dial honours cancellation at any moment without poisoning or leaking the conn.
// The real Dialer.Dial runs on an overlay build of dialer.go (imports context/time rewritten
// to shims: virtual clock, virtual deadline contexts) against a gate conn whose every call
// parks until the explorer releases it; the explorer interleaves gate releases with the
// environment events (cancel, time passing) in every order.
package main

import (
	"bufio"
	"context"
	"errors"
	"fmt"
	"net"
	"os"
	"runtime"
	"strings"
	"sync"
	"time"

	"github.com/gobwas/httphead"
	"github.com/gobwas/ws"
	"github.com/gobwas/ws/wsutil"

	"verifmc/explore"
	"verifmc/hs"
	"verifshim/vsync"
)

type cfg struct {
	ctxKind      string // background, cancellable, deadline
	timeout      string // none, short, long   (relative to the ctx deadline of 10s: 5s / 20s)
	peer         string // responsive1, responsive3, silent0, silent1, error400, eof
	scheme       string // ws, wss
	preCancelled bool   // context already cancelled when Dial is called
	// via: "" = ws.Dialer.Dial; "debug" = through wsutil.DebugDialer with both callbacks set
	via string
	// partialWrites: a write cut by a deadline has transferred half of its bytes
	partialWrites bool
	// builtinTLS: wss through the library's own TLS client (crypto/tls over the gate conn; the
	// peer never answers the ClientHello) instead of a pass-through TLSClient hook
	builtinTLS bool
	// wrapConn: Dialer.WrapConn set to a wrapper that hands the conn back unchanged
	wrapConn bool
	// sessionWrap: Dialer.WrapConn set to a layer that keeps deadlines to itself (a session or
	// multiplexing layer that implements them on its own and never forwards them to the
	// transport): whatever Dial does to the transport directly it has to undo itself
	sessionWrap bool
	// noDeadlines: the transport refuses SetDeadline (returns an error, arms nothing)
	noDeadlines bool
	// longRequest: extension offers, subprotocols and an extra header through a 64-byte write
	// buffer, so that the request goes out in several writes (some from inside the option and
	// header writers)
	longRequest bool
	// gateErr: the watcher's call of ctx.Err() is a scheduling point (E4)
	gateErr bool
}

func (c cfg) String() string {
	s := fmt.Sprintf("ctx=%s timeout=%s peer=%s scheme=%s precancelled=%v", c.ctxKind, c.timeout, c.peer, c.scheme, c.preCancelled)
	if c.via != "" {
		s += " via=" + c.via
	}
	if c.partialWrites {
		s += " partial-writes"
	}
	if c.builtinTLS {
		s += " builtin-tls"
	}
	if c.wrapConn {
		s += " wrapconn"
	}
	if c.longRequest {
		s += " long-request-small-write-buffer"
	}
	if c.sessionWrap {
		s += " wrapconn-keeping-deadlines-to-itself"
	}
	if c.noDeadlines {
		s += " transport-refusing-deadlines"
	}
	if c.gateErr {
		s += " ctx.Err()-is-a-scheduling-point + a second dial on the recycled pools"
	}
	return s
}

const ctxDeadlineAfter = 10 * time.Second

func (c cfg) timeoutDur() time.Duration {
	switch c.timeout {
	case "short":
		return 5 * time.Second
	case "long":
		return 20 * time.Second
	}
	return 0
}

type dialOutcome struct {
	conn net.Conn
	br   *bufio.Reader
	hs   ws.Handshake
	err  error
}

// runDial is the goroutine that calls the library (its name is looked for in stack dumps).
func runDial(d ws.Dialer, via string, ctx context.Context, url string, out *dialOutcome, done chan struct{}) {
	if via == "debug" {
		dd := wsutil.DebugDialer{Dialer: d, OnRequest: func([]byte) {}, OnResponse: func([]byte) {}}
		out.conn, out.br, out.hs, out.err = dd.Dial(ctx, url)
	} else {
		out.conn, out.br, out.hs, out.err = d.Dial(ctx, url)
	}
	close(done)
}

// sessionConn is a WrapConn layer that implements deadlines on its own: it never forwards them.
type sessionConn struct {
	net.Conn
	mu sync.Mutex
	dl time.Time
}

func (s *sessionConn) SetDeadline(t time.Time) error {
	s.mu.Lock()
	s.dl = t
	s.mu.Unlock()
	return nil
}
func (s *sessionConn) SetReadDeadline(t time.Time) error  { return s.SetDeadline(t) }
func (s *sessionConn) SetWriteDeadline(t time.Time) error { return s.SetDeadline(t) }

func response(key string) []byte {
	return []byte("HTTP/1.1 101 Switching Protocols\r\nUpgrade: websocket\r\nConnection: Upgrade\r\nSec-WebSocket-Accept: " + hs.Accept(key) + "\r\n\r\n")
}

// execute runs one execution: every nondeterministic decision comes from c.
func execute(c *explore.Chooser, cf cfg, t *explore.T) *explore.Fail {
	w := &world{now: t0, gateErr: cf.gateErr}
	w.install()
	defer uninstall()
	var ctx context.Context = context.Background()
	var hc *hctx
	switch cf.ctxKind {
	case "cancellable":
		hc = &hctx{w: w, name: "user", done: make(chan struct{})}
	case "deadline":
		hc = &hctx{w: w, name: "user", done: make(chan struct{}), hasDeadline: true, deadline: t0.Add(ctxDeadlineAfter)}
	}
	if hc != nil {
		w.ctxs = append(w.ctxs, hc)
		ctx = hc
		if cf.preCancelled {
			w.mu.Lock()
			hc.cancel(context.Canceled)
			w.mu.Unlock()
		}
	}
	d := ws.Dialer{Timeout: cf.timeoutDur()}
	var dialCtx context.Context
	d.NetDial = func(dctx context.Context, network, addr string) (net.Conn, error) {
		dialCtx = dctx
		a := w.park(&call{kind: "dial"})
		if a.err != nil {
			if e := dctx.Err(); e != nil {
				return nil, e
			}
			return nil, a.err
		}
		return a.conn, nil
	}
	if !cf.builtinTLS {
		d.TLSClient = func(conn net.Conn, hostname string) net.Conn { return conn }
	}
	if cf.wrapConn {
		d.WrapConn = func(c net.Conn) net.Conn { return c }
	}
	if cf.sessionWrap {
		d.WrapConn = func(c net.Conn) net.Conn { return &sessionConn{Conn: c} }
	}
	if cf.longRequest {
		d.WriteBufferSize = 64
		d.Protocols = []string{"chat.v1.example", "chat.v2.example"}
		d.Extensions = []httphead.Option{
			httphead.NewOption("permessage-deflate", map[string]string{"client_max_window_bits": "", "server_max_window_bits": "10"}),
			httphead.NewOption("permessage-deflate", map[string]string{"client_max_window_bits": ""}),
			httphead.NewOption("x-verif-extension", map[string]string{"mode": "long-enough-to-cross-a-buffer"}),
		}
		d.Header = ws.HandshakeHeaderString("X-Verif-Extra: " + strings.Repeat("e", 70) + "\r\n")
	}
	var out dialOutcome
	done := make(chan struct{})
	w.partialWrites = cf.partialWrites
	w.refuseDeadlines = cf.noDeadlines
	go runDial(d, cf.via, ctx, cf.scheme+"://example.com/chat", &out, done)
	cleanup := func() {
		w.abort()
		<-done
		// let the watcher (if any) finish
		for i := 0; i < 1000; i++ {
			if len(snapshot()) == 0 {
				break
			}
			runtime.Gosched()
		}
	}
	finished := false
	defer func() {
		if !finished {
			cleanup()
		}
	}()

	var trace []string
	var mainAnswers []string
	peerReady := false
	returned := false
	var watcherAtReturn int
	var ctxEndedBeforeIOFinished bool
	ioFinished := false
	for step := 0; step < 200; step++ {
		gs := waitQuiescent()
		if !returned {
			select {
			case <-done:
				returned = true
				w.mu.Lock()
				w.dialDone = true
				w.mu.Unlock()
				for _, g := range gs {
					if g.watcher {
						watcherAtReturn++
					}
				}
			default:
			}
		}
		w.mu.Lock()
		// peer script becomes known once the request has been written (the key is in it)
		if !peerReady && strings.Contains(string(w.written), "\r\n\r\n") {
			w.peer = mkPeer(cf.peer, hs.KeyOf(w.written))
			peerReady = true
		}
		if !peerReady {
			w.peer = peerScript{silentAt: 0}
		}
		// enabled actions
		type action struct {
			label string
			do    func() string
		}
		var acts []action
		for _, pc := range w.parked {
			pc := pc
			ok, opts := w.releasable(pc)
			if !ok {
				continue
			}
			if pc.kind == "dial" && dialCtx != nil {
				if hcx, isH := dialCtx.(*hctx); isH && hcx.err != nil {
					opts = append(opts, "ctxerr")
				}
			}
			for _, o := range opts {
				o := o
				acts = append(acts, action{fmt.Sprintf("release:%s/%s:%s", pc.actor, pc.kind, o), func() string { return w.release(pc, o) }})
			}
		}
		// liveness: once the context has ended or the dial timeout has elapsed, a Dial that is
		// quiescent with no conn call that could complete is stuck for good on a conn that
		// honours deadlines; further environment events do not count as its progress
		if !returned && len(acts) == 0 {
			ctxEnded := hc != nil && hc.err != nil
			timedOut := cf.timeoutDur() != 0 && !w.now.Before(t0.Add(cf.timeoutDur()))
			if ctxEnded || timedOut {
				tr := strings.Join(trace, " ")
				log := append([]string{}, w.log...)
				w.mu.Unlock()
				return explore.Failf("Dial-does-not-return:"+cf.ctxKind+":timeout="+cf.timeout, "context ended=%v, dial timeout elapsed=%v, yet Dial is blocked with no conn call that can complete\ntrace: %s\nconn calls: %v", ctxEnded, timedOut, tr, log)
			}
		}
		if hc != nil && hc.err == nil && !returnedAndDrained(returned, w) {
			acts = append(acts, action{"cancel", func() string { hc.cancel(context.Canceled); return "cancel" }})
		}
		if ts, ok := w.nextStage(nil); ok {
			acts = append(acts, action{"advance", func() string { w.advance(ts); return "advance" }})
		}
		ctxErr := ""
		if hc != nil && hc.err != nil {
			ctxErr = hc.err.Error()
		}
		if len(acts) == 0 {
			w.mu.Unlock()
			if os.Getenv("C20_DEBUG") != "" && !returned {
				buf := make([]byte, 1<<16)
				n := runtime.Stack(buf, true)
				fmt.Printf("DEBUG no actions, not returned; gs=%+v\n%s\n", gs, buf[:n])
			}
			break
		}
		// state key
		var parkedKinds []string
		for _, pc := range w.parked {
			parkedKinds = append(parkedKinds, pc.kind+":"+w.classOf(pc.t))
		}
		key := fmt.Sprintf("ret=%v ctx=%s now=%d rd=%s closed=%v parked=%v log=%v wlog=%v ans=%v served=%d", returned, ctxErr, w.now.Sub(t0), w.classOf(w.rDeadline), w.closed, parkedKinds, w.log, w.wlog, mainAnswers, w.readsServed)
		w.mu.Unlock()
		c.Key(key)
		v := 0
		if len(acts) > 1 {
			v = c.Choose(len(acts), 0, "act")
		}
		w.mu.Lock()
		if hc != nil && hc.err != nil && !ioFinished && !returned {
			ctxEndedBeforeIOFinished = true
		}
		lbl := acts[v].do()
		if strings.HasPrefix(lbl, "read:") || strings.HasPrefix(lbl, "write:") || strings.HasPrefix(lbl, "dial:") {
			mainAnswers = append(mainAnswers, lbl)
		}
		if peerReady && w.readsServed >= len(w.peer.chunks) && w.peer.silentAt < 0 && strings.HasPrefix(lbl, "read:data") {
			ioFinished = true
		}
		if lbl == "read:own-timeout" && !(hc != nil && hc.err != nil) {
			// the transport's own timeout ended the handshake I/O while the context was still alive
			ioFinished = true
		}
		if strings.HasPrefix(lbl, "cancel") || strings.HasPrefix(lbl, "advance") {
			if hc != nil && hc.err != nil && !ioFinished && !returned {
				ctxEndedBeforeIOFinished = true
			}
		}
		trace = append(trace, lbl)
		w.mu.Unlock()
	}
	gs := waitQuiescent()
	select {
	case <-done:
		if !returned {
			returned = true
			for _, g := range gs {
				if g.watcher {
					watcherAtReturn++
				}
			}
		}
	default:
	}
	w.mu.Lock()
	defer w.mu.Unlock()
	tr := strings.Join(trace, " ")
	cls := cf.ctxKind + ":timeout=" + cf.timeout
	if !returned {
		// quiescent, nothing can be released, nothing left to happen
		ctxEnded := hc != nil && hc.err != nil
		timedOut := cf.timeoutDur() != 0 && !w.now.Before(t0.Add(cf.timeoutDur()))
		if ctxEnded || timedOut {
			return explore.Failf("Dial-does-not-return:"+cls, "context ended=%v, dial timeout elapsed=%v, yet Dial is still blocked; parked=%d\ntrace: %s\nconn calls: %v", ctxEnded, timedOut, len(w.parked), tr, w.log)
		}
		t.Outcome("blocks-on-silent-peer(no deadline configured)")
		return nil
	}
	finished = true
	// "The received non-nil bufio.Reader should be returned to the inner pool with the PutReader()
	// function after use": the caller does so whenever it got one, whatever the error says
	if out.br != nil {
		ws.PutReader(out.br)
	}
	// ---- safety at return
	if out.err == nil {
		if w.closed {
			return explore.Failf("nil-error-but-conn-closed:"+cls, "trace: %s", tr)
		}
		if !w.rDeadline.IsZero() || !w.wDeadline.IsZero() {
			return explore.Failf("nil-error-but-deadline-left-set:"+cls+":"+w.classOf(w.rDeadline), "conn returned with deadline %s\ntrace: %s\nconn calls: %v", w.classOf(w.rDeadline), tr, w.log)
		}
		if out.conn == nil {
			return explore.Failf("nil-error-nil-conn:"+cls, "")
		}
	} else {
		if w.connMade && !w.closed {
			return explore.Failf("error-but-conn-not-closed:"+cls, "err=%v\ntrace: %s\nconn calls: %v", out.err, tr, w.log)
		}
		// If the context ended before the handshake I/O finished and the handshake was stopped
		// by that (the I/O failed with the deadline the library poisoned the conn with), the
		// error must be the context's error. A handshake that failed for a reason of its own
		// (error response, EOF, malformed answer) keeps that error: the statement's clause is
		// read as being about failures caused by the context ending (DESIGN C20/O).
		// the caller's context has ended and an I/O call of the handshake was cut short by a
		// deadline (the one the library put on the conn in reaction): the failure is the
		// context's, whatever byte count or wrapping the layers in between make of it. (With a
		// background context and only a dial timeout, the transport's own timeout error is what
		// Dial reports; the statement does not name that error.)
		if w.deadlineCuts > 0 && hc != nil && hc.err != nil && !(out.err == context.Canceled || out.err == context.DeadlineExceeded || (hc != nil && out.err == hc.err)) {
			return explore.Failf("io-cut-by-deadline-but-error-is-not-the-contexts:"+cls, "err=%v (%T); %d conn call(s) ended by the deadline\ntrace: %s\nconn calls: %v", out.err, out.err, w.deadlineCuts, tr, w.log)
		}
		if out.err == errCause || errors.Is(out.err, errCause) {
			return explore.Failf("cause-returned-instead-of-context-error:"+cls, "err=%v ctx.Err()=%v\ntrace: %s", out.err, hc.err, tr)
		}
		if hc != nil && hc.err != nil && ctxEndedBeforeIOFinished && w.connMade && out.err != hc.err {
			// (context.DeadlineExceeded itself satisfies net.Error.Timeout: it is what Dial reports
			// when the dial timeout elapsed first, and is not an untranslated i/o timeout)
			if ne, ok := out.err.(net.Error); ok && ne.Timeout() && out.err != context.DeadlineExceeded {
				return explore.Failf("timeout-not-translated-to-context-error:"+cls, "err=%v ctx.Err()=%v\ntrace: %s", out.err, hc.err, tr)
			}
		}
	}
	if len(w.lateCalls) > 0 {
		return explore.Failf("conn-touched-after-Dial-returned:"+cls, "%v\ntrace: %s", w.lateCalls, tr)
	}
	if watcherAtReturn > 0 {
		return explore.Failf("watcher-goroutine-alive-after-return:"+cls, "trace: %s", tr)
	}
	for _, g := range gs {
		if g.watcher {
			return explore.Failf("watcher-goroutine-leaked:"+cls, "trace: %s", tr)
		}
	}
	if out.err == nil {
		t.Outcome("ok")
	} else {
		t.Outcome("err:" + errClass(out.err, hc))
	}
	return nil
}

// probeDial is the second dial of an E4 execution: one more Dial on the pools the first one left
// behind (recycling mode), against a peer that never answers, with a context that is cancelled
// once the dial is blocked; every gate is released as soon as it can be (one fixed schedule).
// Whatever the first dial went through, this one has to end with the context's error and a
// closed conn.
func probeDial() *explore.Fail {
	w := &world{now: t0}
	w.install()
	defer uninstall()
	hc := &hctx{w: w, name: "user", done: make(chan struct{})}
	w.ctxs = append(w.ctxs, hc)
	w.peer = peerScript{silentAt: 0}
	d := ws.Dialer{}
	d.NetDial = func(dctx context.Context, network, addr string) (net.Conn, error) {
		a := w.park(&call{kind: "dial"})
		if a.err != nil {
			return nil, a.err
		}
		return a.conn, nil
	}
	var out dialOutcome
	done := make(chan struct{})
	go runDial(d, "", hc, "ws://example.com/chat", &out, done)
	cancelled, returned := false, false
	var trace []string
	for step := 0; step < 200 && !returned; step++ {
		waitQuiescent()
		select {
		case <-done:
			returned = true
			continue
		default:
		}
		w.mu.Lock()
		released := false
		for _, pc := range w.parked {
			if ok, opts := w.releasable(pc); ok {
				trace = append(trace, w.release(pc, opts[0]))
				released = true
				break
			}
		}
		if !released {
			if cancelled {
				w.mu.Unlock()
				break
			}
			hc.cancel(context.Canceled)
			cancelled = true
			trace = append(trace, "cancel")
		}
		w.mu.Unlock()
	}
	if !returned {
		w.abort()
		<-done
		for i := 0; i < 1000 && len(snapshot()) != 0; i++ {
			runtime.Gosched()
		}
		return explore.Failf("second-dial-on-recycled-pools-does-not-return-after-cancel", "cancelled=%v, yet the second Dial is blocked with no conn call that can complete\ntrace of the second dial: %s\nconn calls: %v", cancelled, strings.Join(trace, " "), w.log)
	}
	gs := waitQuiescent()
	if out.br != nil {
		ws.PutReader(out.br)
	}
	w.mu.Lock()
	defer w.mu.Unlock()
	tr := strings.Join(trace, " ")
	if out.err == nil {
		return explore.Failf("second-dial-on-recycled-pools-succeeds-against-a-silent-peer", "trace: %s", tr)
	}
	if out.err != context.Canceled {
		return explore.Failf("second-dial-on-recycled-pools-error-is-not-the-contexts", "err=%v\ntrace: %s", out.err, tr)
	}
	if w.connMade && !w.closed {
		return explore.Failf("second-dial-on-recycled-pools-error-but-conn-not-closed", "trace: %s", tr)
	}
	for _, g := range gs {
		if g.watcher {
			return explore.Failf("second-dial-on-recycled-pools-watcher-goroutine-leaked", "trace: %s", tr)
		}
	}
	return nil
}

func returnedAndDrained(returned bool, w *world) bool { return false }

func errClass(err error, hc *hctx) string {
	switch {
	case err == context.Canceled:
		return "Canceled"
	case err == context.DeadlineExceeded:
		return "DeadlineExceeded"
	}
	if _, ok := err.(ws.StatusError); ok {
		return "StatusError"
	}
	if ne, ok := err.(net.Error); ok && ne.Timeout() {
		return "timeout"
	}
	return "other"
}

func mkPeer(kind, key string) peerScript {
	resp := response(key)
	switch kind {
	case "responsive1":
		return peerScript{name: kind, chunks: [][]byte{resp}, silentAt: -1}
	case "responsive1+frames":
		// the server's first frame travels in the same segment as its response: Dial hands a reader back
		return peerScript{name: kind, chunks: [][]byte{append(append([]byte{}, resp...), 0x81, 0x02, 'h', 'i')}, silentAt: -1}
	case "responsive3":
		a, b := len(resp)/3, 2*len(resp)/3
		return peerScript{name: kind, chunks: [][]byte{resp[:a], resp[a:b], resp[b:]}, silentAt: -1}
	case "silent0":
		return peerScript{name: kind, silentAt: 0}
	case "silent1":
		return peerScript{name: kind, chunks: [][]byte{resp[:len(resp)/2]}, silentAt: 1}
	case "error400":
		return peerScript{name: kind, chunks: [][]byte{[]byte("HTTP/1.1 400 Bad Request\r\nContent-Length: 0\r\n\r\n")}, silentAt: -1}
	case "eof":
		return peerScript{name: kind, silentAt: -1}
	case "refusal-cut-then-silent":
		// a refusing status line that breaks off before its line end; nothing more ever comes
		return peerScript{name: kind, chunks: [][]byte{[]byte("HTTP/1.1 503 Service Unavailable")}, silentAt: 1}
	case "accept-cut-then-silent":
		// the same with a 101 line and half of the headers
		return peerScript{name: kind, chunks: [][]byte{[]byte("HTTP/1.1 101 Switching Protocols\r\nUpgrade: websocket\r\nConnec")}, silentAt: 1}
	}
	panic("bad peer")
}

func main() {
	// the quiescence detector reads scheduler states of all goroutines: keep the process small
	runtime.GOMAXPROCS(2)
	explore.Main("C20", func(r *explore.Run) {
		var cfgs []cfg
		peers := []string{"responsive1", "responsive1+frames", "silent0", "responsive3", "silent1", "error400", "eof", "refusal-cut-then-silent", "accept-cut-then-silent"}
		for _, ck := range []string{"background", "cancellable", "deadline"} {
			for _, to := range []string{"none", "short", "long"} {
				for _, p := range peers {
					for _, sch := range []string{"ws", "wss"} {
						if sch == "wss" && !(p == "responsive1" || p == "silent0") {
							continue
						}
						cfgs = append(cfgs, cfg{ctxKind: ck, timeout: to, peer: p, scheme: sch})
						if sch == "wss" && p == "silent0" && to != "long" {
							// the TLS phase itself, against a peer that never answers
							cfgs = append(cfgs, cfg{ctxKind: ck, timeout: to, peer: p, scheme: sch, builtinTLS: true},
								cfg{ctxKind: ck, timeout: to, peer: p, scheme: sch, builtinTLS: true, wrapConn: true},
								cfg{ctxKind: ck, timeout: to, peer: p, scheme: sch, builtinTLS: true, via: "debug"})
						}
						if sch == "ws" && (p == "responsive1" || p == "silent0" || p == "silent1") && to != "long" {
							cfgs = append(cfgs, cfg{ctxKind: ck, timeout: to, peer: p, scheme: sch, via: "debug"},
								cfg{ctxKind: ck, timeout: to, peer: p, scheme: sch, partialWrites: true},
								cfg{ctxKind: ck, timeout: to, peer: p, scheme: sch, via: "debug", partialWrites: true})
						}
						if sch == "ws" && (p == "responsive1" || p == "silent0") && to != "long" {
							cfgs = append(cfgs, cfg{ctxKind: ck, timeout: to, peer: p, scheme: sch, longRequest: true},
								cfg{ctxKind: ck, timeout: to, peer: p, scheme: sch, longRequest: true, partialWrites: true})
						}
						if sch == "ws" && p == "responsive1" && to != "long" {
							cfgs = append(cfgs, cfg{ctxKind: ck, timeout: to, peer: p, scheme: sch, sessionWrap: true},
								cfg{ctxKind: ck, timeout: to, peer: p, scheme: sch, noDeadlines: true})
						}
						if ck != "background" && sch == "ws" && (p == "responsive1" || p == "silent0") {
							cfgs = append(cfgs, cfg{ctxKind: ck, timeout: to, peer: p, scheme: sch, preCancelled: true})
						}
					}
				}
			}
		}
		r.Part("E1-all-interleavings-of-gates-and-events", func(t *explore.T) {
			for _, cf := range cfgs {
				if !t.Thorough() && (cf.peer == "responsive3" || cf.peer == "error400" || cf.peer == "eof") && cf.timeout == "long" {
					continue
				}
				cf := cf
				t.Explore(cf.String(), explore.ExploreOpts{Bound: -1, UseKeys: true, MaxExec: 200000}, func(c *explore.Chooser) *explore.Fail {
					return execute(c, cf, t)
				})
			}
			t.Note("real Dialer.Dial (overlay build: virtual time.Now, virtual context.WithDeadline); NetDial and every Read/Write/SetDeadline/Close of the conn are gates; environment events: cancel, virtual time passing the dial timeout / the context deadline; all orders explored with state pruning; quiescence by runtime.Stack scheduler states")
		})
		r.Part("E4-two-dials-on-recycled-pools-with-ctx.Err()-as-a-scheduling-point", func(t *explore.T) {
			for _, ck := range []string{"cancellable", "deadline"} {
				for _, to := range []string{"none", "short"} {
					for _, p := range []string{"responsive1", "silent0", "silent1"} {
						if !t.Thorough() && (to == "short" && p == "silent1") {
							continue
						}
						cf := cfg{ctxKind: ck, timeout: to, peer: p, scheme: "ws", gateErr: true}
						t.Explore(cf.String(), explore.ExploreOpts{Bound: -1, UseKeys: true, MaxExec: 200000}, func(c *explore.Chooser) *explore.Fail {
							vsync.SetMode(vsync.LIFO)
							vsync.ResetAll()
							defer vsync.SetMode(vsync.FreshPoison)
							if f := execute(c, cf, t); f != nil {
								return f
							}
							return probeDial()
						})
					}
				}
			}
			t.Note("as E1, plus: the watcher goroutine's call of ctx.Err() is a gate of its own (the caller of Dial may run while the watcher is inside the method), the pools recycle (LIFO), and after every explored schedule of the first dial a second Dial runs on what the first one put back: silent peer, cancel once it is blocked, one fixed schedule - it must end with context.Canceled and a closed conn")
		})
		r.Part("E2-both-ready-select-coin(supplementary,sampling)", func(t *explore.T) {
			t.Do(func() string { return "context cancelled before Dial, ungated conn, 200 runs" }, func() *explore.Fail {
				return coinRuns(t, 200)
			})
			t.Note("the runtime's choice between ready select cases cannot be forced; both branches are covered one at a time by E1; here the unforced race is sampled and every outcome must satisfy the same safety oracle")
		})
		r.Part("E3-stock-dialer-on-loopback(supplementary,real-time)", func(t *explore.T) {
			// Dialer.NetDial left nil, as in the documented default: the library's own net.Dialer
			// connects to a real loopback listener that accepts and then says nothing. Dialer.Timeout
			// (200 ms) must end the dial although the caller's context (20 s) is still alive. The only
			// timing judgement is "before the caller's context ended", a factor of 100 away.
			for _, ctxKind := range []string{"background", "deadline-20s", "cancellable"} {
				ctxKind := ctxKind
				t.Do(func() string {
					return fmt.Sprintf("stock net.Dialer, silent loopback peer, Dialer.Timeout=200ms, caller context %s", ctxKind)
				}, func() *explore.Fail {
					ln, err := net.Listen("tcp", "127.0.0.1:0")
					if err != nil {
						t.Outcome("no-loopback(not judged)")
						return nil
					}
					defer ln.Close()
					var held []net.Conn
					var hmu sync.Mutex
					go func() {
						for {
							c, err := ln.Accept()
							if err != nil {
								return
							}
							hmu.Lock()
							held = append(held, c)
							hmu.Unlock()
						}
					}()
					defer func() {
						hmu.Lock()
						for _, c := range held {
							c.Close()
						}
						hmu.Unlock()
					}()
					ctx := context.Background()
					var cancel context.CancelFunc = func() {}
					switch ctxKind {
					case "deadline-20s":
						ctx, cancel = context.WithTimeout(ctx, 20*time.Second)
					case "cancellable":
						ctx, cancel = context.WithCancel(ctx)
						tm := time.AfterFunc(20*time.Second, cancel)
						defer tm.Stop()
					}
					defer cancel()
					d := ws.Dialer{Timeout: 200 * time.Millisecond}
					start := time.Now()
					conn, _, _, derr := d.Dial(ctx, "ws://"+ln.Addr().String()+"/chat")
					took := time.Since(start)
					if derr == nil {
						conn.Close()
						return explore.Failf("dial-to-a-silent-peer-succeeds", "")
					}
					if ctx.Err() != nil || took > 15*time.Second {
						return explore.Failf("Dialer.Timeout-does-not-bound-the-handshake-with-the-stock-dialer", "Dial returned %v after %v: only when the caller's context ended, not after Dialer.Timeout", derr, took)
					}
					t.Outcome("ended-by-Dialer.Timeout")
					return nil
				})
			}
			t.Note("real TCP on 127.0.0.1 and real time; supplements E1, whose transport is always a harness NetDial")
		})
	})
	_ = os.Getenv
}
