// Package vctx stands in for package context in the overlay build of dialer.go (C20):
// aliases of the standard package, except that WithDeadline/WithTimeout can be routed to
// the harness (virtual timers, no helper goroutines).
package vctx

import (
	"context"
	"time"
)

type (
	Context    = context.Context
	CancelFunc = context.CancelFunc
)

var (
	Canceled         = context.Canceled
	DeadlineExceeded = context.DeadlineExceeded
)

// Virtual, when set, creates deadline contexts.
var Virtual func(parent Context, d time.Time) (Context, CancelFunc)

func Background() Context { return context.Background() }
func TODO() Context       { return context.TODO() }

func WithCancel(parent Context) (Context, CancelFunc) { return context.WithCancel(parent) }

func WithDeadline(parent Context, d time.Time) (Context, CancelFunc) {
	if v := Virtual; v != nil {
		return v(parent, d)
	}
	return context.WithDeadline(parent, d)
}

func WithTimeout(parent Context, t time.Duration) (Context, CancelFunc) {
	if v := Virtual; v != nil {
		return v(parent, nowFn().Add(t))
	}
	return context.WithTimeout(parent, t)
}

func WithValue(parent Context, key, val interface{}) Context {
	return context.WithValue(parent, key, val)
}

// nowFn is set by the harness together with Virtual.
var nowFn = time.Now

func SetNow(f func() time.Time) { nowFn = f }
