// Package fp computes a canonical fingerprint of live Go values (including unexported
// fields) for use in state keys: two executions with equal fingerprints of every object the
// future can depend on have equal futures. Pointers are followed (cycle-safe), interface
// values are followed through their dynamic type, funcs contribute only nil/non-nil.
package fp

import (
	"fmt"
	"hash/fnv"
	"reflect"
	"unsafe"
)

type walker struct {
	h    interface{ Write([]byte) (int, error) }
	seen map[uintptr]int
	skip map[reflect.Type]func(reflect.Value) string
}

// Opt customises the walk: values of the given type are replaced by fn's rendering
// (e.g. a source whose position is already in the key).
type Opt struct {
	Type reflect.Type
	Fn   func(reflect.Value) string
}

// Of returns a 64-bit fingerprint of the values.
func Of(opts []Opt, vals ...interface{}) uint64 {
	h := fnv.New64a()
	w := &walker{h: h, seen: map[uintptr]int{}, skip: map[reflect.Type]func(reflect.Value) string{}}
	for _, o := range opts {
		w.skip[o.Type] = o.Fn
	}
	for _, v := range vals {
		w.walk(reflect.ValueOf(v), 0)
		w.str("|")
	}
	return h.Sum64()
}

func (w *walker) str(s string) { w.h.Write([]byte(s)) }

func (w *walker) walk(v reflect.Value, depth int) {
	if depth > 40 {
		w.str("<deep>")
		return
	}
	if !v.IsValid() {
		w.str("<nil>")
		return
	}
	if fn, ok := w.skip[v.Type()]; ok {
		w.str("{" + fn(v) + "}")
		return
	}
	switch v.Kind() {
	case reflect.Bool:
		if v.Bool() {
			w.str("T")
		} else {
			w.str("F")
		}
	case reflect.Int, reflect.Int8, reflect.Int16, reflect.Int32, reflect.Int64:
		w.str(fmt.Sprintf("i%d;", v.Int()))
	case reflect.Uint, reflect.Uint8, reflect.Uint16, reflect.Uint32, reflect.Uint64, reflect.Uintptr:
		w.str(fmt.Sprintf("u%d;", v.Uint()))
	case reflect.String:
		w.str(fmt.Sprintf("s%d:%s;", v.Len(), v.String()))
	case reflect.Ptr:
		if v.IsNil() {
			w.str("p0;")
			return
		}
		p := v.Pointer()
		if id, ok := w.seen[p]; ok {
			w.str(fmt.Sprintf("p#%d;", id))
			return
		}
		w.seen[p] = len(w.seen) + 1
		w.str("p(")
		w.walk(v.Elem(), depth+1)
		w.str(")")
	case reflect.Interface:
		if v.IsNil() {
			w.str("n0;")
			return
		}
		e := v.Elem()
		w.str("I" + e.Type().String() + "(")
		w.walk(e, depth+1)
		w.str(")")
	case reflect.Struct:
		w.str("{")
		for i := 0; i < v.NumField(); i++ {
			f := v.Field(i)
			if !f.CanInterface() {
				if f.CanAddr() {
					f = reflect.NewAt(f.Type(), unsafe.Pointer(f.UnsafeAddr())).Elem()
				} else {
					// copy into addressable storage
					c := reflect.New(v.Type()).Elem()
					c.Set(v)
					f = c.Field(i)
					f = reflect.NewAt(f.Type(), unsafe.Pointer(f.UnsafeAddr())).Elem()
				}
			}
			w.walk(f, depth+1)
			w.str(",")
		}
		w.str("}")
	case reflect.Slice:
		if v.IsNil() {
			w.str("[nil]")
			return
		}
		if v.Type().Elem().Kind() == reflect.Uint8 {
			w.str(fmt.Sprintf("b%d:", v.Len()))
			w.h.Write(v.Bytes())
			w.str(";")
			return
		}
		w.str(fmt.Sprintf("[%d:", v.Len()))
		for i := 0; i < v.Len(); i++ {
			w.walk(v.Index(i), depth+1)
			w.str(",")
		}
		w.str("]")
	case reflect.Array:
		w.str("[")
		for i := 0; i < v.Len(); i++ {
			w.walk(v.Index(i), depth+1)
			w.str(",")
		}
		w.str("]")
	case reflect.Func:
		if v.IsNil() {
			w.str("f0;")
		} else {
			w.str("f1;")
		}
	case reflect.Map:
		w.str(fmt.Sprintf("m%d;", v.Len()))
	case reflect.Chan:
		w.str("c;")
	case reflect.Float32, reflect.Float64:
		w.str(fmt.Sprintf("f%v;", v.Float()))
	default:
		w.str("?" + v.Kind().String())
	}
}

// Field reads a (possibly unexported) field of the struct pointed to by ptr.
func Field(ptr interface{}, name string) reflect.Value {
	v := reflect.ValueOf(ptr).Elem()
	f := v.FieldByName(name)
	if !f.IsValid() {
		panic("fp.Field: no field " + name + " in " + v.Type().String())
	}
	return reflect.NewAt(f.Type(), unsafe.Pointer(f.UnsafeAddr())).Elem()
}
