package vsync

import "sync"

// The rest of package sync, unchanged: vcheck's overlay rewrites the "sync" import of any
// gobwas/ws source file to this package so that pools declared in gobwas/ws itself go
// through the same seam as those of gobwas/pool.
type (
	Mutex     = sync.Mutex
	RWMutex   = sync.RWMutex
	Once      = sync.Once
	WaitGroup = sync.WaitGroup
	Cond      = sync.Cond
	Map       = sync.Map
	Locker    = sync.Locker
)

func NewCond(l Locker) *Cond { return sync.NewCond(l) }

func OnceFunc(f func()) func() { return sync.OnceFunc(f) }

func OnceValue[T any](f func() T) func() T { return sync.OnceValue(f) }

func OnceValues[T1, T2 any](f func() (T1, T2)) func() (T1, T2) { return sync.OnceValues(f) }
