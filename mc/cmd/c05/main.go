// C05: the message reader rejects a protocol violation at the first offending frame.
package main

import (
	"bufio"
	"bytes"
	"fmt"
	"io"
	"strings"

	"github.com/gobwas/ws"
	"github.com/gobwas/ws/wsutil"

	"verifmc/drivers"
	"verifmc/env"
	"verifmc/explore"
	"verifmc/refmodel"
	"verifmc/streams"
)

var errRule = map[error]string{
	ws.ErrProtocolOpCodeReserved:         refmodel.RuleReservedOp,
	ws.ErrProtocolControlPayloadOverflow: refmodel.RuleControlTooLong,
	ws.ErrProtocolControlNotFinal:        refmodel.RuleControlNotFinal,
	ws.ErrProtocolNonZeroRsv:             refmodel.RuleRsv,
	ws.ErrProtocolMaskRequired:           refmodel.RuleMaskRequired,
	ws.ErrProtocolMaskUnexpected:         refmodel.RuleMaskUnexpected,
	ws.ErrProtocolContinuationExpected:   refmodel.RuleContinuationExp,
	ws.ErrProtocolContinuationUnexpected: refmodel.RuleContinuationUnex,
}

type prefix struct {
	side   streams.Side
	frames []streams.Frame
	open   bool
}

func prefixes(depth int) []prefix {
	var out []prefix
	for _, side := range []streams.Side{streams.Server, streams.Client} {
		out = append(out, prefix{side, nil, false})
		if depth == 0 {
			continue
		}
		streams.Valid(streams.Opts{Depth: depth, Side: side, AllowOpen: true}, func(fr []streams.Frame) {
			_, open := refmodel.Messages(fr)
			out = append(out, prefix{side, append([]streams.Frame{}, fr...), open})
		})
	}
	return out
}

var marker = bytes.Repeat([]byte{0xEE}, 65536)

const canaryText = "CANARYCANARY"

func canary(side streams.Side) []byte {
	f := refmodel.Frame{H: refmodel.Hdr{Fin: true, Op: 2, Masked: side == streams.Server, Mask: [4]byte{9, 8, 7, 6}}, Payload: []byte(canaryText)}
	return f.Wire()
}

func hasTaint(p []byte) bool {
	return bytes.Contains(p, []byte{0xEE, 0xEE}) || bytes.Contains(p, []byte("CANARY")) || (len(p) == 1 && p[0] == 0xEE)
}

// mustHave: events completed before the open message (if any) started.
func split(frames []streams.Frame) (must, upper []drivers.Event) {
	upper, open := refmodel.Messages(frames)
	if !open {
		return upper, upper
	}
	// find the first frame of the open message
	last := -1
	for i, f := range frames {
		if !refmodel.IsControl(f.H.Op) && f.H.Op != 0 {
			last = i
		}
	}
	must, _ = refmodel.Messages(frames[:last])
	return must, upper
}

func main() {
	explore.Main("C05", func(r *explore.Run) {
		D := r.Pick(3, 4)
		ds := []drivers.Driver{drivers.ReaderLoop(7), drivers.ReadMessageLoop(), drivers.ReadDataLoop("Generic"), drivers.ReaderReceiveLoop()}
		// entry points that skip (parts of) a message: they meet the offender while discarding
		// the open message, a path of its own inside the reader
		skippers := []drivers.Driver{drivers.ReaderDiscard(0), drivers.ReaderDiscard(1), drivers.ReadDataLoop("Text"), drivers.ReadDataLoop("Binary")}
		r.Part("E1-invalid-frame-after-valid-prefix", func(t *explore.T) {
			pre := prefixes(D - 1)
			lens := []uint64{0, 1, 125, 126, 65536}
			t.Par(len(pre), func(pi int) {
				p := pre[pi]
				pdata, _ := streams.Wire(p.frames)
				must, upper := split(p.frames)
				for _, ext := range []bool{false, true} {
					st := refmodel.St{Server: p.side == streams.Server, Client: p.side == streams.Client, Extended: ext, Fragmented: p.open}
					for fin := 0; fin < 2; fin++ {
						for _, rsv := range []byte{0, 1, 2, 4, 7} {
							for op := byte(0); op < 16; op++ {
								for m := 0; m < 2; m++ {
									for _, ln := range lens {
										h := refmodel.Hdr{Fin: fin == 1, Rsv: rsv, Op: op, Masked: m == 1, Mask: [4]byte{0xa, 0xb, 0xc, 0xd}, Len: ln}
										broken := refmodel.CheckRules(h, st)
										if len(broken) == 0 {
											continue
										}
										data := append(append(append(append([]byte{}, pdata...), refmodel.HdrEncode(h)...), marker[:ln]...), canary(p.side)...)
										hdrEnd := len(pdata) + len(refmodel.HdrEncode(h))
										dsHere := ds
										if p.open {
											dsHere = append(append([]drivers.Driver{}, ds...), skippers...)
										}
										for di, d := range dsHere {
											if ext && d.Hidden {
												continue // ReadMessage/ReadData take a plain side state; extended is set through Reader only
											}
											for _, ch := range []int{0, 1} {
												// end: the stream goes on behind the offender (payload, canary message); or it
												// ends right behind the offender's header, the end reported by a Read of its
												// own or together with the header's last byte - the header is complete either
												// way, so asking for frame k still has to yield the protocol error
												for _, end := range []string{"continues", "ends-after-header", "ends-with-header"} {
													if di >= len(ds) && (ch != 0 || end != "continues") {
														continue
													}
													d, ch, ext, end := d, ch, ext, end
													t.Do(func() string {
														return fmt.Sprintf("%s ext=%v prefix=[%s] offender={%v} driver=%s chunk=%d stream %s", p.side, ext, streams.Describe(p.frames), h, d.Name, ch, end)
													}, func() *explore.Fail {
														src := env.NewSrc(data)
														if end != "continues" {
															src.Cut = hdrEnd
															src.WithLast = end == "ends-with-header"
														}
														src.Policy = env.FixedChunk(ch)
														var res drivers.Result
														d.Run(src, p.side, drivers.Cfg{Extended: ext}, &res)
														return judge(t, d, &res, src, must, upper, broken, hdrEnd)
													})
													if rsv != 0 && !ext && !d.Hidden && end == "continues" {
														// it is the endpoint *state* that says whether an extension was negotiated: a
														// reader that was handed receive extensions (here one that lets every header
														// pass as it is) but whose state does not say "extended" still owes the refusal
														t.Do(func() string {
															return fmt.Sprintf("%s ext=false but Reader.Extensions set, prefix=[%s] offender={%v} driver=%s chunk=%d", p.side, streams.Describe(p.frames), h, d.Name, ch)
														}, func() *explore.Fail {
															src := env.NewSrc(data)
															src.Policy = env.FixedChunk(ch)
															var res drivers.Result
															pass := wsutil.RecvExtensionFunc(func(hd ws.Header) (ws.Header, error) { return hd, nil })
															d.Run(src, p.side, drivers.Cfg{Extensions: []wsutil.RecvExtension{pass}}, &res)
															return judge(t, d, &res, src, must, upper, broken, hdrEnd)
														})
													}
												}
											}
										}
									}
								}
							}
						}
					}
				}
			})
			t.Note(fmt.Sprintf("every valid prefix (open or closed) of depth<=%d x every header of Fin x Rsv{0,1,2,4,7} x OpCode x Masked x Len{0,1,125,126,65536} that the rule list rejects in the state the prefix leaves; offender payload = marker bytes, then a canary message", D-1))
		})

		// The fragmentation state must survive an error that leaves the byte stream in sync: a
		// handler error on an interleaved control frame, or a transient transport error exactly
		// at a frame boundary, while the caller is discarding the message and then carries on.
		r.Part("E3-state-after-recoverable-error", func(t *explore.T) {
			for _, side := range []streams.Side{streams.Server, streams.Client} {
				for _, firstOp := range []byte{1, 2} {
					for _, cause := range []string{"handler-error-on-empty-ping", "transient-error-at-frame-boundary"} {
						for _, offOp := range []byte{1, 2} {
							for _, offFin := range []bool{true, false} {
								for _, consume := range []string{"Discard", "Read"} {
									// between the recoverable error and the offender the peer may send further
									// control frames; they do not end the open message either
									for _, extra := range []string{"", "ping", "pong", "ping+pong"} {
										side, firstOp, cause, offOp, offFin, consume, extra := side, firstOp, cause, offOp, offFin, consume, extra
										t.Do(func() string {
											return fmt.Sprintf("%s first=op%x- cause=%s then [%s] then offender=op%x fin=%v consume=%s", side, firstOp, cause, extra, offOp, offFin, consume)
										}, func() *explore.Fail {
											mk := func(o byte, fin bool, p []byte) []byte {
												return refmodel.Frame{H: refmodel.Hdr{Fin: fin, Op: o, Masked: side == streams.Server, Mask: [4]byte{4, 3, 2, 1}}, Payload: p}.Wire()
											}
											first := mk(firstOp, false, []byte("a"))
											var mid []byte
											if cause == "handler-error-on-empty-ping" {
												mid = mk(9, true, nil)
											}
											for _, x := range strings.Split(extra, "+") {
												switch x {
												case "ping":
													mid = append(mid, mk(9, true, nil)...)
												case "pong":
													mid = append(mid, mk(10, true, []byte("po"))...)
												}
											}
											data := append(append(append(append([]byte{}, first...), mid...), mk(offOp, offFin, marker[:8])...), canary(side)...)
											src := &hiccupSrc{data: data, at: -1}
											if cause == "transient-error-at-frame-boundary" {
												src.at = len(first)
											}
											rd := &wsutil.Reader{Source: src, State: drivers.State(side)}
											errHandler := fmt.Errorf("handler says no")
											fired := false
											rd.OnIntermediate = func(h ws.Header, r io.Reader) error {
												if !fired && cause == "handler-error-on-empty-ping" {
													fired = true
													return errHandler
												}
												return nil
											}
											if _, err := rd.NextFrame(); err != nil {
												return explore.Failf("harness-first-frame", "%v", err)
											}
											var got []byte
											var lastErr error
											sawRecoverable := false
											for i := 0; i < 8; i++ {
												var err error
												if consume == "Discard" {
													err = rd.Discard()
												} else {
													var p []byte
													p, err = io.ReadAll(rd)
													got = append(got, p...)
												}
												lastErr = err
												if err == errHandler || err == errTransient {
													sawRecoverable = true
													continue // the caller carries on
												}
												if err != nil {
													break
												}
												// the message was reported complete: start the next one
												h, err := rd.NextFrame()
												if err != nil {
													lastErr = err
													break
												}
												p, err := io.ReadAll(rd)
												got = append(got, p...)
												_ = h
												lastErr = err
												if err != nil {
													break
												}
											}
											if !sawRecoverable {
												return explore.Failf("harness-no-recoverable-error", "last err %v", lastErr)
											}
											if hasTaint(got) {
												return explore.Failf("offender-delivered-after-recoverable-error:"+cause, "data %q, last err %v", got, lastErr)
											}
											if pe, ok := lastErr.(ws.ProtocolError); !ok || pe != ws.ErrProtocolContinuationExpected {
												return explore.Failf("offender-not-rejected-after-recoverable-error:"+cause, "err=%v", lastErr)
											}
											t.Outcome("rejected")
											return nil
										})
									}
								}
							}
						}
					}
				}
			}
		})

		// The caller's continuation handler fails on a continuation frame (the final one, or an
		// earlier one); the caller puts up with it, discards what is left of the message and reads
		// on. The fragmentation state is the stream's, not the handler's: after a final
		// continuation a new data frame is accepted and a stray continuation refused; after a
		// non-final one it is the other way round.
		r.Part("E3b-continuation-handler-error-does-not-change-the-state", func(t *explore.T) {
			errHandler := fmt.Errorf("continuation handler says no")
			for _, side := range []streams.Side{streams.Server, streams.Client} {
				for _, failOnFinal := range []bool{true, false} {
					for _, nextOp := range []byte{0, 1, 2} {
						for _, consume := range []string{"Discard", "Read"} {
							side, failOnFinal, nextOp, consume := side, failOnFinal, nextOp, consume
							t.Do(func() string {
								return fmt.Sprintf("%s Text-(a) Cont(b, fin=%v) with the continuation handler failing there; caller %ss on; next frame op%x", side, failOnFinal, consume, nextOp)
							}, func() *explore.Fail {
								mk := func(o byte, fin bool, p []byte) []byte {
									return refmodel.Frame{H: refmodel.Hdr{Fin: fin, Op: o, Masked: side == streams.Server, Mask: [4]byte{4, 3, 2, 1}}, Payload: p}.Wire()
								}
								// (Discard gives up its position inside the frame when the handler fails, so the
								// stream stays in sync only if that frame has no payload; Read keeps it)
								contPayload := []byte("b")
								if consume == "Discard" {
									contPayload = nil
								}
								data := append(mk(1, false, []byte("a")), mk(0, failOnFinal, contPayload)...)
								data = append(data, mk(nextOp, true, marker[:8])...)
								data = append(data, canary(side)...)
								rd := &wsutil.Reader{Source: env.NewSrc(data), State: drivers.State(side)}
								fired := false
								rd.OnContinuation = func(h ws.Header, r io.Reader) error {
									if !fired {
										fired = true
										return errHandler
									}
									return nil
								}
								if _, err := rd.NextFrame(); err != nil {
									return explore.Failf("harness-first-frame", "%v", err)
								}
								var lastErr error
								var got []byte
								for i := 0; i < 6; i++ {
									var err error
									if consume == "Discard" {
										err = rd.Discard()
									} else {
										var p []byte
										p, err = io.ReadAll(rd)
										if i > 0 {
											got = append(got, p...)
										}
									}
									lastErr = err
									if err == errHandler {
										continue
									}
									break
								}
								if !fired {
									return explore.Failf("harness-handler-not-called", "")
								}
								// the first message is over (failOnFinal) or still open (!failOnFinal); now the next frame
								wantOK := (failOnFinal && nextOp != 0) || (!failOnFinal && nextOp == 0)
								if lastErr == nil {
									h, err := rd.NextFrame()
									lastErr = err
									if err == nil {
										p, e := io.ReadAll(rd)
										got = append(got, p...)
										lastErr = e
										_ = h
									}
								}
								if wantOK {
									if lastErr != nil {
										return explore.Failf("valid-frame-refused-after-continuation-handler-error", "next frame op%x after fin=%v: %v", nextOp, failOnFinal, lastErr)
									}
									t.Outcome("accepted")
									return nil
								}
								if hasTaint(got) {
									return explore.Failf("offender-delivered-after-continuation-handler-error", "data %q err=%v", got, lastErr)
								}
								if _, ok := lastErr.(ws.ProtocolError); !ok {
									return explore.Failf("offender-not-rejected-after-continuation-handler-error", "next frame op%x after fin=%v: err=%v", nextOp, failOnFinal, lastErr)
								}
								t.Outcome("rejected")
								return nil
							})
						}
					}
				}
			}
		})

		r.Part("E2b-size-limit-control-frames", func(t *explore.T) {
			for _, side := range []streams.Side{streams.Server, streams.Client} {
				for _, inMsg := range []bool{false, true} {
					for _, op := range []byte{8, 9, 10} {
						for _, limit := range []int64{1, 2, 8, 124} {
							for _, ann := range []int64{0, limit - 1, limit, limit + 1, 125} {
								for _, drv := range []string{"Reader", "Reader+handler"} {
									side, inMsg, op, limit, ann, drv := side, inMsg, op, limit, ann, drv
									t.Do(func() string {
										return fmt.Sprintf("%s control op=%x inMessage=%v MaxFrameSize=%d announced=%d driver=%s", side, op, inMsg, limit, ann, drv)
									}, func() *explore.Fail {
										mk := func(o byte, fin bool, p []byte) []byte {
											return refmodel.Frame{H: refmodel.Hdr{Fin: fin, Op: o, Masked: side == streams.Server, Mask: [4]byte{4, 3, 2, 1}}, Payload: p}.Wire()
										}
										var pre []byte
										if inMsg {
											pre = mk(2, false, []byte("a"))
										}
										payload := bytes.Repeat([]byte{0xEE}, int(ann))
										if op == 8 && ann >= 2 {
											payload[0], payload[1] = 0x03, 0xe8
										}
										ctl := mk(op, true, payload)
										hdrEnd := len(pre) + len(ctl) - len(payload)
										data := append(append(append([]byte{}, pre...), ctl...), mk(0, true, []byte("b"))...)
										if !inMsg {
											data = append(append([]byte{}, ctl...), mk(2, true, []byte("ab"))...)
										}
										src := env.NewSrc(data)
										dst := env.NewDst()
										// the size limit does not depend on the (independent) option that turns the
										// RFC header check off: both settings are used, alternating with the case
										rd := &wsutil.Reader{Source: src, State: drivers.State(side), MaxFrameSize: limit, SkipHeaderCheck: ann%2 != 0}
										handed := -1
										rd.OnIntermediate = func(h ws.Header, r io.Reader) error {
											p, err := io.ReadAll(r)
											handed = len(p)
											if drv == "Reader+handler" {
												return wsutil.ControlFrameHandler(dst, drivers.State(side))(h, bytes.NewReader(p))
											}
											return err
										}
										var err error
										var got []byte
										for i := 0; i < 10 && err == nil; i++ {
											var h ws.Header
											h, err = rd.NextFrame()
											if err != nil {
												break
											}
											var p []byte
											p, err = io.ReadAll(rd)
											if h.OpCode.IsControl() {
												handed = len(p)
											} else {
												got = append(got, p...)
											}
										}
										if ann > limit {
											if err != wsutil.ErrFrameTooLarge {
												return explore.Failf("oversize-control-frame-not-refused", "announced %d > limit %d: err=%v, handler got %d bytes, data %q", ann, limit, err, handed, got)
											}
											if src.Off > hdrEnd {
												return explore.Failf("payload-read-before-refusal", "consumed %d, header ends at %d", src.Off, hdrEnd)
											}
											if handed >= 0 || len(dst.Bytes()) != 0 {
												return explore.Failf("oversize-control-payload-delivered", "")
											}
											if inMsg && len(got) > 1 || !inMsg && len(got) > 0 {
												return explore.Failf("data-after-oversize-frame-delivered", "%q", got)
											}
											t.Outcome("refused")
										} else {
											if err == wsutil.ErrFrameTooLarge && limit >= 2 {
												return explore.Failf("within-limit-refused", "announced %d <= limit %d", ann, limit)
											}
											t.Outcome("admitted")
										}
										return nil
									})
								}
							}
						}
					}
				}
			}
		})

		// The offender arrives after a long open message: k non-final fragments (k around the
		// widths a counter might have), then a frame that may not come inside a message - a new text
		// frame with payload. Whatever k, the message so far is delivered, then the protocol error;
		// the offender's payload and the message behind it never are.
		r.Part("E1c-offender-after-a-long-open-message", func(t *explore.T) {
			ks := []int{254, 255, 256, 257, 65535, 65536, 65537}
			drv := []drivers.Driver{drivers.ReaderLoop(512), drivers.ReadMessageLoop(), drivers.ReadDataLoop("Generic"), drivers.ReaderReceiveLoop(), drivers.ReaderDiscard(0)}
			t.Par(len(ks)*2, func(i int) {
				k := ks[i/2]
				side := streams.Server
				if i%2 == 1 {
					side = streams.Client
				}
				masked := side == streams.Server
				var data []byte
				data = append(data, refmodel.Frame{H: refmodel.Hdr{Op: 2, Masked: masked, Mask: [4]byte{1, 2, 3, 4}}, Payload: []byte("a")}.Wire()...)
				for j := 0; j < k; j++ {
					var pl []byte
					if j%97 == 0 {
						pl = []byte("b")
					}
					data = append(data, refmodel.Frame{H: refmodel.Hdr{Op: 0, Masked: masked, Mask: [4]byte{1, 2, 3, byte(j)}}, Payload: pl}.Wire()...)
				}
				hdrEnd := len(data)
				data = append(data, refmodel.Frame{H: refmodel.Hdr{Fin: true, Op: 1, Masked: masked, Mask: [4]byte{4, 3, 2, 1}}, Payload: marker[:16]}.Wire()...)
				data = append(data, canary(side)...)
				for _, d := range drv {
					d := d
					if k > 5000 && strings.HasPrefix(d.Name, "Reader/") && d.Name != "Reader/discard-after-0" {
						continue // these drivers bound their Read calls; the helpers and Discard take the long ones
					}
					t.Do(func() string {
						return fmt.Sprintf("%s Bin-(a) then %d non-final continuations, then a new Text frame; driver=%s", side, k, d.Name)
					}, func() *explore.Fail {
						src := env.NewSrc(data)
						var res drivers.Result
						d.Run(src, side, drivers.Cfg{}, &res)
						if _, ok := res.Err.(ws.ProtocolError); !ok {
							return explore.Failf("offender-after-long-message-not-refused:"+d.Name, "err=%v", res.Err)
						}
						for _, e := range res.Events {
							if hasTaint(e.Payload) {
								return explore.Failf("offender-after-long-message-delivered:"+d.Name, "event %s", drivers.FmtEvents([]drivers.Event{e}))
							}
						}
						if hasTaint(res.Partial) {
							return explore.Failf("offender-after-long-message-delivered:"+d.Name, "partial %x", res.Partial)
						}
						if src.Off > hdrEnd+len(refmodel.HdrEncode(refmodel.Hdr{Fin: true, Op: 1, Masked: masked, Len: 16})) {
							return explore.Failf("read-past-the-offending-header:"+d.Name, "consumed %d, offender header ends at %d", src.Off, hdrEnd+6)
						}
						return nil
					})
				}
			})
			t.Outcome("rejected")
		})

		// A caller that reads on after a refusal (it logs the error and asks Read once more, as a
		// loop written around Read does): whatever was handled before - nothing, a message read to
		// its end, a control frame whose (possibly empty) payload a handler took without
		// going through Read to the end - not one byte of the refused frame comes out as data.
		// (Histories in which the caller abandons a non-empty payload and calls NextFrame are not
		// part of this: the reader is then out of step by the caller's doing.)
		r.Part("E2c-reading-on-after-a-refusal", func(t *explore.T) {
			type hist struct {
				name   string
				frames [][2]interface{} // op, payload
				reads  []int            // bytes the caller reads of each frame (-1: to the end, -2: none at all)
			}
			hists := []hist{
				{"nothing", nil, nil},
				{"Text(hello) read to its end", [][2]interface{}{{byte(1), "hello"}}, []int{-1}},
				{"empty Ping handed to a handler", [][2]interface{}{{byte(9), ""}}, []int{-2}},
				{"Text(hello) read, then an empty Ping handed to a handler", [][2]interface{}{{byte(1), "hello"}, {byte(9), ""}}, []int{-1, -2}},
				{"Ping(pi) taken with exactly 2 bytes", [][2]interface{}{{byte(9), "pi"}}, []int{2}},
				{"empty Pong, empty Text read to its end", [][2]interface{}{{byte(10), ""}, {byte(1), ""}}, []int{-2, -1}},
			}
			type off struct {
				name string
				h    func(server bool) refmodel.Hdr
				max  int64
			}
			offs := []off{
				{"binary frame of 64 bytes over MaxFrameSize 16", func(sv bool) refmodel.Hdr {
					return refmodel.Hdr{Fin: true, Op: 2, Masked: sv, Mask: [4]byte{7, 7, 7, 7}, Len: 64}
				}, 16},
				{"text frame of 17 bytes over MaxFrameSize 16", func(sv bool) refmodel.Hdr {
					return refmodel.Hdr{Fin: true, Op: 1, Masked: sv, Mask: [4]byte{}, Len: 17}
				}, 16},
				{"reserved opcode 3 with 64 bytes", func(sv bool) refmodel.Hdr {
					return refmodel.Hdr{Fin: true, Op: 3, Masked: sv, Mask: [4]byte{7, 7, 7, 7}, Len: 64}
				}, 0},
				{"RSV1 without extension, 64 bytes", func(sv bool) refmodel.Hdr {
					return refmodel.Hdr{Fin: true, Rsv: 4, Op: 2, Masked: sv, Mask: [4]byte{7, 7, 7, 7}, Len: 64}
				}, 0},
				{"wrong masking for the side, 64 bytes", func(sv bool) refmodel.Hdr {
					return refmodel.Hdr{Fin: true, Op: 2, Masked: !sv, Mask: [4]byte{7, 7, 7, 7}, Len: 64}
				}, 16},
				{"stray continuation of 64 bytes", func(sv bool) refmodel.Hdr {
					return refmodel.Hdr{Fin: true, Op: 0, Masked: sv, Mask: [4]byte{7, 7, 7, 7}, Len: 64}
				}, 0},
			}
			for _, server := range []bool{true, false} {
				for _, hi := range hists {
					for _, o := range offs {
						for _, ch := range []int{0, 1} {
							server, hi, o, ch := server, hi, o, ch
							t.Do(func() string {
								return fmt.Sprintf("server=%v after [%s] the stream carries a %s; the caller asks Read again after the refusal; chunk=%d", server, hi.name, o.name, ch)
							}, func() *explore.Fail {
								var data []byte
								for _, f := range hi.frames {
									data = append(data, refmodel.Frame{H: refmodel.Hdr{Fin: true, Op: f[0].(byte), Masked: server, Mask: [4]byte{1, 2, 3, 4}}, Payload: []byte(f[1].(string))}.Wire()...)
								}
								oh := o.h(server)
								data = append(data, refmodel.Frame{H: oh, Payload: marker[:oh.Len]}.Wire()...)
								side := streams.Client
								if server {
									side = streams.Server
								}
								data = append(data, canary(side)...)
								src := env.NewSrc(data)
								src.Policy = env.FixedChunk(ch)
								rd := &wsutil.Reader{Source: src, State: drivers.State(side), MaxFrameSize: o.max}
								for i, f := range hi.frames {
									if _, err := rd.NextFrame(); err != nil {
										return explore.Failf("harness-history", "frame %d: %v", i, err)
									}
									switch n := hi.reads[i]; {
									case n == -1:
										if _, err := io.ReadAll(rd); err != nil {
											return explore.Failf("harness-history", "read %d: %v", i, err)
										}
									case n >= 0:
										b := make([]byte, n)
										io.ReadFull(rd, b)
									}
									_ = f
								}
								_, err := rd.NextFrame()
								if err == nil {
									return explore.Failf("offender-not-refused", "%s accepted", o.name)
								}
								var leaked []byte
								buf := make([]byte, 128)
								for k := 0; k < 3; k++ {
									n, _ := rd.Read(buf)
									leaked = append(leaked, buf[:n]...)
								}
								if len(leaked) != 0 {
									return explore.Failf("Read-after-a-refusal-delivers-bytes", "NextFrame: %v; then Read handed out %d bytes: %x", err, len(leaked), leaked)
								}
								t.Outcome("nothing-delivered")
								return nil
							})
						}
					}
				}
			}
		})

		r.Part("E2-size-limit", func(t *explore.T) {
			for _, side := range []streams.Side{streams.Server, streams.Client} {
				for _, inMsg := range []bool{false, true} {
					for _, limit := range []int64{1, 2, 125, 126, 65535} {
						// (negative: the announced 64-bit length has its top bit set - not a length at all)
						for _, ann := range []int64{limit - 1, limit, limit + 1, 1 << 31, 1<<63 - 1, -1 << 63, -1<<63 + 5, -1} {
							for _, ch := range []int{0, 1, -1, -2, -3} {
								// ch<0: nothing follows the header; -2: the end comes with the header's last byte;
								// -3: the source is a *bufio.Reader that already holds everything
								side, inMsg, limit, ann, ch := side, inMsg, limit, ann, ch
								t.Do(func() string {
									return fmt.Sprintf("%s inMessage=%v MaxFrameSize=%d announced=%d chunk=%d", side, inMsg, limit, ann, ch)
								}, func() *explore.Fail {
									var pre []byte
									op := byte(2)
									if inMsg {
										f := refmodel.Frame{H: refmodel.Hdr{Op: 1, Masked: side == streams.Server, Mask: [4]byte{1, 2, 3, 4}}, Payload: []byte("a")}
										pre = f.Wire()
										op = 0
									}
									h := refmodel.Hdr{Fin: true, Op: op, Masked: side == streams.Server, Mask: [4]byte{1, 2, 3, 4}, Len: uint64(ann)}
									hb := refmodel.HdrEncode(h)
									if ann < 0 {
										// the reference encoder takes lengths below 2^63: write the 127 form by hand
										h.Len = 1 << 20
										hb = refmodel.HdrEncode(h)
										for i := 0; i < 8; i++ {
											hb[2+i] = byte(uint64(ann) >> (56 - 8*uint(i)))
										}
									}
									// a few bytes follow so that an implementation that starts reading the payload is seen to do so
									data := append(append(append([]byte{}, pre...), hb...), 0xEE, 0xEE, 0xEE)
									hdrEnd := len(pre) + len(hb)
									src := env.NewSrc(data)
									var source io.Reader = src
									switch {
									case ch == -3:
										br := bufio.NewReaderSize(src, 4096)
										br.Peek(1)
										source = br
									case ch < 0:
										src.Cut, src.WithLast = hdrEnd, ch == -2
									default:
										src.Policy = env.FixedChunk(ch)
									}
									rd := &wsutil.Reader{Source: source, State: drivers.State(side), MaxFrameSize: limit, SkipHeaderCheck: ch%2 != 0}
									if inMsg {
										if _, err := rd.NextFrame(); err != nil {
											return explore.Failf("prefix-error", "%v", err)
										}
										b := make([]byte, 1)
										if n, err := rd.Read(b); n != 1 || err != nil {
											return explore.Failf("prefix-read", "n=%d err=%v", n, err)
										}
									}
									var err error
									var got []byte
									if inMsg {
										// the continuation header is fetched by Read
										b := make([]byte, 8)
										var n int
										n, err = rd.Read(b)
										got = b[:n]
									} else {
										_, err = rd.NextFrame()
									}
									if ann < 0 {
										if err == nil || len(got) != 0 {
											return explore.Failf("length-with-top-bit-set-accepted", "announced %#x: err=%v delivered %x", uint64(ann), err, got)
										}
										t.Outcome("refused")
										return nil
									}
									if ann > limit {
										if err != wsutil.ErrFrameTooLarge {
											return explore.Failf("oversize-not-refused", "announced %d > limit %d: err=%v", ann, limit, err)
										}
										if src.Off > hdrEnd && ch != -3 {
											return explore.Failf("payload-read-before-refusal", "consumed %d, header ends at %d", src.Off, hdrEnd)
										}
										if len(got) != 0 {
											return explore.Failf("oversize-payload-delivered", "%x", got)
										}
										t.Outcome("refused")
									} else {
										if err == wsutil.ErrFrameTooLarge {
											return explore.Failf("within-limit-refused", "announced %d <= limit %d", ann, limit)
										}
										t.Outcome("admitted")
									}
									return nil
								})
							}
						}
					}
				}
			}
		})
	})
}

var errTransient = fmt.Errorf("transient transport error")

// hiccupSrc returns (0, errTransient) once when its offset reaches at, then carries on.
type hiccupSrc struct {
	data []byte
	off  int
	at   int
	done bool
}

func (h *hiccupSrc) Read(p []byte) (int, error) {
	if h.off == h.at && !h.done {
		h.done = true
		return 0, errTransient
	}
	if h.off >= len(h.data) {
		return 0, io.EOF
	}
	end := len(h.data)
	if h.at > h.off && !h.done && h.at < end {
		end = h.at
	}
	n := copy(p, h.data[h.off:end])
	h.off += n
	return n, nil
}

func judge(t *explore.T, d drivers.Driver, res *drivers.Result, src *env.Src, must, upper []drivers.Event, broken map[string]bool, hdrEnd int) *explore.Fail {
	got := make([]drivers.Event, 0, len(res.Events))
	for _, e := range res.Events {
		if e.Kind == "ctl?" {
			e.Kind = "ctl"
		}
		got = append(got, e)
	}
	wantMust, wantUpper := d.Expect(must), d.Expect(upper)
	if !drivers.IsPrefixEvents(got, wantUpper) || len(got) < len(wantMust) {
		return explore.Failf("prefix-events-mismatch:"+d.Name, "got %s\nmust %s\nupper %s\nerr=%v", drivers.FmtEvents(got), drivers.FmtEvents(wantMust), drivers.FmtEvents(wantUpper), res.Err)
	}
	for _, e := range got {
		if hasTaint(e.Payload) {
			return explore.Failf("offender-bytes-delivered:"+d.Name, "event %v", e)
		}
	}
	if hasTaint(res.Partial) {
		return explore.Failf("offender-bytes-delivered:"+d.Name, "partial %x", res.Partial)
	}
	rf, rest := drivers.ParseFrames(res.Replies)
	if len(rest) != 0 {
		return explore.Failf("reply-not-whole-frames:"+d.Name, "%x", res.Replies)
	}
	for _, f := range rf {
		if hasTaint(f.Payload) {
			return explore.Failf("offender-bytes-in-reply:"+d.Name, "%x", f.Payload)
		}
	}
	err := res.Err
	if err == nil || err == io.EOF {
		return explore.Failf("no-error:"+d.Name, "err=%v", err)
	}
	pe, ok := err.(ws.ProtocolError)
	if !ok {
		return explore.Failf("not-protocol-error:"+d.Name, "%T %v", err, err)
	}
	rule, known := errRule[pe]
	if !known || !broken[rule] {
		return explore.Failf("names-unbroken-rule:"+d.Name, "%v; broken=%v", err, broken)
	}
	if src.Off > hdrEnd {
		return explore.Failf("read-past-offending-header:"+d.Name, "consumed %d, header ends at %d", src.Off, hdrEnd)
	}
	t.Outcome("rejected:" + rule)
	return nil
}
