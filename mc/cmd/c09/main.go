// C09: the server handshake succeeds only for compliant requests and answers correctly.
package main

import (
	"bytes"
	"fmt"
	"io"

	"github.com/gobwas/ws"

	"verifmc/explore"
	"verifmc/hs"
)

func enumCfg(k int) []hs.SrvCfg {
	var out []hs.SrvCfg
	hs.EnumReq(hs.SrvFields, k, func(r hs.Req) { out = append(out, hs.SrvCfg(r)) })
	return out
}

func main() {
	explore.Main("C09", func(r *explore.Run) {
		kReq := r.Pick(2, 3)
		kCfg := 2
		var reqs []hs.Req
		hs.EnumReq(hs.ReqFields, kReq, func(q hs.Req) { reqs = append(reqs, q) })
		cfgs := enumCfg(kCfg)
		r.Part("E1-Upgrader", func(t *explore.T) {
			t.Bound(kReq)
			t.Par(len(reqs), func(i int) {
				q := reqs[i]
				data := q.Build()
				for _, c := range cfgs {
					c := c
					t.Do(func() string { return fmt.Sprintf("request{%s} config{%s}", q, c) }, func() *explore.Fail {
						out, hsk, err := hs.RunUpgrader(c.Upgrader(), bytes.NewReader(data))
						sig, detail := hs.JudgeServer(q, c, out, hsk, err, "Upgrader")
						if sig != "" {
							return explore.Failf(sig, "%s\nrequest:\n%s", detail, data)
						}
						if c.String() == "default" {
							// the package-level entry point on the default upgrader
							var buf bytes.Buffer
							hsk2, err2 := ws.Upgrade(struct {
								io.Reader
								io.Writer
							}{bytes.NewReader(data), &buf})
							if sig, detail := hs.JudgeServer(q, c, buf.Bytes(), hsk2, err2, "ws.Upgrade"); sig != "" {
								return explore.Failf(sig, "%s\nrequest:\n%s", detail, data)
							}
						}
						t.Outcome(detail)
						return nil
					})
				}
			})
			t.Note(fmt.Sprintf("request grammar of 13 fields, every request with <=%d non-canonical fields (%d requests) x every configuration with <=%d configured dimensions (%d)", kReq, len(reqs), kCfg, len(cfgs)))
		})
		r.Part("E2-HTTPUpgrader", func(t *explore.T) {
			t.Bound(kReq)
			t.Par(len(reqs), func(i int) {
				q := reqs[i]
				data := q.Build()
				for _, c := range cfgs {
					u, ok := c.HTTPUpgrader()
					if !ok {
						continue
					}
					c := c
					t.Do(func() string { return fmt.Sprintf("request{%s} config{%s}", q, c) }, func() *explore.Fail {
						out, hsk, err, skipped := hs.RunHTTPUpgrader(u, data)
						if skipped {
							t.Outcome("refused-by-net/http")
							return nil
						}
						sig, detail := hs.JudgeServer(q, c, out, hsk, err, "HTTPUpgrader")
						if sig != "" {
							return explore.Failf(sig, "%s\nrequest:\n%s", detail, data)
						}
						if c.String() == "default" {
							out2, hsk2, err2, _ := hs.RunUpgradeHTTP(data)
							if sig, detail := hs.JudgeServer(q, c, out2, hsk2, err2, "ws.UpgradeHTTP"); sig != "" {
								return explore.Failf(sig, "%s\nrequest:\n%s", detail, data)
							}
						}
						t.Outcome(detail)
						return nil
					})
				}
			})
		})
	})
}
