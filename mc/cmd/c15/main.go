// C15: no input from the peer can make the library panic, hang or overrun a size limit.
// Bounded-exhaustive neighbourhoods of valid seeds (all truncations, all single-byte edits,
// all short option strings, extreme announced lengths) at every decoding entry point.
// Frame-level cases run in worker subprocesses under an address-space limit, because an
// allocation sized by the peer ends in an unrecoverable runtime fatal error.
package main

import (
	"bufio"
	"bytes"
	"encoding/json"
	"fmt"
	"io"
	"net/url"
	"os"
	"os/exec"
	"runtime"
	"strconv"
	"strings"
	"syscall"
	"time"
	"verifmc/drivers"
	"verifmc/streams"

	"github.com/gobwas/httphead"
	"github.com/gobwas/ws"
	"github.com/gobwas/ws/wsflate"
	"github.com/gobwas/ws/wsutil"

	"verifmc/env"
	"verifmc/explore"
	"verifmc/hs"
	"verifmc/refmodel"
)

// ---- E1: frames with extreme announced lengths ---------------------------------------

type entryPoint struct {
	name   string
	prefix []byte // valid frames that precede the hostile one (a message left open)
	header bool   // a pure header decoder: must not allocate in proportion to the length
	run    func(src *env.Src, dst *env.Dst, max int64) (consumedPayload bool, err error)
}

func entryPoints() []entryPoint {
	mkReader := func(st ws.State, skip bool) func(src *env.Src, dst *env.Dst, max int64) (bool, error) {
		return func(src *env.Src, dst *env.Dst, max int64) (bool, error) {
			rd := &wsutil.Reader{Source: src, State: st, MaxFrameSize: max, SkipHeaderCheck: skip, CheckUTF8: true}
			rd.OnIntermediate = wsutil.ControlFrameHandler(dst, st)
			_, err := rd.NextFrame()
			if err != nil {
				return false, err
			}
			buf := make([]byte, 64)
			for i := 0; i < 1000; i++ {
				_, err = rd.Read(buf)
				if err != nil {
					return true, err
				}
			}
			return true, fmt.Errorf("harness: reader still going after 1000 reads")
		}
	}
	return []entryPoint{
		{"ws.ReadHeader", nil, true, func(src *env.Src, dst *env.Dst, max int64) (bool, error) {
			_, err := ws.ReadHeader(src)
			return false, err
		}},
		{"ws.ReadFrame", nil, false, func(src *env.Src, dst *env.Dst, max int64) (bool, error) {
			_, err := ws.ReadFrame(src)
			return true, err
		}},
		{"Reader.NextFrame-only/server", nil, true, func(src *env.Src, dst *env.Dst, max int64) (bool, error) {
			rd := &wsutil.Reader{Source: src, State: ws.StateServerSide, MaxFrameSize: max}
			_, err := rd.NextFrame()
			return false, err
		}},
		{"Reader/refused-frame-then-Discard-and-Read", nil, false, func(src *env.Src, dst *env.Dst, max int64) (bool, error) {
			// a caller that answers a refusal by discarding "the current frame" and asking Read once
			// more: a frame refused for its size stays unread
			rd := &wsutil.Reader{Source: src, State: ws.StateServerSide, MaxFrameSize: max}
			_, err := rd.NextFrame()
			if err == wsutil.ErrFrameTooLarge {
				rd.Discard()
				rd.Read(make([]byte, 64))
			}
			return false, err
		}},
		{"Reader.NextFrame-only/nocheck", nil, true, func(src *env.Src, dst *env.Dst, max int64) (bool, error) {
			rd := &wsutil.Reader{Source: src, SkipHeaderCheck: true, MaxFrameSize: max}
			_, err := rd.NextFrame()
			return false, err
		}},
		{name: "Reader/server-inside-open-message", prefix: refmodel.Frame{H: refmodel.Hdr{Op: 1, Masked: true, Mask: [4]byte{1, 2, 3, 4}}, Payload: []byte("a")}.Wire(),
			run: func(src *env.Src, dst *env.Dst, max int64) (bool, error) {
				rd := &wsutil.Reader{Source: src, State: ws.StateServerSide, MaxFrameSize: max, CheckUTF8: true}
				rd.OnIntermediate = wsutil.ControlFrameHandler(dst, ws.StateServerSide)
				if _, err := rd.NextFrame(); err != nil {
					return false, err
				}
				buf := make([]byte, 64)
				for i := 0; i < 1000; i++ {
					if _, err := rd.Read(buf); err != nil {
						return true, err
					}
				}
				return true, fmt.Errorf("harness: reader still going after 1000 reads")
			}},
		// the header check switched off, inside an open message: control frames of any announced
		// length reach the in-message branch; with no handler, and with one that reads nothing
		{name: "Reader/nocheck-inside-open-message", prefix: refmodel.Frame{H: refmodel.Hdr{Op: 1}, Payload: []byte("a")}.Wire(),
			run: func(src *env.Src, dst *env.Dst, max int64) (bool, error) {
				rd := &wsutil.Reader{Source: src, SkipHeaderCheck: true, MaxFrameSize: max}
				if _, err := rd.NextFrame(); err != nil {
					return false, err
				}
				buf := make([]byte, 64)
				for i := 0; i < 1000; i++ {
					if _, err := rd.Read(buf); err != nil {
						return true, err
					}
				}
				return true, fmt.Errorf("harness: reader still going after 1000 reads")
			}},
		{name: "Reader/nocheck-lazy-handler-inside-open-message", prefix: refmodel.Frame{H: refmodel.Hdr{Op: 2}, Payload: []byte("a")}.Wire(),
			run: func(src *env.Src, dst *env.Dst, max int64) (bool, error) {
				rd := &wsutil.Reader{Source: src, SkipHeaderCheck: true, MaxFrameSize: max}
				rd.OnIntermediate = func(ws.Header, io.Reader) error { return nil }
				if _, err := rd.NextFrame(); err != nil {
					return false, err
				}
				return true, rd.Discard()
			}},
		{name: "ReadData/client-inside-open-message", prefix: refmodel.Frame{H: refmodel.Hdr{Op: 2}, Payload: []byte("a")}.Wire(),
			run: func(src *env.Src, dst *env.Dst, max int64) (bool, error) {
				_, _, err := wsutil.ReadData(env.RW{Reader: src, Writer: dst}, ws.StateClientSide)
				return true, err
			}},
		{"Reader/server", nil, false, mkReader(ws.StateServerSide, false)},
		{"Reader/client", nil, false, mkReader(ws.StateClientSide, false)},
		{"Reader/nocheck", nil, false, mkReader(0, true)},
		{"NextReader/server", nil, false, func(src *env.Src, dst *env.Dst, max int64) (bool, error) {
			_, r, err := wsutil.NextReader(src, ws.StateServerSide)
			if err != nil {
				return false, err
			}
			_, err = io.Copy(io.Discard, r)
			return true, err
		}},
		{"ReadMessage/server", nil, false, func(src *env.Src, dst *env.Dst, max int64) (bool, error) {
			_, err := wsutil.ReadMessage(src, ws.StateServerSide, nil)
			return true, err
		}},
		{"ReadMessage/client", nil, false, func(src *env.Src, dst *env.Dst, max int64) (bool, error) {
			_, err := wsutil.ReadMessage(src, ws.StateClientSide, nil)
			return true, err
		}},
		{"ReadData/server", nil, false, func(src *env.Src, dst *env.Dst, max int64) (bool, error) {
			_, _, err := wsutil.ReadData(env.RW{Reader: src, Writer: dst}, ws.StateServerSide)
			return true, err
		}},
		{"ReadData/client", nil, false, func(src *env.Src, dst *env.Dst, max int64) (bool, error) {
			_, _, err := wsutil.ReadData(env.RW{Reader: src, Writer: dst}, ws.StateClientSide)
			return true, err
		}},
	}
}

var extLens = []uint64{1<<31 - 1, 1 << 31, 1 << 32, 1 << 47, 1 << 48, 1 << 62, 1<<63 - 1, 1 << 63, 1<<64 - 1, 65536, 126, 1<<20 + 1, 1 << 24, 1<<30 - 1}

type wresult struct {
	Sig    string `json:"sig"`
	Case   string `json:"case"`
	Detail string `json:"detail"`
}

// frameCase builds the input for one E1 case.
func frameCase(b0, b1 byte, ext uint64, follow int) []byte {
	data := []byte{b0, b1}
	switch b1 & 0x7f {
	case 126:
		data = append(data, byte(ext>>8), byte(ext))
	case 127:
		for i := 7; i >= 0; i-- {
			data = append(data, byte(ext>>(8*uint(i))))
		}
	}
	if b1&0x80 != 0 {
		data = append(data, 1, 2, 3, 4)
	}
	for i := 0; i < follow; i++ {
		data = append(data, 0xEE)
	}
	return data
}

// judgeRun applies the C15 oracle to one run of an entry point.
func judgeRun(ep entryPoint, hostile []byte, max int64) (sig, detail string) {
	data := hostile
	if len(ep.prefix) > 0 {
		data = append(append([]byte{}, ep.prefix...), hostile...)
	}
	src := env.NewSrc(data)
	dst := env.NewDst()
	var consumed bool
	var err error
	func() {
		defer func() {
			if e := recover(); e != nil {
				sig = "panic:" + ep.name
				detail = fmt.Sprintf("%v", e)
			}
		}()
		consumed, err = ep.run(src, dst, max)
	}()
	if sig != "" {
		return
	}
	_ = consumed
	if src.Reads > len(data)+64 {
		return "reads-without-progress:" + ep.name, fmt.Sprintf("%d Read calls for %d input bytes (err=%v)", src.Reads, len(data), err)
	}
	if max > 0 {
		h, n, _, herr := refmodel.HdrDecode(hostile)
		n += len(ep.prefix)
		if herr == nil && int64(h.Len) > max && src.Off > n {
			return "payload-read-despite-MaxFrameSize:" + ep.name, fmt.Sprintf("announced %d > limit %d but source consumed %d bytes, header is %d", h.Len, max, src.Off, n)
		}
		if herr == nil && int64(h.Len) > max && h.Len < 1<<63 && strings.Contains(ep.name, "nocheck") && err != wsutil.ErrFrameTooLarge {
			// with the RFC header check switched off the size limit is the only reason to refuse this frame
			return "size-limit-refusal-reported-as-something-else:" + ep.name, fmt.Sprintf("announced %d > limit %d: err=%v", h.Len, max, err)
		}
	}
	return "", ""
}

func workerE1(shard, nshards int) {
	// address-space limit: an allocation sized by the peer must fail in here, not take the box
	lim := &syscall.Rlimit{Cur: 6 << 30, Max: 6 << 30}
	syscall.Setrlimit(syscall.RLIMIT_AS, lim)
	eps := entryPoints()
	out := bufio.NewWriter(os.Stdout)
	defer out.Flush()
	seen := map[string]bool{}
	n := 0
	report := func(sig, cs, detail string) {
		if seen[sig] {
			return
		}
		seen[sig] = true
		b, _ := json.Marshal(wresult{sig, cs, detail})
		out.Write(b)
		out.WriteByte('\n')
		out.Flush()
	}
	var ms runtime.MemStats
	for i := shard; i < 65536; i += nshards {
		b0, b1 := byte(i>>8), byte(i)
		l7 := b1 & 0x7f
		exts := []uint64{0}
		if l7 == 127 {
			exts = extLens
		} else if l7 == 126 {
			exts = []uint64{0, 125, 126, 65535}
		}
		for _, ext := range exts {
			for _, follow := range []int{0, 1, 14} {
				data := frameCase(b0, b1, ext, follow)
				for _, ep := range eps {
					for _, max := range []int64{0, 1000} {
						if max != 0 && !strings.HasPrefix(ep.name, "Reader") {
							continue
						}
						if n%4096 == 0 {
							fmt.Fprintf(out, "P %d %02x%02x ext=%d ep=%s\n", n, b0, b1, ext, ep.name)
							out.Flush()
						}
						n++
						// allocation measurement for the pure header decoders on a thin slice of cases
						measure := ep.header && l7 == 127 && follow == 0 && (b0 == 0x82 || b0 == 0x89)
						var before uint64
						if measure {
							runtime.ReadMemStats(&ms)
							before = ms.TotalAlloc
						}
						sig, detail := judgeRun(ep, data, max)
						if measure {
							runtime.ReadMemStats(&ms)
							if d := ms.TotalAlloc - before; d > 4096 {
								report("header-decoder-allocates-by-announced-length:"+ep.name, fmt.Sprintf("bytes %x", data), fmt.Sprintf("%d bytes allocated", d))
							}
						}
						if sig != "" {
							report(sig, fmt.Sprintf("bytes %x maxFrameSize=%d", data, max), detail)
						}
					}
				}
			}
		}
	}
	if shard == 0 {
		// a peer that announces far more than it sends but does send more than the entry points
		// reserve up front (1 MiB): what is allocated stays in proportion to what arrived
		const delivered = 1<<20 + 16
		for _, ep := range eps {
			if ep.header {
				continue
			}
			for _, announced := range []uint64{1 << 21, 1 << 28, 1 << 33, 1 << 40, 1 << 62} {
				for _, b1 := range []byte{0x7f, 0xff} {
					data := frameCase(0x82, b1, announced, delivered)
					n++
					runtime.GC()
					runtime.ReadMemStats(&ms)
					before := ms.TotalAlloc
					sig, detail := judgeRun(ep, data, 0)
					runtime.ReadMemStats(&ms)
					cs := fmt.Sprintf("frame %x.. announcing %d bytes, %d delivered, then the stream ends", data[:10], announced, delivered)
					if d := ms.TotalAlloc - before; d > 48<<20 {
						report("allocates-by-announced-length:"+ep.name, cs, fmt.Sprintf("%d bytes allocated for %d bytes received", d, delivered))
					}
					if sig != "" {
						report(sig, cs, detail)
					}
				}
			}
		}
	}
	fmt.Fprintf(out, "DONE %d\n", n)
}

// ---- E2: handshake neighbourhoods ---------------------------------------------------

var special = []byte{0x00, '\n', '\r', ':', ' ', '\t', ',', ';', '=', '"', '\\', 0xff}

func requestSeeds() [][]byte {
	base := "GET /chat HTTP/1.1\r\nHost: example.com\r\nUpgrade: websocket\r\nConnection: Upgrade\r\nSec-WebSocket-Key: " + hs.CanonKey + "\r\nSec-WebSocket-Version: 13\r\n"
	return [][]byte{
		[]byte(base + "\r\n"),
		[]byte(base + "Sec-WebSocket-Protocol: a, b\r\nSec-WebSocket-Extensions: permessage-deflate; client_max_window_bits=10; server_no_context_takeover, x; y=\"q\"\r\n\r\n"),
	}
}

func responseSeeds(key string) [][]byte {
	base := "HTTP/1.1 101 Switching Protocols\r\nUpgrade: websocket\r\nConnection: Upgrade\r\nSec-WebSocket-Accept: " + hs.Accept(key) + "\r\n"
	return [][]byte{
		[]byte(base + "\r\n"),
		[]byte(base + "Sec-WebSocket-Protocol: b\r\nSec-WebSocket-Extensions: permessage-deflate; client_max_window_bits=10, x; y=\"q\"\r\n\r\n\x81\x02hi"),
	}
}

// edits enumerates all single edits of seed.
func edits(seed []byte, fn func(desc string, data []byte)) {
	for cut := 0; cut <= len(seed); cut++ {
		fn(fmt.Sprintf("truncate@%d", cut), seed[:cut])
	}
	for i := range seed {
		for _, b := range special {
			if seed[i] == b {
				continue
			}
			d := append([]byte{}, seed...)
			d[i] = b
			fn(fmt.Sprintf("replace@%d=%02x", i, b), d)
		}
		d := append(append([]byte{}, seed[:i]...), seed[i+1:]...)
		fn(fmt.Sprintf("delete@%d", i), d)
		d2 := append(append(append([]byte{}, seed[:i+1]...), seed[i]), seed[i+1:]...)
		fn(fmt.Sprintf("duplicate@%d", i), d2)
	}
}

// lineEdits enumerates header-multiset edits of seed: every header line repeated 0 or 2..5
// times (in place, or with the copies moved to the end of the block), and every pair of lines
// each repeated 0, 2 or 3 times.
func lineEdits(seed []byte, fn func(desc string, data []byte)) {
	end := bytes.Index(seed, []byte("\r\n\r\n"))
	if end < 0 {
		return
	}
	lines := strings.Split(string(seed[:end]), "\r\n")
	rest := string(seed[end+4:])
	build := func(count []int, moved int) []byte {
		var b, tail strings.Builder
		for i, l := range lines {
			for k := 0; k < count[i]; k++ {
				if i == moved && k > 0 {
					tail.WriteString(l + "\r\n")
				} else {
					b.WriteString(l + "\r\n")
				}
			}
		}
		return []byte(b.String() + tail.String() + "\r\n" + rest)
	}
	ones := func() []int {
		c := make([]int, len(lines))
		for i := range c {
			c[i] = 1
		}
		return c
	}
	for i := range lines {
		for _, r := range []int{0, 2, 3, 4, 5} {
			c := ones()
			c[i] = r
			fn(fmt.Sprintf("line#%d x%d", i, r), build(c, -1))
			if r > 1 {
				fn(fmt.Sprintf("line#%d x%d (copies last)", i, r), build(c, i))
			}
		}
		for j := i + 1; j < len(lines); j++ {
			for _, ri := range []int{0, 2, 3} {
				for _, rj := range []int{0, 2, 3} {
					c := ones()
					c[i], c[j] = ri, rj
					fn(fmt.Sprintf("line#%d x%d, line#%d x%d", i, ri, j, rj), build(c, -1))
				}
			}
		}
	}
}

var theURL, _ = url.ParseRequestURI("ws://example.com/chat")

func hostileUpgrade(data []byte, bufSize int) (sig, detail string) {
	src := env.NewSrc(data)
	e := &wsflate.Extension{Parameters: wsflate.DefaultParameters}
	u := ws.Upgrader{ReadBufferSize: bufSize, Protocol: func(b []byte) bool { return string(b) == "b" }, Negotiate: e.Negotiate}
	var out bytes.Buffer
	func() {
		defer func() {
			if r := recover(); r != nil {
				sig, detail = "panic:Upgrader.Upgrade", fmt.Sprintf("%v", r)
			}
		}()
		u.Upgrade(struct {
			io.Reader
			io.Writer
		}{src, &out})
	}()
	if sig == "" && src.Reads > len(data)+64 {
		return "reads-without-progress:Upgrader.Upgrade", fmt.Sprintf("%d reads", src.Reads)
	}
	return
}

func hostileUpgradeSelector(data []byte) (sig, detail string) {
	src := env.NewSrc(data)
	u := ws.Upgrader{Protocol: func(b []byte) bool { return false }, Extension: func(httphead.Option) bool { return true }}
	var out bytes.Buffer
	func() {
		defer func() {
			if r := recover(); r != nil {
				sig, detail = "panic:Upgrader.Upgrade(selector)", fmt.Sprintf("%v", r)
			}
		}()
		u.Upgrade(struct {
			io.Reader
			io.Writer
		}{src, &out})
	}()
	return
}

func hostileHTTPUpgrade(data []byte) (sig, detail string) {
	e := &wsflate.Extension{Parameters: wsflate.DefaultParameters}
	u := ws.HTTPUpgrader{Protocol: func(s string) bool { return s == "b" }, Negotiate: e.Negotiate}
	func() {
		defer func() {
			if r := recover(); r != nil {
				sig, detail = "panic:HTTPUpgrader.Upgrade", fmt.Sprintf("%v", r)
			}
		}()
		hs.RunHTTPUpgrader(u, data)
	}()
	return
}

func hostileDial(resp []byte, bufSize int) (sig, detail string) {
	d := ws.Dialer{ReadBufferSize: bufSize, Protocols: []string{"a", "b"}, Extensions: []httphead.Option{wsflate.DefaultParameters.Option(), httphead.NewOption("x", nil)}}
	// the seeds carry the accept value of the canonical key; the dialer's nonce is random, so
	// wherever an edit left that value intact it is replaced by the one matching the request
	// actually sent: responses that are hostile *and* carry the right accept are reached too
	conn := &hs.LazyConn{Respond: func(req []byte) []byte {
		return bytes.ReplaceAll(resp, []byte(hs.Accept(hs.CanonKey)), []byte(hs.Accept(hs.KeyOf(req))))
	}}
	func() {
		defer func() {
			if r := recover(); r != nil {
				sig, detail = "panic:Dialer.Upgrade", fmt.Sprintf("%v", r)
			}
		}()
		br, _, _ := d.Upgrade(conn, theURL)
		if br != nil {
			ws.PutReader(br)
		}
	}()
	if sig == "" && conn.Src != nil && conn.Src.Reads > len(resp)+64 {
		return "reads-without-progress:Dialer.Upgrade", fmt.Sprintf("%d reads", conn.Src.Reads)
	}
	return
}

func main() {
	if len(os.Args) > 1 && os.Args[1] == "--worker-e1" {
		shard, _ := strconv.Atoi(os.Args[2])
		n, _ := strconv.Atoi(os.Args[3])
		workerE1(shard, n)
		return
	}
	explore.Main("C15", func(r *explore.Run) {
		r.Part("E1-frames-extreme-lengths", func(t *explore.T) {
			nshards := 32
			if !t.Thorough() {
				nshards = 32
			}
			self, _ := os.Executable()
			t.Par(nshards, func(sh int) {
				cmd := exec.Command(self, "--worker-e1", strconv.Itoa(sh), strconv.Itoa(nshards))
				var stderr bytes.Buffer
				cmd.Stderr = &stderr
				outp, _ := cmd.StdoutPipe()
				if err := cmd.Start(); err != nil {
					t.Do(func() string { return fmt.Sprintf("worker %d", sh) }, func() *explore.Fail { return explore.Failf("harness-worker-start", "%v", err) })
					return
				}
				sc := bufio.NewScanner(outp)
				sc.Buffer(make([]byte, 1<<20), 1<<20)
				last := ""
				done := int64(-1)
				var results []wresult
				// a worker that prints nothing for 3 minutes (it reports every 4096 decoder
				// runs, each of which takes microseconds) is stuck in a decoder: kill it
				hung := false
				watchdog := time.AfterFunc(3*time.Minute, func() { hung = true; cmd.Process.Kill() })
				for sc.Scan() {
					watchdog.Reset(3 * time.Minute)
					explore.Progress()
					line := sc.Text()
					switch {
					case strings.HasPrefix(line, "P "):
						last = line
					case strings.HasPrefix(line, "DONE "):
						done, _ = strconv.ParseInt(line[5:], 10, 64)
					case strings.HasPrefix(line, "{"):
						var wr wresult
						if json.Unmarshal([]byte(line), &wr) == nil {
							results = append(results, wr)
						}
					}
				}
				werr := cmd.Wait()
				watchdog.Stop()
				if hung {
					t.DoN(0, func() string { return fmt.Sprintf("worker shard %d/%d hung after progress line %q", sh, nshards, last) }, func() *explore.Fail {
						f := explore.Failf("hang:frame-decoder", "no progress for 3 minutes after %q", last)
						f.Sampled = true
						return f
					})
					return
				}
				for _, wr := range results {
					wr := wr
					t.DoN(0, func() string { return wr.Case }, func() *explore.Fail { f := explore.Failf(wr.Sig, "%s", wr.Detail); f.Sampled = true; return f })
				}
				if done < 0 {
					// the worker died: unrecoverable runtime error (allocation sized by the peer) or hang
					tail := stderr.String()
					site := "unknown"
					for _, l := range strings.Split(tail, "\n") {
						if strings.HasPrefix(l, "github.com/gobwas/ws") {
							site = strings.TrimPrefix(l, "github.com/gobwas/")
							if j := strings.LastIndex(site, "("); j > 0 {
								site = site[:j]
							}
							break
						}
					}
					first := strings.SplitN(tail, "\n", 2)[0]
					t.DoN(0, func() string { return fmt.Sprintf("worker shard %d/%d died after progress line %q", sh, nshards, last) }, func() *explore.Fail {
						f := explore.Failf("process-killed-by-hostile-frame:"+site, "exit=%v\n%s\n%s", werr, first, firstLines(tail, 40))
						f.Sampled = true
						return f
					})
					return
				}
				t.DoN(done, func() string { return fmt.Sprintf("worker shard %d/%d: %d decoder runs", sh, nshards, done) }, func() *explore.Fail { return nil })
			})
			t.Outcome("returned-value-or-error")
			t.Note("all 65536 first-two-byte values x extended length fields {2^31-1, 2^31, 2^32, 2^47, 2^48, 2^62, 2^63-1, MSB set, all ones, 65536, 126} x following bytes {0,1,14} x 12 entry points (x MaxFrameSize for the Reader ones); workers run under RLIMIT_AS=6GiB")
		})

		r.Part("E2-handshake-neighbourhoods", func(t *explore.T) {
			type job struct {
				kind string
				seed int
				desc string
				data []byte
			}
			var jobs []job
			for si, seed := range requestSeeds() {
				edits(seed, func(desc string, d []byte) { jobs = append(jobs, job{"request", si, desc, d}) })
			}
			for si, seed := range responseSeeds(hs.CanonKey) {
				edits(seed, func(desc string, d []byte) { jobs = append(jobs, job{"response", si, desc, d}) })
			}
			for si, seed := range requestSeeds() {
				lineEdits(seed, func(desc string, d []byte) { jobs = append(jobs, job{"request", si, desc, d}) })
			}
			for si, seed := range responseSeeds(hs.CanonKey) {
				lineEdits(seed, func(desc string, d []byte) { jobs = append(jobs, job{"response", si, desc, d}) })
			}
			if t.Thorough() {
				// all pairs of special-byte replacements inside the header block of the short seeds
				seed := requestSeeds()[0]
				for i := 0; i < len(seed); i++ {
					for j := i + 1; j < len(seed); j++ {
						for _, a := range []byte{'\n', ':', ' ', 0x00} {
							for _, b := range []byte{'\n', ':', ',', 0xff} {
								d := append([]byte{}, seed...)
								d[i], d[j] = a, b
								jobs = append(jobs, job{"request", 0, fmt.Sprintf("replace2@%d=%02x,%d=%02x", i, a, j, b), d})
							}
						}
					}
				}
			}
			t.Par(len(jobs), func(i int) {
				j := jobs[i]
				t.Do(func() string { return fmt.Sprintf("%s seed#%d %s", j.kind, j.seed, j.desc) }, func() *explore.Fail {
					var inner *explore.Fail
					if f := explore.Hang("handshake-"+j.kind, 20*time.Second, func() { inner = handshakeCase(j.kind, j.data) }); f != nil {
						return f
					}
					return inner
				})
			})
			t.Outcome("returned")
		})

		r.Part("E3-option-strings", func(t *explore.T) {
			alpha := []byte{'a', ',', ';', '=', '"', '\\', ' ', 0x00}
			maxLen := t.Pick(5, 6)
			var strs [][]byte
			var rec func(cur []byte)
			rec = func(cur []byte) {
				strs = append(strs, append([]byte{}, cur...))
				if len(cur) == maxLen {
					return
				}
				for _, c := range alpha {
					rec(append(cur, c))
				}
			}
			rec(nil)
			t.Par(len(strs), func(i int) {
				s := strs[i]
				t.Do(func() string { return fmt.Sprintf("option string %q", s) }, func() *explore.Fail {
					var inner *explore.Fail
					if f := explore.Hang("option-string", 20*time.Second, func() { inner = optionCase(s) }); f != nil {
						return f
					}
					return inner
				})
			})
			t.Outcome("returned")
		})

		r.Part("E4-deflate-payloads", func(t *explore.T) {
			runInner := func(p []byte) (sig, detail string) {
				defer func() {
					if r := recover(); r != nil {
						sig, detail = "panic:DecompressFrame", fmt.Sprintf("%v", r)
					}
				}()
				f := ws.Frame{Header: ws.Header{Fin: true, Rsv: 4, OpCode: ws.OpText, Length: int64(len(p))}, Payload: p}
				g, err := wsflate.DecompressFrame(f)
				if err == nil && len(g.Payload) > 1<<24 {
					return "decompressed-size-explodes", fmt.Sprintf("%d bytes from %d", len(g.Payload), len(p))
				}
				// the streaming reader over a source that counts reads
				src := env.NewSrc(p)
				rd := wsflate.NewReader(src, func(r io.Reader) wsflate.Decompressor { return newFlate(r) })
				io.Copy(io.Discard, rd)
				rd.Close()
				if src.Reads > len(p)+64 {
					return "reads-without-progress:wsflate.Reader", fmt.Sprintf("%d reads for %d bytes", src.Reads, len(p))
				}
				return "", ""
			}
			// one Reader reused across messages whose sources are of different kinds (byte readers
			// and plain readers), the hostile payload first, second or both
			reuseInner := func(p []byte) (sig, detail string) {
				where := ""
				defer func() {
					if r := recover(); r != nil {
						sig, detail = "panic:wsflate.Reader-reused", fmt.Sprintf("%s: %v", where, r)
					}
				}()
				kinds := []func(b []byte) io.Reader{
					func(b []byte) io.Reader { return bytes.NewReader(b) },
					func(b []byte) io.Reader { return env.NewSrc(b) },
					func(b []byte) io.Reader { return bufio.NewReaderSize(env.NewSrc(b), 16) },
				}
				good := deflateSeeds()[0]
				for ai, ka := range kinds {
					for bi, kb := range kinds {
						for oi, order := range [][2][]byte{{p, good}, {good, p}, {p, p}} {
							where = fmt.Sprintf("source kinds %d then %d, order %d", ai, bi, oi)
							rr := wsflate.NewReader(ka(order[0]), func(r io.Reader) wsflate.Decompressor { return newFlate(r) })
							io.Copy(io.Discard, rr)
							rr.Reset(kb(order[1]))
							io.Copy(io.Discard, rr)
							rr.Reset(ka(good))
							if out, err := io.ReadAll(rr); err != nil || len(out) == 0 {
								return "valid-message-unreadable-after-hostile-one", fmt.Sprintf("%s: err=%v", where, err)
							}
							rr.Close()
						}
					}
				}
				return "", ""
			}
			runReuse := func(p []byte) (sig, detail string) {
				q := append([]byte{}, p...)
				if f := explore.Hang("wsflate.Reader-reused", 20*time.Second, func() { sig, detail = reuseInner(q) }); f != nil {
					return f.Sig, f.Detail + fmt.Sprintf(" (input %x)", q)
				}
				return sig, detail
			}
			// every case runs under a watchdog: a decoder that spins without consuming input
			// never comes back, which no post-hoc counter can see
			run := func(p []byte) (sig, detail string) {
				q := append([]byte{}, p...)
				if f := explore.Hang("DecompressFrame/wsflate.Reader", 20*time.Second, func() { sig, detail = runInner(q) }); f != nil {
					return f.Sig, f.Detail + fmt.Sprintf(" (input %x)", q)
				}
				return sig, detail
			}
			maxLen := t.Pick(2, 3)
			total := 1
			for i := 0; i < maxLen; i++ {
				total *= 256
			}
			t.Par(256, func(b0 int) {
				t.Do(func() string { return fmt.Sprintf("deflate bytes %02x", b0) }, func() *explore.Fail {
					if sig, d := run([]byte{byte(b0)}); sig != "" {
						return explore.Failf(sig, "%s", d)
					}
					if sig, d := runReuse([]byte{byte(b0)}); sig != "" {
						return explore.Failf(sig, "%s", d)
					}
					return nil
				})
				for b1 := 0; b1 < 256; b1++ {
					b1 := b1
					n := int64(1)
					if maxLen == 3 {
						n = 257
					}
					t.DoN(n, func() string { return fmt.Sprintf("deflate bytes %02x%02x(+any third byte)", b0, b1) }, func() *explore.Fail {
						if sig, d := run([]byte{byte(b0), byte(b1)}); sig != "" {
							return explore.Failf(sig, "%s", d)
						}
						if maxLen == 3 {
							for b2 := 0; b2 < 256; b2++ {
								if sig, d := run([]byte{byte(b0), byte(b1), byte(b2)}); sig != "" {
									return explore.Failf(sig, "%s (third byte %02x)", d, b2)
								}
							}
						}
						return nil
					})
				}
			})
			_ = total
			seeds := deflateSeeds()
			for si, seed := range seeds {
				si, seed := si, seed
				t.Par(len(seed)+1, func(cut int) {
					t.Do(func() string { return fmt.Sprintf("deflate seed#%d truncate@%d", si, cut) }, func() *explore.Fail {
						if sig, d := run(seed[:cut]); sig != "" {
							return explore.Failf(sig, "%s", d)
						}
						if sig, d := runReuse(seed[:cut]); sig != "" {
							return explore.Failf(sig, "%s", d)
						}
						return nil
					})
					if cut < len(seed) {
						t.DoN(255, func() string { return fmt.Sprintf("deflate seed#%d replace@%d (all 255 other values)", si, cut) }, func() *explore.Fail {
							for v := 0; v < 256; v++ {
								if byte(v) == seed[cut] {
									continue
								}
								d := append([]byte{}, seed...)
								d[cut] = byte(v)
								if sig, dt := run(d); sig != "" {
									return explore.Failf(sig, "%s (value %02x)", dt, v)
								}
							}
							return nil
						})
					}
				})
			}
			t.Outcome("returned")
		})

		// Resource use must not grow with the number of frames a peer puts between two points of
		// a message: the depth of the call stack at the moment the reader asks the transport for
		// more bytes is sampled for runs of 8 and of 600 frames (empty pings, pings, pongs between
		// two fragments; empty continuation fragments; unwanted messages that a typed read helper
		// skips). A stack that deepens with every frame ends in an unrecoverable stack overflow
		// for a long enough run.
		r.Part("E5-stack-depth-independent-of-run-length", func(t *explore.T) {
			type gen struct {
				name string
				mk   func(side streams.Side, n int) []streams.Frame
			}
			fr := func(side streams.Side, i int, op byte, fin bool, p string) streams.Frame {
				return streams.Frame{H: refmodel.Hdr{Fin: fin, Op: op, Masked: side == streams.Server, Mask: streams.Masks[i%3]}, Payload: []byte(p)}
			}
			between := func(op byte, payload string) func(side streams.Side, n int) []streams.Frame {
				return func(side streams.Side, n int) []streams.Frame {
					out := []streams.Frame{fr(side, 0, 2, false, "a")}
					for i := 0; i < n; i++ {
						out = append(out, fr(side, i+1, op, op != 0, payload))
					}
					return append(out, fr(side, n+1, 0, true, "b"), fr(side, n+2, 1, true, "end"))
				}
			}
			gens := []gen{
				{"empty pings between two fragments", between(9, "")},
				{"pings between two fragments", between(9, "pi")},
				{"pongs between two fragments", between(10, "")},
				{"empty non-final continuation fragments", between(0, "")},
				{"binary messages before a text message", func(side streams.Side, n int) []streams.Frame {
					var out []streams.Frame
					for i := 0; i < n; i++ {
						out = append(out, fr(side, i, 2, true, "x"))
					}
					return append(out, fr(side, n, 1, true, "end"))
				}},
				{"pings before a message", func(side streams.Side, n int) []streams.Frame {
					var out []streams.Frame
					for i := 0; i < n; i++ {
						out = append(out, fr(side, i, 9, true, ""))
					}
					return append(out, fr(side, n, 1, true, "end"))
				}},
			}
			ds := []drivers.Driver{drivers.ReaderLoop(7), drivers.ReaderDiscard(0), drivers.NextReaderLoop(), drivers.ReadMessageLoop(), drivers.ReadDataLoop("Generic"), drivers.ReadDataLoop("Text")}
			depthOf := func(d drivers.Driver, side streams.Side, frames []streams.Frame) (int, error) {
				data, _ := streams.Wire(frames)
				src := env.NewSrc(data)
				max := 0
				pcs := make([]uintptr, 4096)
				src.OnRead = func([]byte, int) {
					if n := runtime.Callers(0, pcs); n > max {
						max = n
					}
				}
				var res drivers.Result
				d.Run(src, side, drivers.Cfg{}, &res)
				return max, res.Err
			}
			for _, g := range gens {
				for _, d := range ds {
					for _, side := range []streams.Side{streams.Server, streams.Client} {
						g, d, side := g, d, side
						t.Do(func() string { return fmt.Sprintf("%s: %s, driver=%s, runs of 8 and 600", side, g.name, d.Name) }, func() *explore.Fail {
							a, errA := depthOf(d, side, g.mk(side, 8))
							b, errB := depthOf(d, side, g.mk(side, 600))
							if errA != io.EOF || errB != io.EOF {
								return explore.Failf("valid-long-run-refused:"+d.Name, "err(8)=%v err(600)=%v", errA, errB)
							}
							if b > a+8 {
								return explore.Failf("stack-deepens-with-every-frame:"+d.Name, "call depth at the transport read: %d frames deep after a run of 8, %d after a run of 600", a, b)
							}
							t.Outcome("bounded")
							return nil
						})
					}
				}
			}
		})

		// The io.Reader contract on hostile text: every Read of the message reader returns a count
		// within 0..len(p), whatever the fragments look like (sequences cut by fragment boundaries,
		// empty fragments, invalid bytes) and however the caller's buffer size changes from one
		// Read to the next. A larger count makes io.ReadAll, bytes.Buffer.ReadFrom and the
		// library's own read helpers slice past their buffers.
		r.Part("E6-read-counts-stay-within-the-buffer", func(t *explore.T) {
			units := [][]byte{[]byte("a"), {0xC3, 0xA9}, {0xE2, 0x82, 0xAC}, {0xF0, 0x9F, 0x98, 0x80}, {0xE2, 0x82}, {0xF0, 0x9F}, {0x80}, {0xFF}, []byte("abcdefghijklmnopqrstuvwxyz0123456789")}
			var msgs [][]byte
			for _, u := range units {
				msgs = append(msgs, u)
				for _, v := range units {
					msgs = append(msgs, append(append([]byte{}, u...), v...))
				}
			}
			ds := []drivers.Driver{drivers.ReaderAlternatingBuffers(), drivers.ReaderLoop(3), drivers.ReadMessageLoop(), drivers.ReadDataLoop("Generic"), drivers.NextReaderLoop()}
			t.Par(len(msgs), func(mi int) {
				msg := msgs[mi]
				for a := 0; a <= len(msg); a++ {
					for _, tailKind := range []string{"final-fragment", "empty-final-fragment", "empty-fragment-then-final"} {
						for _, side := range []streams.Side{streams.Server, streams.Client} {
							for _, d := range ds {
								a, tailKind, side, d := a, tailKind, side, d
								t.Do(func() string {
									return fmt.Sprintf("%s text %x | %x (%s) driver=%s", side, msg[:a], msg[a:], tailKind, d.Name)
								}, func() *explore.Fail {
									fr := func(i int, op byte, fin bool, p []byte) streams.Frame {
										return streams.Frame{H: refmodel.Hdr{Fin: fin, Op: op, Masked: side == streams.Server, Mask: streams.Masks[i%3]}, Payload: p}
									}
									frames := []streams.Frame{fr(0, 1, false, msg[:a])}
									switch tailKind {
									case "final-fragment":
										frames = append(frames, fr(1, 0, true, msg[a:]))
									case "empty-final-fragment":
										frames = append(frames, fr(1, 0, false, msg[a:]), fr(2, 0, true, nil))
									default:
										frames = append(frames, fr(1, 0, false, nil), fr(2, 0, true, msg[a:]))
									}
									data, _ := streams.Wire(append(frames, fr(3, 2, true, []byte("next"))))
									var res drivers.Result
									d.Run(env.NewSrc(data), side, drivers.Cfg{CheckUTF8: true}, &res)
									if res.ContractBroken {
										return explore.Failf("Read-count-outside-buffer:"+d.Name, "%v", res.Err)
									}
									t.Outcome("within-buffer")
									return nil
								})
							}
						}
					}
				}
			})
		})

		// Large masked payloads taken in pieces: a first Read of 1..3 bytes (so that the rest
		// starts at an unaligned key position), then the remainder in one buffer that it fills
		// exactly, or in blocks; payload sizes around 4 KiB / 8 KiB / 64 KiB and every residue
		// mod 64. No entry point may panic, and the bytes are the payload.
		r.Part("E7-large-masked-payloads-in-pieces", func(t *explore.T) {
			var sizes []int
			for _, base := range []int{4096, 8192, 65536} {
				for d := -2; d <= 66; d++ {
					sizes = append(sizes, base+d)
				}
			}
			t.Par(len(sizes), func(si int) {
				n := sizes[si]
				payload := make([]byte, n)
				for i := range payload {
					payload[i] = byte(i*13 + i>>9 + 5)
				}
				wire := refmodel.Frame{H: refmodel.Hdr{Fin: true, Op: 2, Masked: true, Mask: [4]byte{0x9a, 0x05, 0xf1, 0x3c}}, Payload: payload}.Wire()
				for first := 0; first <= 3; first++ {
					for _, rest := range []string{"exact-buffer", "blocks-of-4096", "ReadAll"} {
						first, rest := first, rest
						t.Do(func() string { return fmt.Sprintf("masked binary frame of %d bytes: Read(%d) then %s", n, first, rest) }, func() *explore.Fail {
							rd := &wsutil.Reader{Source: env.NewSrc(wire), State: ws.StateServerSide}
							if _, err := rd.NextFrame(); err != nil {
								return explore.Failf("harness-frame", "%v", err)
							}
							got := make([]byte, first, n)
							if _, err := io.ReadFull(rd, got); err != nil {
								return explore.Failf("first-read", "%v", err)
							}
							switch rest {
							case "exact-buffer":
								b := make([]byte, n-first)
								if _, err := io.ReadFull(rd, b); err != nil {
									return explore.Failf("rest-read", "%v", err)
								}
								got = append(got, b...)
							case "blocks-of-4096":
								b := make([]byte, 4096)
								for {
									k, err := rd.Read(b)
									got = append(got, b[:k]...)
									if err != nil {
										break
									}
								}
							default:
								b, _ := io.ReadAll(rd)
								got = append(got, b...)
							}
							if !bytes.Equal(got, payload) {
								return explore.Failf("large-masked-payload-differs", "%d bytes read, first difference at %d", len(got), firstDiffAt(got, payload))
							}
							return nil
						})
					}
				}
			})
			t.Outcome("exact")
		})

		// One masked frame of more than 2^31 bytes, actually delivered, read through the message
		// reader in pieces of 1 MiB after 3 odd bytes (the running offset inside the frame is never a
		// multiple of 4): no panic, every piece unmasked as the formula says (ends of every piece, the
		// pieces around the 2^31 mark in full).
		r.Part("E9-a-frame-longer-than-2^31-bytes", func(t *explore.T) {
			t.Do(func() string {
				return "masked binary frame of 2^31 + 3 MiB bytes through wsutil.Reader, Read(3) then 1 MiB reads"
			}, func() (fail *explore.Fail) {
				defer func() {
					if r := recover(); r != nil {
						fail = explore.Failf("panic:frame-longer-than-2^31", "%v", r)
					}
				}()
				const piece = 1 << 20
				total := int64(1)<<31 + 3*piece
				key := [4]byte{0x9a, 0x05, 0xf1, 0x3c}
				hdr := refmodel.HdrEncode(refmodel.Hdr{Fin: true, Op: 2, Masked: true, Mask: key, Len: uint64(total)})
				block := make([]byte, piece)
				for i := range block {
					block[i] = byte(i*7 + i>>9 + 1)
				}
				src := &bigFrameSrc{hdr: hdr, block: block}
				rd := &wsutil.Reader{Source: src, State: ws.StateServerSide}
				if _, err := rd.NextFrame(); err != nil {
					return explore.Failf("harness-frame", "%v", err)
				}
				buf := make([]byte, piece)
				var off int64
				step := func(n int) *explore.Fail {
					src.reset()
					if _, err := io.ReadFull(rd, buf[:n]); err != nil {
						return explore.Failf("long-frame-read", "at offset %d: %v", off, err)
					}
					full := n < 64 || (off > 1<<31-2*piece && off < 1<<31+2*piece)
					for i := 0; i < n; i++ {
						if !full && i == 64 && n > 128 {
							i = n - 64
						}
						if want := block[i] ^ key[(off+int64(i))%4]; buf[i] != want {
							return explore.Failf("long-frame-byte-wrong", "frame offset %d: got %#x want %#x", off+int64(i), buf[i], want)
						}
					}
					off += int64(n)
					return nil
				}
				if f := step(3); f != nil {
					return f
				}
				for off < total {
					n := piece
					if total-off < piece {
						n = int(total - off)
					}
					if f := step(n); f != nil {
						return f
					}
				}
				return nil
			})
			t.Outcome("ok")
		})

		// Fragmented messages that outgrow what the collecting helpers are willing to reserve up
		// front (1 MiB): whatever the sizes of the fragments before and after that point - a
		// further header arriving when more than the limit has been collected, empty fragments,
		// pings in between - every helper returns the message, no panic.
		r.Part("E8-large-fragmented-messages-through-the-collecting-helpers", func(t *explore.T) {
			const M = 1 << 20
			shapes := [][]int{
				{M + 1, 1, 3}, {M, 0, 1}, {M - 1, 1, 1, 1}, {600 << 10, 600 << 10, 600 << 10}, {1, M, 1, M, 1},
				{M + 1, 0}, {0, M + 1, 0, 1}, {2*M + 5, 7}, {100, 2 * M}, {M / 2, M / 2, M / 2, 1},
			}
			entries := []string{"ReadMessage", "ReadClientMessage", "ReadClientData", "ReadData", "ReadClientBinary", "NextReader+ReadAll", "Reader+io.Copy"}
			t.Par(len(shapes), func(si int) {
				shape := shapes[si]
				var payload, wire []byte
				for fi, n := range shape {
					part := make([]byte, n)
					for i := range part {
						part[i] = byte(i*7 + i>>10 + fi + 1)
					}
					payload = append(payload, part...)
					op := byte(0)
					if fi == 0 {
						op = 2
					}
					wire = append(wire, refmodel.Frame{H: refmodel.Hdr{Fin: fi == len(shape)-1, Op: op, Masked: true, Mask: [4]byte{0x11, 0x22, 0x33, byte(fi)}}, Payload: part}.Wire()...)
					if fi%2 == 0 && fi != len(shape)-1 {
						wire = append(wire, refmodel.Frame{H: refmodel.Hdr{Fin: true, Op: 9, Masked: true, Mask: [4]byte{9, 9, 9, 9}}, Payload: []byte("pi")}.Wire()...)
					}
				}
				for _, entry := range entries {
					for _, chunk := range []int{0, 65536} {
						entry, chunk := entry, chunk
						t.Do(func() string {
							return fmt.Sprintf("masked binary message in fragments of %v bytes (a ping behind every other one) through %s, transport chunk=%d", shape, entry, chunk)
						}, func() (fail *explore.Fail) {
							defer func() {
								if r := recover(); r != nil {
									fail = explore.Failf("panic:"+entry, "%v", r)
								}
							}()
							src := env.NewSrc(wire)
							src.Policy = env.FixedChunk(chunk)
							rw := env.RW{Reader: src, Writer: io.Discard}
							var got []byte
							var err error
							switch entry {
							case "ReadMessage":
								var ms []wsutil.Message
								for err == nil && (len(ms) == 0 || ms[len(ms)-1].OpCode.IsControl()) {
									ms, err = wsutil.ReadMessage(src, ws.StateServerSide, ms)
								}
								if err == nil {
									got = ms[len(ms)-1].Payload
								}
							case "ReadClientMessage":
								var ms []wsutil.Message
								for err == nil && (len(ms) == 0 || ms[len(ms)-1].OpCode.IsControl()) {
									ms, err = wsutil.ReadClientMessage(src, ms)
								}
								if err == nil {
									got = ms[len(ms)-1].Payload
								}
							case "ReadClientData":
								got, _, err = wsutil.ReadClientData(rw)
							case "ReadData":
								got, _, err = wsutil.ReadData(rw, ws.StateServerSide)
							case "ReadClientBinary":
								got, err = wsutil.ReadClientBinary(rw)
							case "NextReader+ReadAll":
								var rd io.Reader
								_, rd, err = wsutil.NextReader(src, ws.StateServerSide)
								if err == nil {
									got, err = io.ReadAll(rd)
								}
							default:
								rd := &wsutil.Reader{Source: src, State: ws.StateServerSide, OnIntermediate: func(h ws.Header, r io.Reader) error {
									_, e := io.Copy(io.Discard, r)
									return e
								}}
								if _, err = rd.NextFrame(); err == nil {
									var b bytes.Buffer
									_, err = io.Copy(&b, rd)
									got = b.Bytes()
								}
							}
							if err != nil {
								return explore.Failf("large-fragmented-message-refused:"+entry, "%v", err)
							}
							if !bytes.Equal(got, payload) {
								return explore.Failf("large-fragmented-message-differs:"+entry, "%d bytes returned of %d, first difference at %d", len(got), len(payload), firstDiffAt(got, payload))
							}
							return nil
						})
					}
				}
			})
			t.Outcome("exact")
		})
	})
}

// bigFrameSrc delivers a frame header and then, for every read the harness asks for, a prefix of
// the same block (an endless payload without the memory).
type bigFrameSrc struct {
	hdr   []byte
	off   int
	block []byte
	pos   int
}

func (s *bigFrameSrc) reset() { s.pos = 0 }

func (s *bigFrameSrc) Read(p []byte) (int, error) {
	if s.off < len(s.hdr) {
		n := copy(p, s.hdr[s.off:])
		s.off += n
		return n, nil
	}
	n := copy(p, s.block[s.pos:])
	s.pos += n
	return n, nil
}

// optionCase feeds one option string to every consumer of extension / subprotocol header values.
func optionCase(s []byte) *explore.Fail {
	var sig, detail string
	func() {
		defer func() {
			if r := recover(); r != nil {
				sig, detail = "panic:option-string", fmt.Sprintf("%v", r)
			}
		}()
		// direct: header parser -> parameters / negotiator
		opts, _ := httphead.ParseOptions(s, nil)
		for _, o := range opts {
			var p wsflate.Parameters
			p.Parse(o)
			e := &wsflate.Extension{Parameters: wsflate.DefaultParameters}
			e.Negotiate(o)
			o2 := httphead.Option{Name: []byte("permessage-deflate"), Parameters: o.Parameters}
			e.Negotiate(o2)
		}
		httphead.ScanTokens(s, func([]byte) bool { return true })
	}()
	if sig != "" {
		return explore.Failf(sig, "%s", detail)
	}
	// as header values of a request and of a response
	if bytes.IndexByte(s, 0) < 0 || true {
		req := []byte("GET / HTTP/1.1\r\nHost: h\r\nUpgrade: websocket\r\nConnection: Upgrade\r\nSec-WebSocket-Version: 13\r\nSec-WebSocket-Key: " + hs.CanonKey +
			"\r\nSec-WebSocket-Protocol: " + string(s) + "\r\nSec-WebSocket-Extensions: " + string(s) + "\r\nSec-WebSocket-Extensions: permessage-deflate; " + string(s) + "\r\n\r\n")
		if sig, d := hostileUpgrade(req, 0); sig != "" {
			return explore.Failf(sig, "%s", d)
		}
		if sig, d := hostileUpgradeSelector(req); sig != "" {
			return explore.Failf(sig, "%s", d)
		}
		if sig, d := hostileHTTPUpgrade(req); sig != "" {
			return explore.Failf(sig, "%s", d)
		}
		resp := []byte("HTTP/1.1 101 Switching Protocols\r\nUpgrade: websocket\r\nConnection: Upgrade\r\nSec-WebSocket-Accept: " + hs.Accept(hs.CanonKey) +
			"\r\nSec-WebSocket-Protocol: " + string(s) + "\r\nSec-WebSocket-Extensions: " + string(s) + "\r\n\r\n")
		if sig, d := hostileDial(resp, 0); sig != "" {
			return explore.Failf(sig, "%s", d)
		}
	}
	return nil
}

// handshakeCase feeds one hostile request / response to every handshake entry point.
func handshakeCase(kind string, data []byte) *explore.Fail {
	if kind == "request" {
		for _, bs := range []int{0, 16} {
			if sig, d := hostileUpgrade(data, bs); sig != "" {
				return explore.Failf(sig, "%s\ninput %q", d, data)
			}
		}
		if sig, d := hostileUpgradeSelector(data); sig != "" {
			return explore.Failf(sig, "%s\ninput %q", d, data)
		}
		if sig, d := hostileHTTPUpgrade(data); sig != "" {
			return explore.Failf(sig, "%s\ninput %q", d, data)
		}
		return nil
	}
	for _, bs := range []int{0, 16} {
		if sig, d := hostileDial(data, bs); sig != "" {
			return explore.Failf(sig, "%s\ninput %q", d, data)
		}
	}
	return nil
}

func firstLines(s string, n int) string {
	l := strings.Split(s, "\n")
	if len(l) > n {
		l = l[:n]
	}
	return strings.Join(l, "\n")
}

func firstDiffAt(a, b []byte) int {
	for i := 0; i < len(a) && i < len(b); i++ {
		if a[i] != b[i] {
			return i
		}
	}
	if len(a) < len(b) {
		return len(a)
	}
	return len(b)
}
