// C09: the server handshake succeeds only for compliant requests and answers correctly.
package main

import (
	"bytes"
	"fmt"
	"github.com/gobwas/httphead"
	"io"
	"strings"
	"time"
	"verifmc/env"

	"github.com/gobwas/ws"

	"verifmc/explore"
	"verifmc/hs"
)

func enumCfg(k int) []hs.SrvCfg {
	var out []hs.SrvCfg
	hs.EnumReq(hs.SrvFields, k, func(r hs.Req) { out = append(out, hs.SrvCfg(r)) })
	return out
}

func main() {
	explore.Main("C09", func(r *explore.Run) {
		kReq := r.Pick(2, 3)
		kCfg := 2
		var reqs []hs.Req
		hs.EnumReq(hs.ReqFields, kReq, func(q hs.Req) { reqs = append(reqs, q) })
		cfgs := enumCfg(kCfg)
		r.Part("E1-Upgrader", func(t *explore.T) {
			t.Bound(kReq)
			t.Par(len(reqs), func(i int) {
				q := reqs[i]
				data := q.Build()
				for _, c := range cfgs {
					c := c
					t.Do(func() string { return fmt.Sprintf("request{%s} config{%s}", q, c) }, func() *explore.Fail {
						out, hsk, err := hs.RunUpgrader(c.Upgrader(), bytes.NewReader(data))
						sig, detail := hs.JudgeServer(q, c, out, hsk, err, "Upgrader")
						if sig != "" {
							return explore.Failf(sig, "%s\nrequest:\n%s", detail, data)
						}
						if c.String() == "default" {
							// the package-level entry point on the default upgrader
							var buf bytes.Buffer
							hsk2, err2 := ws.Upgrade(struct {
								io.Reader
								io.Writer
							}{bytes.NewReader(data), &buf})
							if sig, detail := hs.JudgeServer(q, c, buf.Bytes(), hsk2, err2, "ws.Upgrade"); sig != "" {
								return explore.Failf(sig, "%s\nrequest:\n%s", detail, data)
							}
						}
						t.Outcome(detail)
						return nil
					})
				}
			})
			t.Note(fmt.Sprintf("request grammar of 13 fields, every request with <=%d non-canonical fields (%d requests) x every configuration with <=%d configured dimensions (%d)", kReq, len(reqs), kCfg, len(cfgs)))
		})
		r.Part("E2-HTTPUpgrader", func(t *explore.T) {
			t.Bound(kReq)
			t.Par(len(reqs), func(i int) {
				q := reqs[i]
				data := q.Build()
				for _, c := range cfgs {
					u, ok := c.HTTPUpgrader()
					if !ok {
						continue
					}
					c := c
					t.Do(func() string { return fmt.Sprintf("request{%s} config{%s}", q, c) }, func() *explore.Fail {
						out, hsk, err, skipped := hs.RunHTTPUpgrader(u, data)
						if skipped {
							t.Outcome("refused-by-net/http")
							return nil
						}
						sig, detail := hs.JudgeServer(q, c, out, hsk, err, "HTTPUpgrader")
						if sig != "" {
							return explore.Failf(sig, "%s\nrequest:\n%s", detail, data)
						}
						if c.String() == "default" {
							out2, hsk2, err2, _ := hs.RunUpgradeHTTP(data)
							if sig, detail := hs.JudgeServer(q, c, out2, hsk2, err2, "ws.UpgradeHTTP"); sig != "" {
								return explore.Failf(sig, "%s\nrequest:\n%s", detail, data)
							}
						}
						t.Outcome(detail)
						return nil
					})
				}
			})
		})

		// A transport error that calls itself temporary after every number of request bytes, the
		// connection delivering the rest afterwards. The upgrader may give up (an error, and no
		// 101) or carry on - then the outcome is the one of the undisturbed request. It never
		// upgrades a request it refuses undisturbed, and never answers a request it accepts
		// undisturbed with an HTTP error of its own making.
		r.Part("E3-transient-read-error-at-every-offset", func(t *explore.T) {
			base := "GET /chat HTTP/1.1\r\nHost: example.com\r\nUpgrade: websocket\r\nConnection: Upgrade\r\n"
			key := "Sec-WebSocket-Key: " + hs.CanonKey + "\r\n"
			ver := "Sec-WebSocket-Version: 13\r\n"
			reqs := map[string]string{
				"compliant":                      base + key + ver + "Sec-WebSocket-Protocol: a, b\r\n\r\n",
				"key only inside another header": base + "X-Note: " + key + ver + "\r\n",
				"version only inside another":    base + key + "X-Note: " + ver + "\r\n",
				"upgrade value inside another":   "GET /chat HTTP/1.1\r\nHost: example.com\r\nX-Note: Upgrade: websocket\r\nConnection: Upgrade\r\n" + key + ver + "\r\n",
				"wrong version":                  base + key + "Sec-WebSocket-Version: 12\r\n\r\n",
			}
			run := func(data []byte, at int, timeout bool, bufSize int) (out []byte, err error) {
				src := env.NewSrc(data)
				if at >= 0 {
					src.HiccupAt, src.HiccupErr = at, env.TempErr{IsTimeout: timeout}
				}
				u := ws.Upgrader{ReadBufferSize: bufSize, Protocol: func(b []byte) bool { return string(b) == "b" }}
				out, _, err = hs.RunUpgrader(u, src)
				return
			}
			for name, req := range reqs {
				data := []byte(req)
				for _, bufSize := range []int{0, 32} {
					out0, err0 := run(data, -1, false, bufSize)
					for at := 0; at <= len(data); at++ {
						for _, timeout := range []bool{false, true} {
							name, at, timeout, bufSize := name, at, timeout, bufSize
							t.Do(func() string {
								return fmt.Sprintf("request %q, read buffer %d, temporary error (timeout=%v) after %d of %d bytes", name, bufSize, timeout, at, len(data))
							}, func() *explore.Fail {
								out, err := run(data, at, timeout, bufSize)
								upgraded := bytes.Contains(out, []byte(" 101 "))
								if err0 != nil && (err == nil || upgraded) {
									return explore.Failf("refused-request-upgraded-after-transient-error", "undisturbed: err=%v; disturbed: err=%v wrote %q", err0, err, out)
								}
								if err0 == nil && err == nil && !bytes.Equal(out, out0) {
									return explore.Failf("response-differs-after-transient-error", "wrote %q, undisturbed %q", out, out0)
								}
								if err0 == nil && err != nil && len(out) != 0 && !upgraded {
									return explore.Failf("accepted-request-answered-with-http-error-after-transient-error", "err=%v wrote %q", err, out)
								}
								if err != nil && upgraded {
									return explore.Failf("101-written-on-failure", "err=%v wrote %q", err, out)
								}
								if err == nil {
									t.Outcome("carried-on")
								} else {
									t.Outcome("gave-up")
								}
								return nil
							})
						}
					}
				}
			}
		})

		// Lists of every length: n subprotocols of which the selector wants the last, n extension
		// offers all of which are accepted (n = 1..24, in one header line or one line each),
		// through every selection path: the response names exactly the chosen protocol and all n
		// extensions with their parameters, and so does the returned handshake.
		// HTTPUpgrader.Timeout "is the maximum amount of time an Upgrade() will spent while writing
		// handshake response": the user's callbacks (selectors, negotiators - which may look things
		// up) run with no deadline armed on the hijacked connection; the deadline is armed before the
		// first write of the response and gone when Upgrade returns. Order of events, no clock.
		r.Part("E5-HTTPUpgrader-timeout-covers-the-response-write-only", func(t *explore.T) {
			for _, timeout := range []time.Duration{0, time.Second} {
				for _, withExt := range []bool{false, true} {
					for _, refuse := range []bool{false, true} {
						timeout, withExt, refuse := timeout, withExt, refuse
						t.Do(func() string {
							return fmt.Sprintf("HTTPUpgrader Timeout=%v, request with protocols%s, callback refusing=%v", timeout, map[bool]string{true: " and extensions", false: ""}[withExt], refuse)
						}, func() *explore.Fail {
							var events []string
							u := ws.HTTPUpgrader{Timeout: timeout,
								Protocol: func(p string) bool { events = append(events, "callback:Protocol"); return p == "b" },
								Negotiate: func(o httphead.Option) (httphead.Option, error) {
									events = append(events, "callback:Negotiate")
									if refuse {
										return httphead.Option{}, hs.ErrCallback
									}
									return o.Clone(), nil
								}}
							req := "GET /chat HTTP/1.1\r\nHost: example.com\r\nUpgrade: websocket\r\nConnection: Upgrade\r\nSec-WebSocket-Key: " + hs.CanonKey + "\r\nSec-WebSocket-Version: 13\r\nSec-WebSocket-Protocol: a, b\r\n"
							if withExt {
								req += "Sec-WebSocket-Extensions: x, y; q=1\r\n"
							}
							out, _, err := hs.RunHTTPUpgraderEvents(u, []byte(req+"\r\n"), &events)
							wantOK := !(refuse && withExt)
							if (err == nil) != wantOK || len(out) == 0 {
								return explore.Failf("harness-outcome", "err=%v out=%q", err, out)
							}
							armed := false
							wrote := false
							for _, e := range events {
								switch {
								case strings.HasSuffix(e, "(armed)"):
									armed = true
								case strings.HasSuffix(e, "(none)"):
									armed = false
								case strings.HasPrefix(e, "callback:"):
									if armed {
										return explore.Failf("callback-runs-under-the-response-write-deadline", "events: %v", events)
									}
								case e == "write":
									wrote = true
									if timeout != 0 && !armed {
										return explore.Failf("response-written-without-the-configured-deadline", "events: %v", events)
									}
								}
							}
							if !wrote {
								return explore.Failf("harness-no-write", "%v", events)
							}
							if armed {
								return explore.Failf("deadline-left-armed-after-Upgrade", "events: %v", events)
							}
							return nil
						})
					}
				}
			}
			t.Outcome("ordered")
		})

		r.Part("E4-protocol-and-extension-lists-of-every-length", func(t *explore.T) {
			for n := 1; n <= 24; n++ {
				for _, split := range []bool{false, true} {
					for _, path := range []string{"Protocol+Extension", "ProtocolCustom+ExtensionCustom", "Protocol+Negotiate", "HTTPUpgrader"} {
						n, split, path := n, split, path
						t.Do(func() string {
							return fmt.Sprintf("%d protocols and %d extensions (one line each: %v) through %s", n, n, split, path)
						}, func() *explore.Fail {
							var protos, exts []string
							for i := 0; i < n; i++ {
								protos = append(protos, fmt.Sprintf("proto%02d", i))
								exts = append(exts, fmt.Sprintf("ext%02d; p=%d", i, i))
							}
							want := protos[n-1]
							var b strings.Builder
							b.WriteString("GET /chat HTTP/1.1\r\nHost: example.com\r\nUpgrade: websocket\r\nConnection: Upgrade\r\nSec-WebSocket-Key: " + hs.CanonKey + "\r\nSec-WebSocket-Version: 13\r\n")
							if split {
								for i := 0; i < n; i++ {
									b.WriteString("Sec-WebSocket-Protocol: " + protos[i] + "\r\nSec-WebSocket-Extensions: " + exts[i] + "\r\n")
								}
							} else {
								b.WriteString("Sec-WebSocket-Protocol: " + strings.Join(protos, ", ") + "\r\nSec-WebSocket-Extensions: " + strings.Join(exts, ", ") + "\r\n")
							}
							b.WriteString("\r\n")
							var out []byte
							var hsk ws.Handshake
							var err error
							switch path {
							case "HTTPUpgrader":
								u := ws.HTTPUpgrader{Protocol: func(s string) bool { return s == want }, Extension: func(httphead.Option) bool { return true }}
								var skipped bool
								out, hsk, err, skipped = hs.RunHTTPUpgrader(u, []byte(b.String()))
								if skipped {
									return nil
								}
							default:
								u := ws.Upgrader{}
								switch path {
								case "Protocol+Extension":
									u.Protocol = func(p []byte) bool { return string(p) == want }
									u.Extension = func(httphead.Option) bool { return true }
								case "Protocol+Negotiate":
									u.Protocol = func(p []byte) bool { return string(p) == want }
									u.Negotiate = func(o httphead.Option) (httphead.Option, error) { return o.Clone(), nil }
								default:
									u.ProtocolCustom = func(v []byte) (string, bool) {
										sel := ""
										ok := httphead.ScanTokens(v, func(tok []byte) bool {
											if string(tok) == want {
												sel = want
												return false
											}
											return true
										})
										return sel, ok
									}
									u.ExtensionCustom = func(v []byte, dst []httphead.Option) ([]httphead.Option, bool) {
										return (httphead.OptionSelector{Flags: httphead.SelectCopy}).Select(v, dst)
									}
								}
								out, hsk, err = hs.RunUpgrader(u, strings.NewReader(b.String()))
							}
							if err != nil {
								return explore.Failf("refuses-compliant:"+path, "%v", err)
							}
							if hsk.Protocol != want {
								return explore.Failf("protocol-selection:"+path, "returned %q want %q", hsk.Protocol, want)
							}
							var got []string
							for _, o := range hsk.Extensions {
								p, _ := o.Parameters.Get("p")
								got = append(got, string(o.Name)+"; p="+string(p))
							}
							if strings.Join(got, ", ") != strings.Join(exts, ", ") {
								return explore.Failf("extension-selection:"+path, "returned %v want %v", got, exts)
							}
							h := hs.ParseHead(out)
							var sent []string
							for _, v := range h.Get("Sec-WebSocket-Extensions") {
								for _, x := range strings.Split(v, ",") {
									sent = append(sent, strings.Join(strings.Fields(strings.ReplaceAll(x, ";", "; ")), " "))
								}
							}
							if g := h.Get("Sec-WebSocket-Protocol"); len(g) != 1 || g[0] != want || h.Status() != 101 {
								return explore.Failf("response-protocol:"+path, "%v", g)
							}
							if strings.Join(sent, ", ") != strings.Join(exts, ", ") {
								return explore.Failf("response-extensions:"+path, "sent %v want %v", sent, exts)
							}
							return nil
						})
					}
				}
			}
			t.Outcome("exact")
		})
	})
}
