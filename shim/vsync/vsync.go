// Package vsync is the sync.Pool stand-in compiled into the harness copy of
// github.com/gobwas/pool (see /verif/setup.sh). It is the single seam through which every
// pooled object of gobwas/ws (pbytes, pbufio, wsutil.writers) passes.
//
// Modes:
//
//	Passthrough  real sync.Pool behaviour (default; used by all sequential properties)
//	Fresh        Get always allocates, Put drops: the reference world with no sharing
//	LIFO         deterministic free list: every Put is handed to the next Get
//	LIFOPoison   LIFO, and Put scribbles 0xDD over []byte contents / buffers first
//
// Hook, when set, is called before and after each Get/Put: the scheduling points of the
// controlled scheduler (C19).
package vsync

import (
	"fmt"
	"reflect"
	"sync"
	"sync/atomic"
	"unsafe"
)

type Mode int32

const (
	Passthrough Mode = iota
	Fresh
	LIFO
	LIFOPoison
	// FreshPoison: Get always allocates, Put scribbles 0xDD over the object and drops it.
	// No object is ever shared, so parallel harness workers cannot disturb each other, and any
	// use of a buffer after its Put reads poison deterministically. This is the default of the
	// sequential property binaries.
	FreshPoison
)

var (
	mu    sync.Mutex
	mode  Mode
	pools []*Pool

	// Hook is called at every pool operation when non-nil (phase: "pre"/"post").
	Hook func(phase, op string, p *Pool, x interface{})

	// Stats.
	Gets, Puts, Reuses int64
)

// Pool mirrors the API surface of sync.Pool used by gobwas/pool.
type Pool struct {
	recent   []interface{} // last objects put in the non-recycling modes (double-put detection)
	recentAt int
	New      func() interface{}

	real       sync.Pool
	free       []interface{}
	registered bool
	ID         int
}

func SetMode(m Mode) {
	mu.Lock()
	mode = m
	mu.Unlock()
}

func GetMode() Mode {
	mu.Lock()
	defer mu.Unlock()
	return mode
}

// ResetAll empties every free list (between executions).
func ResetAll() {
	mu.Lock()
	for _, p := range pools {
		p.free = nil
		p.recent, p.recentAt = nil, 0
	}
	Gets, Puts, Reuses = 0, 0, 0
	mu.Unlock()
}

// Snapshot returns for every pool the identities of the objects on its free list
// (used in state keys).
func Snapshot() [][]uintptr {
	mu.Lock()
	defer mu.Unlock()
	out := make([][]uintptr, len(pools))
	for i, p := range pools {
		for _, x := range p.free {
			out[i] = append(out[i], ident(x))
		}
	}
	return out
}

// FreeObjects returns the live free-list objects of every pool.
func FreeObjects() [][]interface{} {
	mu.Lock()
	defer mu.Unlock()
	out := make([][]interface{}, len(pools))
	for i, p := range pools {
		out[i] = append([]interface{}(nil), p.free...)
	}
	return out
}

func ident(x interface{}) uintptr {
	v := reflect.ValueOf(x)
	switch v.Kind() {
	case reflect.Ptr, reflect.Slice, reflect.UnsafePointer, reflect.Map, reflect.Chan, reflect.Func:
		return v.Pointer()
	}
	return 0
}

func (p *Pool) register() {
	if !p.registered {
		p.registered = true
		p.ID = len(pools)
		pools = append(pools, p)
	}
}

func (p *Pool) Get() interface{} {
	if h := Hook; h != nil {
		h("pre", "get", p, nil)
	}
	mu.Lock()
	m := mode
	p.register()
	Gets++
	var x interface{}
	switch m {
	case Passthrough:
		mu.Unlock()
		x = p.real.Get()
		if x == nil && p.New != nil {
			x = p.New()
		}
		if h := Hook; h != nil {
			h("post", "get", p, x)
		}
		return x
	case Fresh, FreshPoison:
		// always allocate
	default:
		if n := len(p.free); n > 0 {
			x = p.free[n-1]
			p.free = p.free[:n-1]
			Reuses++
		}
	}
	mu.Unlock()
	if x == nil && p.New != nil {
		x = p.New()
	}
	if h := Hook; h != nil {
		h("post", "get", p, x)
	}
	return x
}

// DoublePuts counts Put calls for an object that already sits in its pool (in the free list,
// or - in the modes that never hand objects out again - among the last 32 objects put): two
// later Gets would hand the same object to two owners. DoublePutNote describes the last one.
var (
	DoublePuts    int64
	DoublePutNote string
)

// TakeDoublePut reports (and forgets) a double Put seen since the last call.
func TakeDoublePut() (string, bool) {
	if atomic.LoadInt64(&DoublePuts) == 0 {
		return "", false
	}
	mu.Lock()
	note := DoublePutNote
	atomic.StoreInt64(&DoublePuts, 0)
	mu.Unlock()
	return note, true
}

func (p *Pool) noteDoublePut(x interface{}) {
	id := ident(x)
	if id == 0 || reflect.ValueOf(x).Kind() != reflect.Ptr {
		return
	}
	seen := false
	for _, y := range p.free {
		if ident(y) == id {
			seen = true
		}
	}
	for _, y := range p.recent {
		if y != nil && ident(y) == id {
			seen = true
		}
	}
	if seen {
		atomic.AddInt64(&DoublePuts, 1)
		DoublePutNote = fmt.Sprintf("%T put into its pool while it is already there", x)
	}
	if mode == Fresh || mode == FreshPoison {
		// keep the object alive so that its address cannot be handed to a new object
		if len(p.recent) < 32 {
			p.recent = append(p.recent, x)
		} else {
			p.recent[p.recentAt%32] = x
			p.recentAt++
		}
	}
}

func (p *Pool) Put(x interface{}) {
	if h := Hook; h != nil {
		h("pre", "put", p, x)
	}
	mu.Lock()
	m := mode
	p.register()
	Puts++
	if m != Passthrough {
		p.noteDoublePut(x)
	}
	switch m {
	case Passthrough:
		mu.Unlock()
		p.real.Put(x)
	case Fresh:
		mu.Unlock()
	case FreshPoison:
		mu.Unlock()
		Poison(x)
	case LIFO:
		p.free = append(p.free, x)
		mu.Unlock()
	case LIFOPoison:
		Poison(x)
		p.free = append(p.free, x)
		mu.Unlock()
	}
	if h := Hook; h != nil {
		h("post", "put", p, x)
	}
}

// Poison overwrites the byte storage reachable from a pooled object with 0xDD: a []byte up
// to its capacity; for a pointer to struct every []byte field (bufio.Reader.buf,
// bufio.Writer.buf, wsutil.Writer.raw).
func Poison(x interface{}) {
	v := reflect.ValueOf(x)
	switch v.Kind() {
	case reflect.Slice:
		if v.Type().Elem().Kind() == reflect.Uint8 {
			b := v.Bytes()
			b = b[:cap(b)]
			for i := range b {
				b[i] = 0xDD
			}
		}
	case reflect.Ptr:
		e := v.Elem()
		if e.Kind() != reflect.Struct {
			return
		}
		for i := 0; i < e.NumField(); i++ {
			f := e.Field(i)
			if f.Kind() == reflect.Slice && f.Type().Elem().Kind() == reflect.Uint8 {
				b := *(*[]byte)(unsafe.Pointer(f.UnsafeAddr()))
				b = b[:cap(b)]
				for j := range b {
					b[j] = 0xDD
				}
			}
		}
	}
}

// Bytes returns the byte storage reachable from a pooled object (for state digests).
func Bytes(x interface{}) [][]byte {
	var out [][]byte
	v := reflect.ValueOf(x)
	switch v.Kind() {
	case reflect.Slice:
		if v.Type().Elem().Kind() == reflect.Uint8 {
			b := v.Bytes()
			out = append(out, b[:cap(b)])
		}
	case reflect.Ptr:
		e := v.Elem()
		if e.Kind() != reflect.Struct {
			return nil
		}
		for i := 0; i < e.NumField(); i++ {
			f := e.Field(i)
			if f.Kind() == reflect.Slice && f.Type().Elem().Kind() == reflect.Uint8 {
				b := *(*[]byte)(unsafe.Pointer(f.UnsafeAddr()))
				out = append(out, b[:cap(b)])
			}
		}
	}
	return out
}
