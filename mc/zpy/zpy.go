// Package zpy talks to tools/zcodec.py: python's zlib as a second, foreign DEFLATE codec.
package zpy

import (
	"bufio"
	"encoding/hex"
	"errors"
	"fmt"
	"io"
	"os"
	"os/exec"
	"path/filepath"
	"strconv"
	"strings"
	"sync"
)

type proc struct {
	cmd *exec.Cmd
	in  io.WriteCloser
	out *bufio.Reader
}

var (
	mu    sync.Mutex
	idle  []*proc
	Avail = true
	once  sync.Once
)

func script() string {
	d := os.Getenv("VERIF_DIR")
	if d == "" {
		d = "/verif"
	}
	return filepath.Join(d, "tools", "zcodec.py")
}

func start() (*proc, error) {
	cmd := exec.Command("python3", script())
	in, err := cmd.StdinPipe()
	if err != nil {
		return nil, err
	}
	out, err := cmd.StdoutPipe()
	if err != nil {
		return nil, err
	}
	if err := cmd.Start(); err != nil {
		return nil, err
	}
	return &proc{cmd, in, bufio.NewReaderSize(out, 1<<20)}, nil
}

// Available reports whether python3 + zlib can be used.
func Available() bool {
	once.Do(func() {
		p, err := start()
		if err != nil {
			Avail = false
			return
		}
		if _, err := p.call("PING"); err != nil {
			Avail = false
			return
		}
		put(p)
	})
	return Avail
}

func get() (*proc, error) {
	mu.Lock()
	if n := len(idle); n > 0 {
		p := idle[n-1]
		idle = idle[:n-1]
		mu.Unlock()
		return p, nil
	}
	mu.Unlock()
	return start()
}

func put(p *proc) {
	mu.Lock()
	idle = append(idle, p)
	mu.Unlock()
}

func (p *proc) call(line string) (string, error) {
	if _, err := io.WriteString(p.in, line+"\n"); err != nil {
		return "", err
	}
	resp, err := p.out.ReadString('\n')
	if err != nil {
		return "", err
	}
	resp = strings.TrimSpace(resp)
	if strings.HasPrefix(resp, "ERR") {
		return "", errors.New("zlib: " + strings.TrimPrefix(resp, "ERR "))
	}
	return strings.TrimSpace(strings.TrimPrefix(resp, "OK")), nil
}

// Inflate raw-inflates data with python zlib; unused = bytes left after a final block.
func Inflate(data []byte) (out []byte, unused int, err error) {
	p, err := get()
	if err != nil {
		return nil, 0, err
	}
	resp, err := p.call("I " + hex.EncodeToString(data))
	put(p)
	if err != nil {
		return nil, 0, err
	}
	f := strings.Split(resp, " ")
	if len(f) == 1 {
		// empty output: "OK  <unused>" collapses
		u, _ := strconv.Atoi(f[0])
		return nil, u, nil
	}
	out, err = hex.DecodeString(f[0])
	if err != nil {
		return nil, 0, fmt.Errorf("zpy: bad hex: %v", err)
	}
	unused, _ = strconv.Atoi(f[1])
	return out, unused, nil
}

// Deflate raw-deflates parts with a sync flush after each part (tail NOT removed).
func Deflate(level int, parts [][]byte) ([]byte, error) {
	p, err := get()
	if err != nil {
		return nil, err
	}
	var hs []string
	for _, q := range parts {
		hs = append(hs, hex.EncodeToString(q))
	}
	resp, err := p.call(fmt.Sprintf("D %d %s", level, strings.Join(hs, ",")))
	put(p)
	if err != nil {
		return nil, err
	}
	return hex.DecodeString(resp)
}
