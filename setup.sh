#!/bin/bash
# Offline setup: build poolcopy from the module cache, warm the build cache.
set -euo pipefail
cd "$(dirname "$0")"
export GOFLAGS=-mod=mod GOPROXY=off GOSUMDB=off GOTOOLCHAIN=local
export GOCACHE=/verif/.gocache
REPO=${VERIF_REPO:-/repo}
ver=$(awk '$1=="github.com/gobwas/pool"{print $2}' "$REPO/go.mod")
src="$(go env GOMODCACHE)/github.com/gobwas/pool@${ver}"
[ -d "$src" ] || { echo "setup: pool module $src not in module cache" >&2; exit 2; }
rm -rf poolcopy
mkdir -p poolcopy
cp -r "$src"/. poolcopy/
chmod -R u+w poolcopy
find poolcopy -name '*_test.go' -delete
cat > poolcopy/go.mod <<EOM
module github.com/gobwas/pool

go 1.16

require verifshim v0.0.0
EOM
grep -q '"sync"' poolcopy/generic.go || { echo "setup: generic.go has no sync import" >&2; exit 2; }
sed -i 's#^\t"sync"$#\tsync "verifshim/vsync"#' poolcopy/generic.go
grep -q 'verifshim/vsync' poolcopy/generic.go || { echo "setup: import rewrite failed" >&2; exit 2; }
cp "$REPO/go.sum" mc/go.sum
mkdir -p .build/bin evidence/replays
if [ "${1:-}" != "--nowarm" ]; then
  (cd mc && go build ./... ) 
  for c in mc/cmd/c*; do
    [ -d "$c" ] || continue
    ./vcheck "$(basename "$c" | tr c C)" --build-only >/dev/null
  done
fi
echo "setup ok"
