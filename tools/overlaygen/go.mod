module overlaygen

go 1.23
