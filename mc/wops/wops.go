// Package wops drives wsutil.Writer with operation histories and judges what reaches the
// destination with a frame-stream parser plus a byte accumulator (C06, C16, C18).
package wops

import (
	"bytes"
	"fmt"
	"io"
	"sync"

	"github.com/gobwas/ws"
	"github.com/gobwas/ws/wsutil"

	"verifmc/drivers"
	"verifmc/env"
	"verifmc/explore"
)

// Cfg is a writer configuration.
type Cfg struct {
	Ctor    string // NewWriter, NewWriterSize, NewWriterBufferSize, NewWriterBuffer, GetWriter
	N       int
	Client  bool
	NoFlush bool
	Ext     bool
	OpCode  ws.OpCode
}

func (c Cfg) String() string {
	side := "server"
	if c.Client {
		side = "client"
	}
	return fmt.Sprintf("%s(%d) %s noflush=%v ext=%v op=%x", c.Ctor, c.N, side, c.NoFlush, c.Ext, byte(c.OpCode))
}

// State is the state value handed to the constructor: the side, plus the further bits a
// caller's connection state carries (an extension is negotiated; a fragmented message is
// being received). Only the side may matter to a writer.
func (c Cfg) State() ws.State {
	st := ws.StateServerSide
	if c.Client {
		st = ws.StateClientSide
	}
	if c.Ext {
		st |= ws.StateExtended
	}
	if c.NoFlush {
		st |= ws.StateFragmented
	}
	return st
}

// Rsv1First is the test extension: RSV1 on the first frame of every data message. Like the
// permessage-deflate message state it refuses a header whose bit is already taken (it owns the bit).
var Rsv1First = wsutil.SendExtensionFunc(func(h ws.Header) (ws.Header, error) {
	if h.Rsv&4 != 0 {
		return h, ErrBitTaken
	}
	if h.OpCode != ws.OpContinuation && !h.OpCode.IsControl() {
		h.Rsv |= 4
	}
	return h, nil
})

// ErrBitTaken is Rsv1First's refusal.
var ErrBitTaken = fmt.Errorf("wops: RSV1 is already set in the header given to the extension")

var buildMu sync.RWMutex

// ArenaIntact: for a writer built over the front part of a larger array (constructor
// "NewWriterBuffer/spare-cap"), the part of that array behind the buffer it was given belongs
// to the application (other slices of the same arena live there) and has to keep its 0xCC
// fill. The arena travels in the destination's Aux field.
func ArenaIntact(d *env.Dst) (bool, int) {
	arena, ok := d.Aux.([]byte)
	if !ok {
		return true, -1
	}
	for i, b := range arena {
		if b != 0xCC {
			return false, i
		}
	}
	return true, -1
}

// Build constructs the writer; ok=false when the constructor panics (buffer too small:
// documented behaviour, the configuration is skipped).
func Build(c Cfg, dst io.Writer) (w *wsutil.Writer, ok bool) {
	defer func() {
		if e := recover(); e != nil {
			w, ok = nil, false
		}
	}()
	st := c.State()
	if c.Ctor == "NewWriter/DefaultWriteBuffer" {
		// the package-level default is the application's to set before it makes writers
		buildMu.Lock()
		defer buildMu.Unlock()
		saved := wsutil.DefaultWriteBuffer
		wsutil.DefaultWriteBuffer = c.N
		defer func() { wsutil.DefaultWriteBuffer = saved }()
		w = wsutil.NewWriter(dst, st, c.OpCode)
		Configure(w, c)
		return w, true
	}
	buildMu.RLock()
	defer buildMu.RUnlock()
	switch c.Ctor {
	case "NewWriter":
		w = wsutil.NewWriter(dst, st, c.OpCode)
	case "NewWriterSize":
		w = wsutil.NewWriterSize(dst, st, c.OpCode, c.N)
	case "NewWriterBufferSize":
		w = wsutil.NewWriterBufferSize(dst, st, c.OpCode, c.N)
	case "NewWriterBuffer":
		w = wsutil.NewWriterBuffer(dst, st, c.OpCode, make([]byte, c.N))
	case "NewWriterBuffer/spare-cap":
		// a caller-supplied buffer that is a prefix of a larger array (pooled slice, sub-slice)
		big := make([]byte, 4*c.N+64)
		for i := range big {
			big[i] = 0xCC
		}
		w = wsutil.NewWriterBuffer(dst, st, c.OpCode, big[:c.N])
		if d, ok := dst.(*env.Dst); ok {
			d.Aux = big[c.N:]
		}
	case "NewWriterBuffer/odd-address":
		// a caller buffer that starts at an odd address inside its array (arena[1:])
		big := make([]byte, c.N+9)
		w = wsutil.NewWriterBuffer(dst, st, c.OpCode, big[1:1+c.N:1+c.N])
	case "GetWriter":
		w = wsutil.GetWriter(dst, st, c.OpCode, c.N)
	default:
		panic("bad ctor")
	}
	Configure(w, c)
	return w, true
}

// Configure applies the post-construction options.
func Configure(w *wsutil.Writer, c Cfg) {
	if c.NoFlush {
		w.DisableFlush()
	}
	if c.Ext {
		w.SetExtensions(Rsv1First)
	}
}

// Op is one API call. K is the byte count; Rel renders it relative to S for descriptions.
type Op struct {
	Kind  string // Write, ReadFrom, WriteThrough, FlushFragment, Flush, Grow
	K     int
	Chunk int // ReadFrom source chunking: 0 = all at once
	Rel   string
}

func (o Op) String() string {
	switch o.Kind {
	case "Write", "WriteThrough", "Grow":
		return fmt.Sprintf("%s(%s)", o.Kind, o.Rel)
	case "ReadFrom":
		return fmt.Sprintf("ReadFrom(%s,chunk=%d)", o.Rel, o.Chunk)
	case "Reset":
		return "Reset(new destination, other side)"
	case "SetExtensions-again":
		return "SetExtensions(the same extension again)"
	case "ResetOp-if-failed":
		return "ResetOp (if the destination has failed)"
	case "ReadFromErr":
		if o.Chunk == -2 {
			return fmt.Sprintf("ReadFrom(%s bytes, then the source only returns 0, nil)", o.Rel)
		}
		if o.Chunk < 0 {
			return fmt.Sprintf("ReadFrom(%s bytes together with source error)", o.Rel)
		}
		return fmt.Sprintf("ReadFrom(%s bytes then source error)", o.Rel)
	}
	return o.Kind
}

// Alphabet returns the operation alphabet for a writer whose Size() is S.
func Alphabet(S int) []Op {
	var ops []Op
	rel := func(k int, name string) (int, string) { return k, name }
	for _, x := range []struct {
		k int
		n string
	}{{0, "0"}, {1, "1"}, {S - 1, "S-1"}, {S, "S"}, {S + 1, "S+1"}, {2*S + 1, "2S+1"}} {
		if x.k < 0 {
			continue
		}
		k, n := rel(x.k, x.n)
		ops = append(ops, Op{Kind: "Write", K: k, Rel: n})
	}
	for _, x := range []struct {
		k int
		n string
	}{{0, "0"}, {S, "S"}, {2*S + 1, "2S+1"}} {
		// chunk -1: everything at once, io.EOF in the same Read as the last bytes
		for _, c := range []int{0, 1, -1} {
			if x.k == 0 && c != 0 {
				continue // an empty source looks the same under every chunking
			}
			if x.k > 4096 && c == 1 {
				c = 4093 // byte-wise sources for 64K buffers are replaced by an odd large chunk
			}
			ops = append(ops, Op{Kind: "ReadFrom", K: x.k, Chunk: c, Rel: x.n})
		}
	}
	// chunk -3: the source is a *bytes.Reader (it offers WriteTo, Len, ReadByte besides Read)
	ops = append(ops, Op{Kind: "ReadFrom", K: S + 1, Chunk: -3, Rel: "S+1"})
	for _, x := range []struct {
		k int
		n string
	}{{0, "0"}, {1, "1"}, {S + 1, "S+1"}} {
		ops = append(ops, Op{Kind: "WriteThrough", K: x.k, Rel: x.n})
	}
	// a source that delivers bytes and then fails with a non-EOF error: the bytes ReadFrom
	// reported as accepted still belong to the message
	ops = append(ops, Op{Kind: "ReadFromErr", K: 3, Rel: "3"})
	ops = append(ops, Op{Kind: "ReadFromErr", K: 3, Rel: "3", Chunk: -1}) // the error comes with the bytes
	if S > 4 {
		ops = append(ops, Op{Kind: "ReadFromErr", K: S + 2, Rel: "S+2"})
	}
	// a source that delivers exactly one buffer and then makes no progress (0, nil for ever): ReadFrom
	// gives up with io.ErrNoProgress, and what it reported as accepted still belongs to the message
	ops = append(ops, Op{Kind: "ReadFromErr", K: S, Rel: "S", Chunk: -2})
	ops = append(ops, Op{Kind: "FlushFragment"}, Op{Kind: "Flush"})
	for _, x := range []struct {
		k int
		n string
	}{{1, "1"}, {S, "S"}, {4 * S, "4S"}} {
		ops = append(ops, Op{Kind: "Grow", K: x.k, Rel: x.n})
	}
	return ops
}

// stuckSrc delivers its data and then makes no progress: every further Read returns 0, nil.
type stuckSrc struct {
	data  []byte
	off   int
	after int
}

func (s *stuckSrc) Read(p []byte) (int, error) {
	if s.off < len(s.data) {
		n := copy(p, s.data[s.off:])
		s.off += n
		return n, nil
	}
	if s.after++; s.after > 100000 {
		panic("wops: ReadFrom keeps reading a source that makes no progress")
	}
	return 0, nil
}

// Byte is the payload byte at absolute stream position i.
func Byte(i int) byte { return byte(i*131 + i>>8 + 7) }

// Gen returns n payload bytes starting at absolute stream position pos.
func Gen(pos, n int) []byte {
	p := make([]byte, n)
	for i := range p {
		p[i] = Byte(pos + i)
	}
	return p
}

// CallObs is what one API call returned and left behind.
type CallObs struct {
	Op        string
	N         int64
	Err       string
	Buffered  int
	Available int
	Size      int
	DestCalls int    // destination Write calls made during this API call
	Frames    string // frames emitted during this call, normalised (mask removed)
}

// Session applies operations to a live writer and keeps the model.
type Session struct {
	Cfg Cfg
	W   *wsutil.Writer
	Dst *env.Dst

	// model
	Accepted  []byte // every byte the writer reported as accepted, in order
	MsgStart  int    // index into Accepted where the current message starts
	Dirty     bool   // a write-type call happened since the last final flush
	PlainOnly bool   // only Write/ReadFrom/Grow since the last final flush
	WriteOnly bool   // only Write/Grow since the last final flush
	Failed    bool   // an error was reported by the writer (C16)
	// Dead: a Reset refused the buffer for the other side (documented panic); later calls are skipped
	Dead bool
	// DirtyUnknown: a call happened that may or may not count as "something written"
	DirtyUnknown bool

	parsedBytes            int // dest bytes already parsed
	wirePayload            int // payload bytes seen on the wire
	frameInMsg             int // frames seen in the current message
	msgsOnWire             int
	Obs                    []CallObs
	pos                    int // next absolute payload position to generate
	framesOfMsgBeforeFlush int
	minSize                int
}

func NewSession(c Cfg, w *wsutil.Writer, d *env.Dst) *Session {
	return &Session{Cfg: c, W: w, Dst: d, PlainOnly: true, WriteOnly: true}
}

// Apply performs one operation and checks every clause that must hold when the call returns.
func (s *Session) Apply(o Op) *explore.Fail {
	if s.Dead {
		return nil
	}
	w := s.W
	callsBefore := len(s.Dst.Calls)
	bufBefore := w.Buffered()
	var n int64
	var err error
	switch o.Kind {
	case "ResetOp-if-failed":
		// the quick reset (same destination, same options), used by a caller that starts the
		// next message on a connection whose last write failed: the failure has to stay visible
		if s.Dst.Failed {
			w.ResetOp(s.Cfg.OpCode)
		}
		s.Obs = append(s.Obs, CallObs{Op: o.String(), Err: "n/a", Size: w.Size()})
		return nil
	case "SetExtensions-again":
		// an application that attaches its extension set per message (after the quick ResetOp, or
		// simply at the top of its loop): the set is the one just given, not a longer one
		if s.Cfg.Ext {
			w.SetExtensions(Rsv1First)
		}
		s.Obs = append(s.Obs, CallObs{Op: o.String(), Err: "n/a", Size: w.Size()})
		return nil
	case "Reset":
		// the writer moves on to a connection of the other side: whatever it still held is
		// dropped, and from here on it has to behave like a writer made for that side
		c := s.Cfg
		c.Client = !c.Client
		d := env.NewDst()
		tooSmall := false
		func() {
			defer func() {
				if e := recover(); e != nil {
					if fmt.Sprint(e) != "wsutil: writer buffer is too small" {
						panic(e)
					}
					tooSmall = true
				}
			}()
			w.Reset(d, c.State(), c.OpCode)
		}()
		if tooSmall {
			// documented: the buffer cannot hold the other side's header; nothing more to ask
			s.Dead = true
			return nil
		}
		Configure(w, c)
		obs := s.Obs
		d.Aux = s.Dst.Aux
		*s = *NewSession(c, w, d)
		s.Obs = append(obs, CallObs{Op: o.String(), Size: w.Size()})
		return nil
	case "Write":
		p := Gen(s.pos, o.K)
		keep := append([]byte{}, p...)
		var k int
		k, err = w.Write(p)
		n = int64(k)
		if !bytes.Equal(p, keep) {
			return explore.Failf("Write-mutates-caller-slice", "")
		}
		if err == nil && k != len(p) {
			return explore.Failf("Write-short-count", "Write(%d) returned %d, nil", len(p), k)
		}
		s.accept(k)
		s.Dirty = true
	case "ReadFrom":
		src := env.NewSrc(Gen(s.pos, o.K))
		switch {
		case o.Chunk == -3:
		case o.Chunk < 0:
			src.WithLast = true
		default:
			src.Policy = env.FixedChunk(o.Chunk)
		}
		if o.Chunk == -3 {
			n, err = w.ReadFrom(bytes.NewReader(src.Data))
		} else {
			n, err = w.ReadFrom(src)
		}
		if err == nil && int(n) != o.K {
			return explore.Failf("ReadFrom-short-count", "ReadFrom(%d) returned %d, nil", o.K, n)
		}
		s.accept(int(n))
		s.Dirty = true
		s.WriteOnly = false
	case "ReadFromErr":
		src := env.NewSrc(Gen(s.pos, o.K))
		src.EndErr = env.ErrSource
		src.WithLast = o.Chunk < 0
		var srcErr error
		wantErr := error(env.ErrSource)
		if o.Chunk == -2 {
			wantErr = io.ErrNoProgress
			n, srcErr = w.ReadFrom(&stuckSrc{data: src.Data})
		} else {
			n, srcErr = w.ReadFrom(src)
		}
		if srcErr == nil {
			return explore.Failf("ReadFrom-swallows-source-error", "")
		}
		if srcErr != wantErr {
			err = srcErr // a writer-side failure
		}
		if int(n) > o.K {
			return explore.Failf("ReadFrom-count-too-large", "")
		}
		s.accept(int(n))
		if n > 0 {
			s.Dirty = true
		} else if !s.Dirty {
			s.DirtyUnknown = true // nothing accepted: whether a later Flush emits an empty frame is open
		}
		s.WriteOnly = false
	case "WriteThrough":
		p := Gen(s.pos, o.K)
		keep := append([]byte{}, p...)
		var k int
		k, err = w.WriteThrough(p)
		n = int64(k)
		if !bytes.Equal(p, keep) {
			return explore.Failf("WriteThrough-mutates-caller-slice", "")
		}
		if bufBefore != 0 && !s.Failed {
			if err != wsutil.ErrNotEmpty {
				return explore.Failf("WriteThrough-nonempty-no-ErrNotEmpty", "buffered=%d err=%v", bufBefore, err)
			}
			if len(s.Dst.Calls) != callsBefore || k != 0 {
				return explore.Failf("WriteThrough-nonempty-sent", "")
			}
			err = nil // not a writer failure
		} else {
			if err == nil && k != len(p) {
				return explore.Failf("WriteThrough-short-count", "")
			}
			s.accept(k)
			if err == nil {
				s.Dirty = true
				s.PlainOnly = false
				s.WriteOnly = false
			}
		}
	case "FlushFragment":
		err = w.FlushFragment()
		if bufBefore > 0 {
			s.PlainOnly = false
			s.WriteOnly = false
		}
	case "Flush":
		err = w.Flush()
	case "Grow":
		w.Grow(o.K)
		if !s.Failed && w.Available() < o.K {
			return explore.Failf("Grow-insufficient", "Grow(%d) left Available()=%d", o.K, w.Available())
		}
		if w.Buffered() != bufBefore {
			return explore.Failf("Grow-changes-buffered", "")
		}
	default:
		panic("bad op " + o.Kind)
	}
	obs := CallObs{Op: o.String(), N: n, Buffered: w.Buffered(), Available: w.Available(), Size: w.Size(), DestCalls: len(s.Dst.Calls) - callsBefore}
	if err != nil {
		obs.Err = err.Error()
		s.Failed = true
	}
	if w.Buffered()+w.Available() != w.Size() {
		return explore.Failf("Buffered+Available!=Size", "%d+%d!=%d", w.Buffered(), w.Available(), w.Size())
	}
	f, frames := s.checkWire(o, err)
	obs.Frames = frames
	s.Obs = append(s.Obs, obs)
	return f
}

func (s *Session) accept(k int) {
	s.Accepted = append(s.Accepted, Gen(s.pos, k)...)
	s.pos += k
}

// checkWire parses what reached the destination during this call.
func (s *Session) checkWire(o Op, callErr error) (*explore.Fail, string) {
	if ok, at := ArenaIntact(s.Dst); !ok {
		return explore.Failf("writer-writes-behind-the-buffer-it-was-given", "after %s: byte %d behind the caller's buffer (same array, not part of the slice handed to NewWriterBuffer) changed", o, at), ""
	}
	all := s.Dst.Bytes()
	newBytes := all[s.parsedBytes:]
	if s.Dst.Failed {
		// after an injected destination failure the stream is judged by C16 (prefix property)
		return nil, ""
	}
	frames, rest := drivers.ParseFrames(newBytes)
	if len(rest) != 0 {
		return explore.Failf("partial-frame-at-call-boundary", "after %s: %d stray bytes %x", o, len(rest), head(rest)), ""
	}
	s.parsedBytes = len(all)
	var desc bytes.Buffer
	for _, f := range frames {
		fmt.Fprintf(&desc, "[fin=%v rsv=%d op=%x len=%d]", f.H.Fin, f.H.Rsv, f.H.Op, f.H.Len)
		wantOp := byte(0)
		if s.frameInMsg == 0 {
			wantOp = byte(s.Cfg.OpCode)
		}
		if f.H.Op != wantOp {
			return explore.Failf("frame-opcode", "frame %d of message has opcode %x want %x", s.frameInMsg, f.H.Op, wantOp), ""
		}
		wantRsv := byte(0)
		if s.Cfg.Ext && s.frameInMsg == 0 {
			wantRsv = 4
		}
		if f.H.Rsv != wantRsv {
			return explore.Failf("frame-rsv", "frame %d of message has rsv %d want %d", s.frameInMsg, f.H.Rsv, wantRsv), ""
		}
		if f.H.Masked != s.Cfg.Client {
			return explore.Failf("frame-masking", "masked=%v on client=%v", f.H.Masked, s.Cfg.Client), ""
		}
		end := s.wirePayload + len(f.Payload)
		if end > len(s.Accepted) || !bytes.Equal(f.Payload, s.Accepted[s.wirePayload:end]) {
			return explore.Failf("payload-mismatch", "wire payload at stream offset %d (%d bytes) differs from the accepted bytes (accepted %d)", s.wirePayload, len(f.Payload), len(s.Accepted)), ""
		}
		s.wirePayload = end
		s.frameInMsg++
		if f.H.Fin {
			if o.Kind != "Flush" {
				return explore.Failf("final-frame-without-Flush", "%s emitted a final frame", o), ""
			}
			s.frameInMsg = 0
			s.msgsOnWire++
		}
	}
	if callErr != nil {
		return nil, desc.String()
	}
	w := s.W
	// accounting: what is accepted but not on the wire sits in the buffer
	if s.wirePayload+w.Buffered() != len(s.Accepted) {
		return explore.Failf("bytes-lost-or-duplicated", "after %s: wire %d + buffered %d != accepted %d", o, s.wirePayload, w.Buffered(), len(s.Accepted)), desc.String()
	}
	if o.Kind == "Flush" {
		wasDirty := s.Dirty
		nframes := len(frames)
		if s.DirtyUnknown && !wasDirty {
			// either nothing, or one empty final frame
			if nframes > 1 || (nframes == 1 && (!frames[0].H.Fin || frames[0].H.Len != 0)) {
				return explore.Failf("Flush-after-empty-failed-ReadFrom", "%d frames", nframes), desc.String()
			}
			wasDirty = nframes == 1
		}
		s.DirtyUnknown = false
		if !wasDirty && nframes != 0 {
			return explore.Failf("Flush-with-nothing-written-emits", "%d frame(s)", nframes), desc.String()
		}
		if wasDirty {
			if nframes != 1 || !frames[0].H.Fin {
				return explore.Failf("Flush-not-exactly-one-final-frame", "dirty writer flushed %d frames", nframes), desc.String()
			}
		}
		if w.Buffered() != 0 {
			return explore.Failf("Flush-leaves-buffered", "%d", w.Buffered()), desc.String()
		}
		// single-frame clauses
		msgLen := len(s.Accepted) - s.MsgStart
		if wasDirty && s.PlainOnly && s.Cfg.NoFlush {
			if s.framesOfMsgBeforeFlush != 0 || int(frames[0].H.Len) != msgLen {
				return explore.Failf("noflush-not-single-frame", "message of %d bytes left as %d frame(s)", msgLen, s.framesOfMsgBeforeFlush+nframes), desc.String()
			}
		}
		if wasDirty && s.WriteOnly && !s.Cfg.NoFlush && msgLen <= s.sizeAtMsgStartMin() {
			if s.framesOfMsgBeforeFlush != 0 {
				return explore.Failf("fits-buffer-not-single-frame", "message of %d bytes <= Size %d written by plain writes left as %d frames", msgLen, s.sizeAtMsgStartMin(), s.framesOfMsgBeforeFlush+nframes), desc.String()
			}
		}
		if wasDirty {
			s.MsgStart = len(s.Accepted)
			s.Dirty = false
			s.PlainOnly = true
			s.WriteOnly = true
			s.framesOfMsgBeforeFlush = 0
			s.minSize = 0
		}
	} else {
		if s.Cfg.NoFlush && s.PlainOnly && len(frames) != 0 {
			return explore.Failf("noflush-sent-before-Flush", "%s emitted %d frame(s)", o, len(frames)), desc.String()
		}
		s.framesOfMsgBeforeFlush += len(frames)
	}
	if s.minSize == 0 || w.Size() < s.minSize {
		s.minSize = w.Size()
	}
	return nil, desc.String()
}

// sizeAtMsgStartMin returns the smallest Size() seen during the current message.
func (s *Session) sizeAtMsgStartMin() int {
	if s.minSize == 0 {
		return s.W.Size()
	}
	return s.minSize
}

func head(b []byte) []byte {
	if len(b) > 16 {
		return b[:16]
	}
	return b
}
