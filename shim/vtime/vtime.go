// Package vtime stands in for package time in the overlay build of dialer.go (C20): every
// name is an alias of the standard package except Now, which reads the harness clock.
package vtime

import "time"

type (
	Time     = time.Time
	Duration = time.Duration
	Timer    = time.Timer
	Ticker   = time.Ticker
	Month    = time.Month
	Location = time.Location
)

const (
	Nanosecond  = time.Nanosecond
	Microsecond = time.Microsecond
	Millisecond = time.Millisecond
	Second      = time.Second
	Minute      = time.Minute
	Hour        = time.Hour
)

var UTC = time.UTC

// Clock, when set, is the virtual clock.
var Clock func() time.Time

func Now() Time {
	if c := Clock; c != nil {
		return c()
	}
	return time.Now()
}

func Unix(sec, nsec int64) Time             { return time.Unix(sec, nsec) }
func Since(t Time) Duration                 { return Now().Sub(t) }
func Until(t Time) Duration                 { return t.Sub(Now()) }
func Sleep(d Duration)                      { time.Sleep(d) }
func After(d Duration) <-chan Time          { return time.After(d) }
func AfterFunc(d Duration, f func()) *Timer { return time.AfterFunc(d, f) }
func NewTimer(d Duration) *Timer            { return time.NewTimer(d) }
func Date(y int, m Month, d, h, mi, s, ns int, loc *Location) Time {
	return time.Date(y, m, d, h, mi, s, ns, loc)
}

// ---- the rest of package time, unchanged (a changed tree may use any of it) -------------

type (
	Weekday    = time.Weekday
	ParseError = time.ParseError
)

const (
	January   = time.January
	February  = time.February
	March     = time.March
	April     = time.April
	May       = time.May
	June      = time.June
	July      = time.July
	August    = time.August
	September = time.September
	October   = time.October
	November  = time.November
	December  = time.December

	RFC1123  = time.RFC1123
	RFC3339  = time.RFC3339
	RFC822   = time.RFC822
	ANSIC    = time.ANSIC
	UnixDate = time.UnixDate
)

var Local = time.Local

func Tick(d Duration) <-chan Time                 { return time.Tick(d) }
func NewTicker(d Duration) *Ticker                { return time.NewTicker(d) }
func ParseDuration(s string) (Duration, error)    { return time.ParseDuration(s) }
func Parse(layout, value string) (Time, error)    { return time.Parse(layout, value) }
func UnixMilli(msec int64) Time                   { return time.UnixMilli(msec) }
func UnixMicro(usec int64) Time                   { return time.UnixMicro(usec) }
func FixedZone(name string, offset int) *Location { return time.FixedZone(name, offset) }
func LoadLocation(name string) (*Location, error) { return time.LoadLocation(name) }
func ParseInLocation(l, v string, loc *Location) (Time, error) {
	return time.ParseInLocation(l, v, loc)
}
