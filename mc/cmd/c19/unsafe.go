package main

import "unsafe"

func unsafePtr(b []byte) unsafe.Pointer { return unsafe.Pointer(unsafe.SliceData(b[:cap(b)])) }
