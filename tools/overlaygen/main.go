// overlaygen emits a go build -overlay file for the harness build. Two rewrites, both of
// import specs only, regenerated from the working tree on every run:
//
//   - every non-test source file of gobwas/ws (root, wsutil, wsflate) that imports "sync"
//     gets that import pointed at verifshim/vsync, so that a pool declared inside gobwas/ws
//     goes through the same controllable seam as the pools of gobwas/pool (the pinned tree
//     declares none; this is for changed trees);
//   - with -dialer, the "context" and "time" imports of dialer.go are pointed at the
//     virtual clock/context packages (C20); a missing import is a hard error.
package main

import (
	"encoding/json"
	"flag"
	"fmt"
	"go/ast"
	"go/format"
	"go/parser"
	"go/token"
	"os"
	"path/filepath"
	"strconv"
	"strings"
)

func die(a ...interface{}) {
	fmt.Fprintln(os.Stderr, append([]interface{}{"overlaygen:"}, a...)...)
	os.Exit(2)
}

func main() {
	repo := flag.String("repo", "/repo", "repository root")
	out := flag.String("out", "", "output directory")
	dialer := flag.Bool("dialer", false, "virtualise context/time in dialer.go")
	flag.Parse()
	if *out == "" {
		die("-out required")
	}
	os.RemoveAll(*out)
	if err := os.MkdirAll(*out, 0o755); err != nil {
		die(err)
	}
	replace := map[string]string{}
	for _, dir := range []string{".", "wsutil", "wsflate"} {
		ents, err := os.ReadDir(filepath.Join(*repo, dir))
		if err != nil {
			die(err)
		}
		for _, e := range ents {
			name := e.Name()
			if e.IsDir() || !strings.HasSuffix(name, ".go") || strings.HasSuffix(name, "_test.go") {
				continue
			}
			src := filepath.Join(*repo, dir, name)
			want := map[string]string{"sync": "verifshim/vsync"}
			must := map[string]bool{}
			if *dialer && dir == "." && name == "dialer.go" {
				want["context"], want["time"] = "verifshim/vctx", "verifshim/vtime"
				must["context"], must["time"] = true, true
			}
			fset := token.NewFileSet()
			f, err := parser.ParseFile(fset, src, nil, parser.ParseComments)
			if err != nil {
				die(err)
			}
			changed := false
			for _, im := range f.Imports {
				p, _ := strconv.Unquote(im.Path.Value)
				to, ok := want[p]
				if !ok {
					continue
				}
				if im.Name != nil {
					if must[p] {
						die(fmt.Sprintf("import %q is renamed in %s; not supported", p, name))
					}
				} else {
					im.Name = ast.NewIdent(p)
				}
				im.Path.Value = strconv.Quote(to)
				delete(must, p)
				changed = true
			}
			for p := range must {
				die(fmt.Sprintf("%s does not import %q", name, p))
			}
			if !changed {
				continue
			}
			dst := filepath.Join(*out, strings.ReplaceAll(filepath.Join(dir, name), "/", "__"))
			w, err := os.Create(dst)
			if err != nil {
				die(err)
			}
			if err := format.Node(w, fset, f); err != nil {
				die(err)
			}
			w.Close()
			replace[src] = dst
		}
	}
	data, _ := json.MarshalIndent(map[string]map[string]string{"Replace": replace}, "", " ")
	if err := os.WriteFile(filepath.Join(*out, "overlay.json"), data, 0o644); err != nil {
		die(err)
	}
	fmt.Println(len(replace))
}
