// C02: payload masking equals the RFC 6455 §5.3 XOR for any offset and chunking.
package main

import (
	"bytes"
	"fmt"
	"io"
	"math"

	"github.com/gobwas/ws"
	"github.com/gobwas/ws/wsutil"

	"verifmc/drivers"
	"verifmc/env"
	"verifmc/explore"
	"verifmc/refmodel"
)

var keys = [][4]byte{
	{0, 0, 0, 0}, {1, 2, 3, 4}, {0xff, 0x00, 0xff, 0x00}, {0x80, 0, 0, 1},
	{0xde, 0xad, 0xbe, 0xef}, {0x10, 0x20, 0x40, 0x80}, {0xff, 0xfe, 0xfd, 0xfc}, {0x55, 0xaa, 0x33, 0xcc},
}

func fill(n, kind int) []byte {
	p := make([]byte, n)
	if kind == 1 {
		for i := range p {
			p[i] = byte(i*7 + 3)
		}
	}
	return p
}

// offMod4 computes offset mod 4 in unbounded arithmetic (offset is non-negative).
func offMod4(off int) int { return int(uint64(off) % 4) }

func offsets() []int {
	var o []int
	for i := 0; i < 12; i++ {
		o = append(o, i)
	}
	for _, b := range []int{1<<31 - 1, 1 << 31, 1<<31 + 1, 1<<31 + 2, 1 << 32, 1<<32 + 1, 1<<32 + 2, 1<<32 + 3} {
		o = append(o, b)
	}
	for i := 7; i >= 0; i-- {
		o = append(o, math.MaxInt-i)
	}
	return o
}

func offClass(off int) string {
	if off > math.MaxInt-8 {
		return "offset-near-MaxInt"
	}
	return "offset-ordinary"
}

func main() {
	explore.Main("C02", func(r *explore.Run) {
		r.Part("E1-Cipher", func(t *explore.T) {
			offs := offsets()
			t.Par(81, func(n int) {
				for _, off := range offs {
					for align := 0; align < 16; align++ {
						for ki, key := range keys {
							for kind := 0; kind < 2; kind++ {
								off, align, key, kind := off, align, key, kind
								t.Do(func() string {
									return fmt.Sprintf("Cipher n=%d offset=%d align=%d key#%d fill=%d", n, off, align, ki, kind)
								}, func() *explore.Fail {
									const guard = 24
									back := make([]byte, guard+16+n+guard)
									for i := range back {
										back[i] = 0xEE
									}
									p := back[guard+align : guard+align+n]
									orig := fill(n, kind)
									copy(p, orig)
									want := refmodel.XOR(orig, key, offMod4(off))
									ws.Cipher(p, key, off)
									if !bytes.Equal(p, want) {
										return explore.Failf("xor-mismatch:"+offClass(off), "got %x want %x", p, want)
									}
									for i, b := range back {
										if (i < guard+align || i >= guard+align+n) && b != 0xEE {
											return explore.Failf("guard-overwritten", "index %d", i)
										}
									}
									ws.Cipher(p, key, off)
									if !bytes.Equal(p, orig) {
										return explore.Failf("not-involution", "second application does not restore")
									}
									return nil
								})
							}
						}
					}
				}
			})
			t.Outcome("ok")
		})

		r.Part("E2-chunked-Cipher", func(t *explore.T) {
			key := keys[1]
			maxN := t.Pick(12, 14)
			// every composition of n into consecutive chunks
			for n := 1; n <= maxN; n++ {
				n := n
				t.Par(1<<(n-1), func(bits int) {
					for _, start := range []int{0, 1, 2, 3, 5} {
						start := start
						t.Do(func() string { return fmt.Sprintf("composition n=%d cuts=%b start=%d", n, bits, start) }, func() *explore.Fail {
							orig := fill(n, 1)
							p := append([]byte{}, orig...)
							off := start
							lo := 0
							for i := 1; i <= n; i++ {
								if i == n || bits&(1<<(i-1)) != 0 {
									ws.Cipher(p[lo:i], key, off)
									off += i - lo
									lo = i
								}
							}
							one := append([]byte{}, orig...)
							ws.Cipher(one, key, start)
							if !bytes.Equal(p, one) {
								return explore.Failf("chunked-differs", "chunked %x one-call %x", p, one)
							}
							if !bytes.Equal(one, refmodel.XOR(orig, key, start%4)) {
								return explore.Failf("xor-mismatch", "")
							}
							return nil
						})
					}
				})
			}
			// every 2- and 3-cut split for n <= 40
			t.Par(41, func(n int) {
				for a := 0; a <= n; a++ {
					for b := a; b <= n; b++ {
						for c := b; c <= n; c++ {
							if c != b && c != n {
								continue // 2-cut: (a,b,n) ; 3-cut restricted to c==b or c==n keeps it at O(n^2); full 3-cut below for small n
							}
							a, b := a, b
							t.Do(func() string { return fmt.Sprintf("split n=%d cuts=%d,%d", n, a, b) }, func() *explore.Fail {
								orig := fill(n, 1)
								p := append([]byte{}, orig...)
								ws.Cipher(p[:a], key, 7)
								ws.Cipher(p[a:b], key, 7+a)
								ws.Cipher(p[b:], key, 7+b)
								if !bytes.Equal(p, refmodel.XOR(orig, key, 3)) {
									return explore.Failf("chunked-differs", "n=%d a=%d b=%d", n, a, b)
								}
								return nil
							})
						}
					}
				}
			})
			maxN3 := t.Pick(28, 40)
			t.Par(maxN3+1, func(n int) {
				for a := 0; a <= n; a++ {
					for b := a; b <= n; b++ {
						for c := b; c <= n; c++ {
							a, b, c := a, b, c
							t.Do(func() string { return fmt.Sprintf("split3 n=%d cuts=%d,%d,%d", n, a, b, c) }, func() *explore.Fail {
								orig := fill(n, 1)
								p := append([]byte{}, orig...)
								ws.Cipher(p[:a], key, 2)
								ws.Cipher(p[a:b], key, 2+a)
								ws.Cipher(p[b:c], key, 2+b)
								ws.Cipher(p[c:], key, 2+c)
								if !bytes.Equal(p, refmodel.XOR(orig, key, 2)) {
									return explore.Failf("chunked-differs", "n=%d cuts=%d,%d,%d", n, a, b, c)
								}
								return nil
							})
						}
					}
				}
			})
			t.Outcome("ok")
		})

		r.Part("E3-CipherReader-all-short-reads", func(t *explore.T) {
			key := keys[4]
			maxN := t.Pick(14, 20)
			t.Par(maxN+1, func(n int) {
				for bufsz := 1; bufsz <= n+1; bufsz++ {
					for _, withLast := range []bool{false, true} {
						n, bufsz, withLast := n, bufsz, withLast
						t.Explore(fmt.Sprintf("CipherReader n=%d buf=%d errWithLast=%v", n, bufsz, withLast), explore.ExploreOpts{Bound: -1, UseKeys: true}, func(c *explore.Chooser) *explore.Fail {
							orig := fill(n, 1)
							src := env.NewSrc(append([]byte{}, orig...))
							src.WithLast = withLast
							pol := env.ChooserPolicy(c)
							src.Policy = func(max, off int) int {
								c.Key(fmt.Sprintf("d=%d", off))
								return pol(max, off)
							}
							cr := wsutil.NewCipherReader(src, key)
							var got []byte
							buf := make([]byte, bufsz)
							for {
								k, err := cr.Read(buf)
								got = append(got, buf[:k]...)
								if err == io.EOF {
									break
								}
								if err != nil {
									return explore.Failf("reader-error", "%v", err)
								}
								if len(got) > n {
									break
								}
							}
							if !bytes.Equal(got, refmodel.XOR(orig, key, 0)) {
								return explore.Failf("reader-xor-mismatch", "got %x want %x", got, refmodel.XOR(orig, key, 0))
							}
							return nil
						})
					}
				}
			})
			t.Outcome("ok")
			t.Note("state key = bytes delivered: CipherReader keeps only pos, which equals the bytes delivered so far")
		})

		r.Part("E3-CipherWriter-splits-and-faults", func(t *explore.T) {
			key := keys[4]
			maxN := t.Pick(10, 14)
			for n := 1; n <= maxN; n++ {
				n := n
				t.Par(1<<(n-1), func(bits int) {
					// fault: none, or destination fails at call j accepting `partial` bytes
					var cuts []int
					lo := 0
					for i := 1; i <= n; i++ {
						if i == n || bits&(1<<(i-1)) != 0 {
							cuts = append(cuts, i-lo)
							lo = i
						}
					}
					for failAt := -1; failAt < len(cuts); failAt++ {
						for partial := 0; partial <= 3; partial++ {
							if failAt < 0 && partial > 0 {
								continue
							}
							failAt, partial := failAt, partial
							if failAt >= 0 {
								// the destination fails once, accepting `partial` bytes; the caller then
								// resends what was not accepted and carries on
								t.Do(func() string {
									return fmt.Sprintf("CipherWriter n=%d writes=%v call %d short by error after %d byte(s), caller resumes", n, cuts, failAt, partial)
								}, func() *explore.Fail {
									orig := fill(n, 1)
									d := env.NewDst()
									d.FailAt, d.Partial, d.Transient = failAt, partial, true
									cw := wsutil.NewCipherWriter(d, key)
									off := 0
									for _, k := range cuts {
										chunk := orig[off : off+k]
										for len(chunk) > 0 {
											m, err := cw.Write(chunk)
											if m < 0 || m > len(chunk) {
												return explore.Failf("write-count-out-of-range", "")
											}
											chunk = chunk[m:]
											if err == nil && len(chunk) > 0 {
												return explore.Failf("short-write-no-error", "")
											}
										}
										off += k
									}
									if got, want := d.Bytes(), refmodel.XOR(orig, key, 0); !bytes.Equal(got, want) {
										return explore.Failf("writer-xor-mismatch-after-short-write", "got %x want %x", got, want)
									}
									return nil
								})
							}
							t.Do(func() string {
								return fmt.Sprintf("CipherWriter n=%d writes=%v failAt=%d partial=%d", n, cuts, failAt, partial)
							}, func() *explore.Fail {
								orig := fill(n, 1)
								d := env.NewDst()
								d.FailAt, d.Partial = failAt, partial
								cw := wsutil.NewCipherWriter(d, key)
								off := 0
								accepted := 0
								for _, k := range cuts {
									chunk := append([]byte{}, orig[off:off+k]...)
									keep := append([]byte{}, chunk...)
									m, err := cw.Write(chunk)
									if !bytes.Equal(chunk, keep) {
										return explore.Failf("caller-slice-modified", "write %d", off)
									}
									accepted += m
									off += k
									if err != nil {
										break
									}
									if m != k {
										return explore.Failf("short-write-no-error", "")
									}
								}
								// the destination saw the XOR of the stream at the right offsets: after a short
								// write the writer's position advanced by the bytes actually transferred.
								got := d.Bytes()
								want := refmodel.XOR(orig, key, 0)
								if !bytes.Equal(got, want[:len(got)]) {
									return explore.Failf("writer-xor-mismatch", "got %x want prefix of %x", got, want)
								}
								if failAt < 0 && len(got) != n {
									return explore.Failf("bytes-lost", "")
								}
								if accepted != len(got) {
									return explore.Failf("accepted-count", "reported %d transferred %d", accepted, len(got))
								}
								return nil
							})
						}
					}
				})
			}
			t.Outcome("ok")
		})

		// Transfers larger than any pooled buffer class, at every residue of the stream offset:
		// a masking stream may treat big writes/reads differently from small ones (piece-wise
		// through a fixed scratch buffer) and must still continue the key where the stream is.
		// "Non-negative stream offset": one mask reader and one mask writer carry a stream past
		// 2^31 (thorough: past 2^32) bytes in 1 MiB pieces, starting with 1..3 odd bytes so that the
		// running offset is never a multiple of 4. Every piece is checked at its ends, the pieces
		// around the 2^31 / 2^32 marks in full.
		r.Part("E3e-streams-longer-than-2^31-bytes", func(t *explore.T) {
			key := keys[4]
			const piece = 1 << 20
			total := int64(1)<<31 + 3*piece
			if t.Thorough() {
				total = int64(1)<<32 + 3*piece
			}
			block := fill(piece, 3)
			for _, which := range []string{"CipherReader", "CipherWriter"} {
				for _, lead := range []int{3, 1} {
					which, lead := which, lead
					t.Do(func() string {
						return fmt.Sprintf("%s: %d odd bytes, then %d bytes in pieces of 1 MiB, no Reset", which, lead, total)
					}, func() (fail *explore.Fail) {
						defer func() {
							if r := recover(); r != nil {
								fail = explore.Failf("panic-on-long-stream:"+which, "%v", r)
							}
						}()
						var off int64
						var got []byte
						cr := wsutil.NewCipherReader(&repeatSrc{block: block}, key)
						sink := &lastDst{}
						cw := wsutil.NewCipherWriter(sink, key)
						buf := make([]byte, piece)
						step := func(n int) *explore.Fail {
							if which == "CipherReader" {
								k, err := io.ReadFull(cr, buf[:n])
								if err != nil || k != n {
									return explore.Failf("long-stream-read", "at offset %d: n=%d err=%v", off, k, err)
								}
								got = buf[:n]
							} else {
								copy(buf, block[:n])
								k, err := cw.Write(buf[:n])
								if err != nil || k != n {
									return explore.Failf("long-stream-write", "at offset %d: n=%d err=%v", off, k, err)
								}
								got = sink.last
							}
							full := n < 64 || (off > 1<<31-2*piece && off < 1<<31+2*piece) || off > 1<<32-2*piece
							check := func(i int) bool { return got[i] == block[i]^key[(off+int64(i))%4] }
							if len(got) != n {
								return explore.Failf("long-stream-length:"+which, "at offset %d: %d bytes for %d", off, len(got), n)
							}
							for i := 0; i < n; i++ {
								if !full && i == 64 && n > 128 {
									i = n - 64
								}
								if !check(i) {
									return explore.Failf("long-stream-byte-wrong:"+which, "stream offset %d: got %#x want %#x", off+int64(i), got[i], block[i]^key[(off+int64(i))%4])
								}
							}
							off += int64(n)
							return nil
						}
						if f := step(lead); f != nil {
							return f
						}
						for off < total {
							if f := step(piece); f != nil {
								return f
							}
						}
						return nil
					})
				}
			}
			t.Outcome("ok")
		})

		// Mask readers and writers stacked on one another (a payload masked twice, or a relay that
		// unmasks with one key and masks with another): the inner one has already carried k bytes when
		// the outer one is put on top of it (by the constructor or by Reset). Each layer applies its
		// own key at its own running offset; the result is compared with the formula, not with the
		// other direction.
		r.Part("E3f-stacked-mask-readers-and-writers", func(t *explore.T) {
			ka, kb := keys[1], keys[4]
			for k := 0; k <= 9; k++ {
				for _, how := range []string{"constructor", "Reset"} {
					for _, n := range []int{1, 3, 4, 5, 64, 1000} {
						k, how, n := k, how, n
						t.Do(func() string {
							return fmt.Sprintf("inner layer has carried %d bytes, outer layer put on by %s, then %d bytes", k, how, n)
						}, func() *explore.Fail {
							data := fill(k+n, 2)
							// what the formula says: every byte gets the inner key at its stream offset; the bytes
							// behind the first k also the outer key, counted from 0
							want := refmodel.XOR(data, ka, 0)
							tail := refmodel.XOR(want[k:], kb, 0)
							// reader
							inner := wsutil.NewCipherReader(bytes.NewReader(data), ka)
							head := make([]byte, k)
							if _, err := io.ReadFull(inner, head); err != nil {
								return explore.Failf("harness-stacked-read", "%v", err)
							}
							var outer *wsutil.CipherReader
							if how == "constructor" {
								outer = wsutil.NewCipherReader(inner, kb)
							} else {
								outer = wsutil.NewCipherReader(bytes.NewReader(nil), keys[2])
								outer.Reset(inner, kb)
							}
							got, err := io.ReadAll(outer)
							if err != nil || !bytes.Equal(head, want[:k]) || !bytes.Equal(got, tail) {
								return explore.Failf("stacked-CipherReader-wrong", "err=%v; first difference at %d of %d", err, firstDiff(got, tail), len(tail))
							}
							// writer
							d := env.NewDst()
							iw := wsutil.NewCipherWriter(d, ka)
							if _, err := iw.Write(append([]byte{}, data[:k]...)); err != nil {
								return explore.Failf("harness-stacked-write", "%v", err)
							}
							var ow *wsutil.CipherWriter
							if how == "constructor" {
								ow = wsutil.NewCipherWriter(iw, kb)
							} else {
								ow = wsutil.NewCipherWriter(env.NewDst(), keys[2])
								ow.Reset(iw, kb)
							}
							if _, err := ow.Write(append([]byte{}, data[k:]...)); err != nil {
								return explore.Failf("stacked-CipherWriter-error", "%v", err)
							}
							if out := d.Bytes(); !bytes.Equal(out, append(append([]byte{}, want[:k]...), tail...)) {
								return explore.Failf("stacked-CipherWriter-wrong", "first difference at %d of %d", firstDiff(out, append(append([]byte{}, want[:k]...), tail...)), len(out))
							}
							return nil
						})
					}
				}
			}
			t.Outcome("ok")
		})

		r.Part("E3b-large-transfers-at-every-offset", func(t *explore.T) {
			key := keys[4]
			bigs := []int{4096, 4097, 65535, 65536, 65537, 70001, 131072, 200003}
			t.Par(8*len(bigs), func(i int) {
				prior, big := i%8, bigs[i/8]
				total := prior + big + 5
				orig := fill(total, 3)
				want := refmodel.XOR(orig, key, 0)
				for failAt := -1; failAt <= 3; failAt++ {
					failAt := failAt
					t.Do(func() string {
						return fmt.Sprintf("CipherWriter writes=[%d %d 5] destination fails once at call %d (accepting half), caller resumes", prior, big, failAt)
					}, func() *explore.Fail {
						d := env.NewDst()
						if failAt >= 0 {
							d.FailAt, d.Partial, d.Transient = failAt, big/2, true
						}
						// the destination looks at the caller's bytes while it is being written to: they are
						// the caller's at every moment (another writer may be sending the same message)
						ref := append([]byte{}, orig...)
						touched := -1
						watch := &watchDst{inner: d, look: func() {
							if touched < 0 && !bytes.Equal(orig, ref) {
								touched = firstDiff(orig, ref)
							}
						}}
						cw := wsutil.NewCipherWriter(watch, key)
						off := 0
						for _, k := range []int{prior, big, 5} {
							chunk := orig[off : off+k]
							keep := append([]byte{}, chunk...)
							for len(chunk) > 0 {
								m, err := cw.Write(chunk)
								if m < 0 || m > len(chunk) {
									return explore.Failf("write-count-out-of-range", "%d", m)
								}
								chunk = chunk[m:]
								if err == nil && len(chunk) > 0 {
									return explore.Failf("short-write-no-error", "")
								}
							}
							if !bytes.Equal(orig[off:off+k], keep) {
								return explore.Failf("caller-slice-modified", "write at %d", off)
							}
							off += k
						}
						if touched >= 0 {
							return explore.Failf("caller-slice-modified-while-the-destination-is-written", "byte %d of the caller's slice differed during a destination Write", touched)
						}
						if got := d.Bytes(); !bytes.Equal(got, want) {
							return explore.Failf("large-write-xor-mismatch", "first difference at byte %d of %d (stream offset residue %d)", firstDiff(got, want), total, prior%4)
						}
						return nil
					})
				}
				for _, chunk := range []int{0, 4096, 65536, 65537} {
					for _, bufsz := range []int{big, 65536, 65537, total} {
						chunk, bufsz := chunk, bufsz
						t.Do(func() string {
							return fmt.Sprintf("CipherReader reads=[%d then buffers of %d] total=%d transport chunk=%d", prior, bufsz, total, chunk)
						}, func() *explore.Fail {
							src := env.NewSrc(append([]byte{}, orig...))
							src.Policy = env.FixedChunk(chunk)
							cr := wsutil.NewCipherReader(src, key)
							var got []byte
							if prior > 0 {
								b := make([]byte, prior)
								k, _ := io.ReadFull(cr, b)
								got = append(got, b[:k]...)
							}
							buf := make([]byte, bufsz)
							for {
								k, err := cr.Read(buf)
								got = append(got, buf[:k]...)
								if err != nil {
									break
								}
							}
							if !bytes.Equal(got, want) {
								return explore.Failf("large-read-xor-mismatch", "first difference at byte %d of %d", firstDiff(got, want), total)
							}
							return nil
						})
					}
				}
				t.Do(func() string { return fmt.Sprintf("Cipher payload=%d offset=%d", big, prior) }, func() *explore.Fail {
					for _, off := range []int{prior, prior + 1<<31, prior + 1<<40} {
						p := append([]byte{}, orig[:big]...)
						ws.Cipher(p, key, off)
						if w := refmodel.XOR(orig[:big], key, off); !bytes.Equal(p, w) {
							return explore.Failf("large-Cipher-mismatch", "offset %d: first difference at %d", off, firstDiff(p, w))
						}
					}
					return nil
				})
			})
			t.Outcome("ok")
		})

		// A masking reader/writer reused through Reset starts a new stream at offset 0, whatever
		// it carried before and whether or not the source/destination and the key are the same
		// values as before (two consecutive frames of one connection often share both).
		r.Part("E3c-Reset-starts-at-offset-zero", func(t *explore.T) {
			k1, k2 := keys[4], keys[1]
			for before := 0; before <= 9; before++ {
				for _, sameEnd := range []bool{true, false} {
					for _, sameKey := range []bool{true, false} {
						before, sameEnd, sameKey := before, sameEnd, sameKey
						t.Do(func() string {
							return fmt.Sprintf("CipherReader: %d bytes read, Reset(same source=%v, same key=%v), read 11 more", before, sameEnd, sameKey)
						}, func() *explore.Fail {
							data := fill(before+11, 5)
							src := env.NewSrc(append([]byte{}, data...))
							cr := wsutil.NewCipherReader(src, k1)
							if before > 0 {
								io.ReadFull(cr, make([]byte, before))
							}
							key := k1
							if !sameKey {
								key = k2
							}
							var next io.Reader = src
							want := refmodel.XOR(data[before:], key, 0)
							if !sameEnd {
								next = env.NewSrc(append([]byte{}, data[before:]...))
							}
							cr.Reset(next, key)
							first := make([]byte, 3)
							io.ReadFull(cr, first)
							got, err := io.ReadAll(cr)
							got = append(first, got...)
							if err != nil || !bytes.Equal(got, want) {
								return explore.Failf("CipherReader-after-Reset", "err=%v got %x want %x", err, got, want)
							}
							return nil
						})
						t.Do(func() string {
							return fmt.Sprintf("CipherWriter: %d bytes written, Reset(same destination=%v, same key=%v), write 11 more", before, sameEnd, sameKey)
						}, func() *explore.Fail {
							data := fill(before+11, 6)
							d := env.NewDst()
							cw := wsutil.NewCipherWriter(d, k1)
							// in two calls, so that a write has also started at an unaligned offset
							cw.Write(data[:before/2])
							cw.Write(data[before/2 : before])
							key := k1
							if !sameKey {
								key = k2
							}
							d2 := d
							if !sameEnd {
								d2 = env.NewDst()
							}
							mark := len(d2.Bytes())
							cw.Reset(d2, key)
							for _, piece := range [][]byte{data[before : before+3], data[before+3 : before+5], data[before+5:]} {
								if _, err := cw.Write(piece); err != nil {
									return explore.Failf("CipherWriter-after-Reset-error", "%v", err)
								}
							}
							if got, want := d2.Bytes()[mark:], refmodel.XOR(data[before:], key, 0); !bytes.Equal(got, want) {
								return explore.Failf("CipherWriter-after-Reset", "got %x want %x", got, want)
							}
							return nil
						})
					}
				}
			}
			t.Outcome("ok")
		})

		// Consumers other than a plain Read loop: io.Copy (which uses the reader's WriteTo or the
		// destination's ReadFrom when they exist), io.ReadAll, io.ReadFull, after 0..9 bytes were
		// already taken through Read; and io.Copy / io.WriteString into the masking writer.
		r.Part("E3d-other-consumers", func(t *explore.T) {
			key := keys[4]
			for before := 0; before <= 9; before++ {
				for _, total := range []int{before, before + 1, before + 11, before + 70000} {
					before, total := before, total
					t.Do(func() string {
						return fmt.Sprintf("CipherReader: %d bytes via Read, the other %d via io.Copy / ReadAll / ReadFull", before, total-before)
					}, func() *explore.Fail {
						data := fill(total, 9)
						want := refmodel.XOR(data, key, 0)
						for _, how := range []string{"io.Copy", "io.Copy-to-bytes.Buffer", "io.ReadAll", "io.ReadFull"} {
							cr := wsutil.NewCipherReader(env.NewSrc(append([]byte{}, data...)), key)
							got := make([]byte, before)
							if _, err := io.ReadFull(cr, got); err != nil {
								return explore.Failf("harness-prefix", "%v", err)
							}
							switch how {
							case "io.Copy":
								d := env.NewDst()
								io.Copy(d, cr)
								got = append(got, d.Bytes()...)
							case "io.Copy-to-bytes.Buffer":
								var b bytes.Buffer
								io.Copy(&b, cr)
								got = append(got, b.Bytes()...)
							case "io.ReadAll":
								b, _ := io.ReadAll(cr)
								got = append(got, b...)
							case "io.ReadFull":
								b := make([]byte, total-before)
								io.ReadFull(cr, b)
								got = append(got, b...)
							}
							if !bytes.Equal(got, want) {
								return explore.Failf("reader-xor-mismatch:"+how, "after %d bytes via Read: first difference at byte %d of %d", before, firstDiff(got, want), total)
							}
						}
						for _, how := range []string{"io.Copy-from-bytes.Reader", "io.Copy-from-plain-reader", "io.WriteString"} {
							d := env.NewDst()
							cw := wsutil.NewCipherWriter(d, key)
							cw.Write(data[:before])
							rest := append([]byte{}, data[before:]...)
							switch how {
							case "io.Copy-from-bytes.Reader":
								io.Copy(cw, bytes.NewReader(rest))
							case "io.Copy-from-plain-reader":
								io.Copy(cw, env.NewSrc(rest))
							case "io.WriteString":
								io.WriteString(cw, string(rest))
							}
							if got := d.Bytes(); !bytes.Equal(got, want) {
								return explore.Failf("writer-xor-mismatch:"+how, "after %d bytes via Write: first difference at byte %d of %d", before, firstDiff(got, want), total)
							}
						}
						return nil
					})
				}
			}
			t.Outcome("ok")
		})

		// A destination that takes only a few bytes per call and says nothing about it (a short
		// count with a nil error - against the io.Writer contract, but seen in the wild): the caller
		// resends what was not taken; the bytes that arrive are the stream under the formula.
		r.Part("E3g-CipherWriter-over-a-destination-with-silent-short-writes", func(t *explore.T) {
			key := keys[4]
			for _, take := range []int{1, 2, 3, 5, 7} {
				for _, sizes := range [][]int{{8, 8}, {20, 20}, {3, 9, 1, 11}, {16, 1, 16}, {70, 70}} {
					take, sizes := take, sizes
					t.Do(func() string {
						return fmt.Sprintf("writes of %v bytes, destination takes at most %d bytes per call without an error", sizes, take)
					}, func() *explore.Fail {
						d := &silentShortDst{take: take}
						cw := wsutil.NewCipherWriter(d, key)
						var all []byte
						for wi, sz := range sizes {
							p := fill(sz, wi+1)
							all = append(all, p...)
							for guard := 0; len(p) > 0; guard++ {
								n, err := cw.Write(p)
								if n < 0 || n > len(p) || guard > 1000 || (n == 0 && err == nil) {
									return explore.Failf("silent-short-writes:no-progress-or-bad-count", "n=%d err=%v", n, err)
								}
								p = p[n:]
								if err != nil && n == 0 {
									return explore.Failf("silent-short-writes:error-without-progress", "%v", err)
								}
							}
						}
						if want := refmodel.XOR(all, key, 0); !bytes.Equal(d.got, want) {
							return explore.Failf("silent-short-writes:stream-not-the-formula", "first difference at byte %d of %d", firstDiff(d.got, want), len(want))
						}
						return nil
					})
				}
			}
			t.Outcome("ok")
		})

		// The masking the client-side fragmenting writer applies to its own buffer: whatever
		// reaches the wire - also when a flush fails with a timeout and the application flushes
		// again, once or twice - unmasks, with the key in its frame header, to bytes the caller wrote.
		r.Part("E6-client-writer-masks-its-buffer-once", func(t *explore.T) {
			for _, size := range []int{4, 16, 125} {
				for _, n := range []int{1, 3, 4, 5, 16, 17, 40} {
					for failAt := -1; failAt <= 3; failAt++ {
						for _, timeout := range []bool{true, false} {
							for _, partial := range []int{0, 3} {
								size, n, failAt, timeout, partial := size, n, failAt, timeout, partial
								t.Do(func() string {
									return fmt.Sprintf("client Writer of %d bytes, %d bytes written, Flush x3; destination fails once at call %d (timeout=%v, %d bytes accepted)", size, n, failAt, timeout, partial)
								}, func() *explore.Fail {
									d := env.NewDst()
									d.FailAt, d.Partial, d.Transient, d.Err = failAt, partial, true, env.TempErr{IsTimeout: timeout}
									w := wsutil.NewWriterSize(d, ws.StateClientSide, ws.OpBinary, size)
									data := fill(n, 3)
									w.Write(data)
									w.Flush()
									w.Flush()
									w.Flush()
									// whole frames among the calls that were accepted in full
									var wire []byte
									for i, c := range d.Calls {
										if i == failAt {
											continue
										}
										wire = append(wire, c...)
									}
									frames, _ := drivers.ParseFrames(wire)
									off := 0
									for i, f := range frames {
										if !f.H.Masked {
											return explore.Failf("client-writer-frame-not-masked", "frame %d", i)
										}
										// each frame carries a piece of the data: the next piece, or (after the
										// failed call) the piece that was lost again
										ok := false
										for _, o := range []int{off, off - len(f.Payload)} {
											if o >= 0 && o+len(f.Payload) <= len(data) && bytes.Equal(f.Payload, data[o:o+len(f.Payload)]) {
												ok, off = true, o+len(f.Payload)
												break
											}
										}
										if !ok && failAt >= 0 && i >= failAt {
											// a piece lost in the failed call may be skipped: look for it anywhere
											if j := bytes.Index(data, f.Payload); j >= 0 {
												ok, off = true, j+len(f.Payload)
											}
										}
										if !ok {
											return explore.Failf("client-writer-wire-payload-is-not-the-callers-bytes", "frame %d of %d unmasks to %x, the caller wrote %x", i, len(frames), f.Payload, data)
										}
									}
									return nil
								})
							}
						}
					}
				}
			}
			t.Outcome("ok")
		})

		// Unmasking as the streaming reader applies it, at every place a payload can surface: the
		// message bytes returned by Read, the payload handed to the handler of a control frame
		// between fragments, the payload an OnContinuation handler reads, a top-level control
		// frame. Every payload comes out exactly as the peer sent it, whatever keys the frames use.
		r.Part("E5-unmasking-at-every-place-a-payload-surfaces", func(t *explore.T) {
			p1, p2, p3, p4 := fill(5, 1), fill(7, 2), fill(6, 3), fill(9, 4)
			for ka, a := range keys[:5] {
				for kb, b := range keys[:5] {
					for _, handlerReads := range []string{"all", "3-bytes", "nothing"} {
						ka, kb, a, b, handlerReads := ka, kb, a, b, handlerReads
						t.Do(func() string {
							return fmt.Sprintf("Text-(5) key#%d, Ping(7) key#%d, Cont(6) key#%d, Pong(9) key#%d; continuation handler reads %s", ka, kb, ka, kb, handlerReads)
						}, func() *explore.Fail {
							fr := func(op byte, fin bool, key [4]byte, p []byte) []byte {
								return refmodel.Frame{H: refmodel.Hdr{Fin: fin, Op: op, Masked: true, Mask: key}, Payload: p}.Wire()
							}
							data := append(append(append(fr(2, false, a, p1), fr(9, true, b, p2)...), fr(0, true, a, p3)...), fr(10, true, b, p4)...)
							rd := &wsutil.Reader{Source: env.NewSrc(data), State: ws.StateServerSide}
							var ctl, cont []byte
							rd.OnIntermediate = func(_ ws.Header, r io.Reader) error { ctl, _ = io.ReadAll(r); return nil }
							rd.OnContinuation = func(_ ws.Header, r io.Reader) error {
								switch handlerReads {
								case "all":
									cont, _ = io.ReadAll(r)
								case "3-bytes":
									cont = make([]byte, 3)
									io.ReadFull(r, cont)
								}
								return nil
							}
							if _, err := rd.NextFrame(); err != nil {
								return explore.Failf("harness-first-frame", "%v", err)
							}
							msg, err := io.ReadAll(rd)
							if err != nil || !bytes.Equal(append(append([]byte{}, cont...), msg[len(p1):]...), p3) || !bytes.Equal(msg[:len(p1)], p1) {
								return explore.Failf("message-payload-not-unmasked", "Read gave %x, continuation handler %x; sent %x | %x (err=%v)", msg, cont, p1, p3, err)
							}
							if !bytes.Equal(ctl, p2) {
								return explore.Failf("in-message-control-payload-not-unmasked", "handler got %x, sent %x", ctl, p2)
							}
							if _, err := rd.NextFrame(); err != nil {
								return explore.Failf("top-level-control-frame", "%v", err)
							}
							if top, _ := io.ReadAll(rd); !bytes.Equal(top, p4) {
								return explore.Failf("top-level-control-payload-not-unmasked", "got %x, sent %x", top, p4)
							}
							return nil
						})
					}
				}
			}
			t.Outcome("ok")
		})

		r.Part("E4-frame-helpers", func(t *explore.T) {
			key := keys[1]
			sizes := []int{}
			for i := 0; i <= 40; i++ {
				sizes = append(sizes, i)
			}
			sizes = append(sizes, 125, 126, 4096, 65537)
			// every power of two up to 4 MiB with its neighbours: thresholds at which an
			// implementation may switch to another way of copying and ciphering
			for k := 7; k <= 22; k++ {
				sizes = append(sizes, 1<<k-1, 1<<k, 1<<k+5)
			}
			for _, n := range sizes {
				n := n
				t.Do(func() string { return fmt.Sprintf("helpers n=%d", n) }, func() *explore.Fail {
					orig := fill(n, 1)
					mk := func() ws.Frame { return ws.NewBinaryFrame(append([]byte{}, orig...)) }
					// copying variants
					{
						f := mk()
						in := f.Payload
						g := ws.MaskFrameWith(f, key)
						if !bytes.Equal(in, orig) || f.Header.Masked {
							return explore.Failf("MaskFrameWith-mutates-input", "")
						}
						if !g.Header.Masked || g.Header.Mask != key || !bytes.Equal(g.Payload, refmodel.XOR(orig, key, 0)) {
							return explore.Failf("MaskFrameWith-result", "")
						}
						if n > 0 && &g.Payload[0] == &in[0] {
							return explore.Failf("MaskFrameWith-aliases", "")
						}
						if g.Header.Length != int64(n) || g.Header.OpCode != ws.OpBinary || !g.Header.Fin {
							return explore.Failf("MaskFrameWith-header", "")
						}
					}
					{
						f := mk()
						in := f.Payload
						g := ws.MaskFrame(f)
						if !bytes.Equal(in, orig) {
							return explore.Failf("MaskFrame-mutates-input", "")
						}
						if !g.Header.Masked || !bytes.Equal(g.Payload, refmodel.XOR(orig, g.Header.Mask, 0)) {
							return explore.Failf("MaskFrame-result", "")
						}
						if n > 0 && &g.Payload[0] == &in[0] {
							return explore.Failf("MaskFrame-aliases", "")
						}
					}
					{
						f := mk()
						f.Header.Masked, f.Header.Mask = true, key
						in := f.Payload
						g := ws.UnmaskFrame(f)
						if !bytes.Equal(in, orig) || !f.Header.Masked {
							return explore.Failf("UnmaskFrame-mutates-input", "")
						}
						if g.Header.Masked || g.Header.Mask != [4]byte{} || !bytes.Equal(g.Payload, refmodel.XOR(orig, key, 0)) {
							return explore.Failf("UnmaskFrame-result", "")
						}
						if n > 0 && &g.Payload[0] == &in[0] {
							return explore.Failf("UnmaskFrame-aliases", "")
						}
					}
					// the copying variants on frames in every header state (mask bit set or clear,
					// mask key zero or not): the input is never modified, the result never aliases it,
					// the transform is the XOR with the key in the header (Unmask) / the new key (Mask)
					for _, masked := range []bool{false, true} {
						for _, hk := range [][4]byte{{}, {9, 8, 7, 6}} {
							f := mk()
							f.Header.Masked, f.Header.Mask = masked, hk
							in := f.Payload
							g := ws.UnmaskFrame(f)
							if !bytes.Equal(in, orig) {
								return explore.Failf("UnmaskFrame-mutates-input", "header masked=%v key=%x", masked, hk)
							}
							if !bytes.Equal(g.Payload, refmodel.XOR(orig, hk, 0)) || g.Header.Masked || g.Header.Mask != [4]byte{} {
								return explore.Failf("UnmaskFrame-result", "header masked=%v key=%x", masked, hk)
							}
							if n > 0 && &g.Payload[0] == &in[0] {
								return explore.Failf("UnmaskFrame-aliases", "")
							}
							h := ws.MaskFrameWith(f, key)
							if !bytes.Equal(in, orig) {
								return explore.Failf("MaskFrameWith-mutates-input", "header masked=%v key=%x", masked, hk)
							}
							if !h.Header.Masked || h.Header.Mask != key || !bytes.Equal(h.Payload, refmodel.XOR(orig, key, 0)) {
								return explore.Failf("MaskFrameWith-result", "header masked=%v key=%x", masked, hk)
							}
							h2 := ws.MaskFrame(f)
							if !bytes.Equal(in, orig) {
								return explore.Failf("MaskFrame-mutates-input", "header masked=%v key=%x", masked, hk)
							}
							if !h2.Header.Masked || !bytes.Equal(h2.Payload, refmodel.XOR(orig, h2.Header.Mask, 0)) {
								return explore.Failf("MaskFrame-result", "header masked=%v key=%x", masked, hk)
							}
						}
					}
					// in-place variants
					{
						f := mk()
						g := ws.MaskFrameInPlaceWith(f, key)
						if !g.Header.Masked || g.Header.Mask != key || !bytes.Equal(g.Payload, refmodel.XOR(orig, key, 0)) {
							return explore.Failf("MaskFrameInPlaceWith-result", "")
						}
						if n > 0 && &g.Payload[0] != &f.Payload[0] {
							return explore.Failf("MaskFrameInPlaceWith-not-inplace", "")
						}
						h := ws.UnmaskFrameInPlace(g)
						if h.Header.Masked || h.Header.Mask != [4]byte{} || !bytes.Equal(h.Payload, orig) {
							return explore.Failf("UnmaskFrameInPlace-result", "")
						}
					}
					{
						f := mk()
						g := ws.MaskFrameInPlace(f)
						if !g.Header.Masked || !bytes.Equal(g.Payload, refmodel.XOR(orig, g.Header.Mask, 0)) {
							return explore.Failf("MaskFrameInPlace-result", "")
						}
					}
					return nil
				})
			}
			t.Outcome("ok")
		})
	})
}

// repeatSrc serves the same block over and over (an endless stream without the memory).
type repeatSrc struct {
	block []byte
}

func (r *repeatSrc) Read(p []byte) (int, error) {
	// every Read of the harness asks for a prefix of the block
	return copy(p, r.block), nil
}

// watchDst calls look before handing each Write to the inner destination.
type watchDst struct {
	inner io.Writer
	look  func()
}

func (w *watchDst) Write(p []byte) (int, error) {
	w.look()
	return w.inner.Write(p)
}

// lastDst keeps only the bytes of the last Write.
type lastDst struct{ last []byte }

func (d *lastDst) Write(p []byte) (int, error) {
	d.last = append(d.last[:0], p...)
	return len(p), nil
}

func firstDiff(a, b []byte) int {
	for i := 0; i < len(a) && i < len(b); i++ {
		if a[i] != b[i] {
			return i
		}
	}
	if len(a) < len(b) {
		return len(a)
	}
	return len(b)
}

// silentShortDst takes at most take bytes per call and reports no error.
type silentShortDst struct {
	take int
	got  []byte
}

func (d *silentShortDst) Write(p []byte) (int, error) {
	n := d.take
	if n > len(p) {
		n = len(p)
	}
	d.got = append(d.got, p[:n]...)
	return n, nil
}
