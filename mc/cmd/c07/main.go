// C07: text messages are accepted iff their whole payload is valid UTF-8.
package main

import (
	"bytes"
	"fmt"
	"io"
	"unicode/utf8"

	"github.com/gobwas/ws"
	"github.com/gobwas/ws/wsflate"
	"github.com/gobwas/ws/wsutil"

	"verifmc/drivers"
	"verifmc/env"
	"verifmc/explore"
	"verifmc/fp"
	"verifmc/refmodel"
	"verifmc/streams"
)

// ---- reference automaton: state = pending incomplete sequence, "" = ACCEPT, "!" = REJECT.

func refStep(pending string, b byte) string {
	if pending == "!" {
		return "!"
	}
	s := pending + string([]byte{b})
	if utf8.ValidString(s) {
		return ""
	}
	// is s a proper prefix of some valid encoding? decide with the standard library:
	// FullRune reports false exactly when s could still be completed.
	if len(s) < 4 && !utf8.FullRuneInString(s) {
		// FullRune is false also for some prefixes that can never complete (e.g. E0 80);
		// use DecodeRune on a completed probe: try every completion class.
		if completable(s) {
			return s
		}
	}
	return "!"
}

// completable reports whether some continuation makes s valid, by brute force over the
// continuation bytes that matter (boundary values of each continuation range).
func completable(s string) bool {
	conts := []byte{0x80, 0x8f, 0x90, 0x9f, 0xa0, 0xbf}
	var rec func(cur string, depth int) bool
	rec = func(cur string, depth int) bool {
		if utf8.ValidString(cur) {
			return true
		}
		if depth == 0 {
			return false
		}
		for _, c := range conts {
			if rec(cur+string([]byte{c}), depth-1) {
				return true
			}
		}
		return false
	}
	return rec(s, 4-len(s))
}

type implState struct {
	state, codep uint32
	rejected     bool
}

// runImpl feeds s one byte per Read to a fresh UTF8Reader.
func runImpl(s []byte) (st implState, valid bool, err error) {
	src := env.NewSrc(s)
	src.Policy = env.FixedChunk(1)
	u := wsutil.NewUTF8Reader(src)
	b := make([]byte, 1)
	for {
		_, e := u.Read(b)
		if e == io.EOF {
			break
		}
		if e != nil {
			err = e
			break
		}
	}
	st.state = uint32(fp.Field(u, "state").Uint())
	st.codep = uint32(fp.Field(u, "codep").Uint())
	return st, u.Valid(), err
}

var units = [][]byte{
	[]byte("a"), {0xC3, 0xA9}, {0xE2, 0x82, 0xAC}, {0xF0, 0x9F, 0x98, 0x80},
	{0xC0, 0x80}, {0xED, 0xA0, 0x80}, {0xF4, 0x90, 0x80, 0x80}, {0xE2, 0x82}, {0x80}, {0xFF},
}

func main() {
	explore.Main("C07", func(r *explore.Run) {
		r.Part("E1-automaton-product", func(t *explore.T) {
			type pair struct {
				impl implState
				ref  string
			}
			seen := map[pair]string{} // pair -> shortest string reaching it
			implToRef := map[uint32]string{}
			start := pair{implState{}, ""}
			seen[start] = ""
			queue := []pair{start}
			for len(queue) > 0 {
				p := queue[0]
				queue = queue[1:]
				path := seen[p]
				for b := 0; b < 256; b++ {
					s := append([]byte(path), byte(b))
					var np pair
					t.Do(func() string { return fmt.Sprintf("after %x feed %02x", path, b) }, func() *explore.Fail {
						st, valid, err := runImpl(s)
						ref := refStep(p.ref, byte(b))
						key := st
						if ref == "" || ref == "!" {
							// codep is dead in the accepting and rejecting states (the DFA overwrites
							// it on the next lead byte); keeping it would make the pair space
							// one-per-code-point. E2 covers dependence on it separately.
							key.codep = 0
						}
						np = pair{key, ref}
						if valid != (ref == "") {
							return explore.Failf("Valid-disagrees", "string %x: Valid()=%v ref state %q", s, valid, ref)
						}
						if (err != nil) != (ref == "!") {
							return explore.Failf("error-disagrees", "string %x: err=%v ref state %q", s, err, ref)
						}
						if err != nil && err != wsutil.ErrInvalidUTF8 {
							return explore.Failf("wrong-error", "%v", err)
						}
						if valid != utf8.Valid(s) {
							return explore.Failf("Valid-vs-stdlib", "string %x", s)
						}
						// functional relation impl state -> ref class
						cls := refClass(ref)
						if prev, ok := implToRef[st.state]; ok && prev != cls {
							return explore.Failf("impl-state-not-functional", "impl DFA state %d maps to ref classes %q and %q (string %x)", st.state, prev, cls, s)
						}
						implToRef[st.state] = cls
						return nil
					})
					if _, ok := seen[np]; !ok && np.ref != "!" {
						seen[np] = string(s)
						queue = append(queue, np)
					} else if np.ref == "!" {
						if _, ok := seen[np]; !ok {
							seen[np] = string(s)
							// REJECT is absorbing: explore it once
							queue = append(queue, np)
						}
					}
				}
			}
			t.Count(int64(len(seen))-t.StatesSoFar(), 0)
			t.Outcome("accept")
			t.Outcome("pending")
			t.Outcome("reject")
			t.Note(fmt.Sprintf("product of the real UTF8Reader DFA (state,codep read by reflection; driven one byte per Read from a fresh instance along the shortest path) with the reference automaton whose state is the pending incomplete sequence: %d reachable pairs x 256 bytes; closes the induction for strings of every length", len(seen)))
		})

		r.Part("E2-all-short-strings", func(t *explore.T) {
			maxLen := 3
			check := func(s []byte) *explore.Fail {
				want := utf8.Valid(s)
				// chunk -1 / -2: whole / byte-wise delivery where the last bytes come together with io.EOF
				for _, chunk := range []int{1, 0, -1, -2} {
					src := env.NewSrc(s)
					if chunk > 0 {
						src.Policy = env.FixedChunk(chunk)
					} else if chunk == -2 {
						src.Policy = env.FixedChunk(1)
					}
					src.WithLast = chunk < 0
					u := wsutil.NewUTF8Reader(src)
					buf := make([]byte, 8)
					var err error
					total := 0
					for {
						var n int
						n, err = u.Read(buf)
						total += n
						if err != nil {
							break
						}
					}
					got := err == io.EOF && u.Valid()
					if got != want {
						return explore.Failf("verdict", "string %x chunk=%d: err=%v Valid=%v want %v", s, chunk, err, u.Valid(), want)
					}
					if err != io.EOF && err != wsutil.ErrInvalidUTF8 {
						return explore.Failf("wrong-error", "%v", err)
					}
					if err == io.EOF && total != len(s) {
						return explore.Failf("bytes-lost", "read %d of %d", total, len(s))
					}
				}
				return nil
			}
			t.Par(256*256, func(i int) {
				b0, b1 := byte(i>>8), byte(i)
				if b1 == 0 {
					if b0 == 0 {
						t.Do(func() string { return "empty string" }, func() *explore.Fail { return check(nil) })
					}
					t.Do(func() string { return fmt.Sprintf("string %02x", b0) }, func() *explore.Fail { return check([]byte{b0}) })
				}
				t.Do(func() string { return fmt.Sprintf("string %02x%02x", b0, b1) }, func() *explore.Fail { return check([]byte{b0, b1}) })
				if maxLen >= 3 {
					t.DoN(256, func() string { return fmt.Sprintf("strings %02x%02x??", b0, b1) }, func() *explore.Fail {
						s := []byte{b0, b1, 0}
						for b2 := 0; b2 < 256; b2++ {
							s[2] = byte(b2)
							if f := check(s); f != nil {
								return f
							}
						}
						return nil
					})
				}
			})
			// structured 4-byte cover: every lead byte x boundary continuation values
			conts := []byte{0x00, 0x7f, 0x80, 0x8f, 0x90, 0x9f, 0xa0, 0xbf, 0xc0, 0xff}
			t.Par(256, func(lead int) {
				for _, c1 := range conts {
					for _, c2 := range conts {
						for _, c3 := range conts {
							s := []byte{byte(lead), c1, c2, c3}
							t.Do(func() string { return fmt.Sprintf("string %x", s) }, func() *explore.Fail { return check(s) })
						}
					}
				}
			})
			t.Outcome("valid")
			t.Outcome("invalid")
		})

		r.Part("E3-reader-integration", func(t *explore.T) {
			maxUnits := t.Pick(2, 3)
			var msgs [][]byte
			var gen func(cur []byte, k int)
			gen = func(cur []byte, k int) {
				if k > 0 {
					msgs = append(msgs, append([]byte{}, cur...))
				}
				if k == maxUnits {
					return
				}
				for _, u := range units {
					gen(append(append([]byte{}, cur...), u...), k+1)
				}
			}
			gen(nil, 0)
			msgs = append(msgs, []byte{})
			seconds := [][]byte{[]byte("a"), {0x80}, {0xC3, 0xA9}}
			ds := []drivers.Driver{drivers.ReaderLoop(1), drivers.ReaderLoop(512), drivers.ReadMessageLoop(), drivers.ReadDataLoop("Generic"),
				drivers.ReaderContinuationHandler(1), drivers.ReaderContinuationHandler(64), drivers.ReaderCopy(), drivers.ReaderReceiveLoop()}
			t.Par(len(msgs), func(mi int) {
				msg := msgs[mi]
				n := len(msg)
				for a := 0; a <= n; a++ {
					for b := a; b <= n; b++ {
						for nfrag := 1; nfrag <= 3; nfrag++ {
							if nfrag == 1 && (a != 0 || b != 0) {
								continue
							}
							if nfrag == 2 && b != a {
								continue
							}
							var parts [][]byte
							switch nfrag {
							case 1:
								parts = [][]byte{msg}
							case 2:
								parts = [][]byte{msg[:a], msg[a:]}
							case 3:
								parts = [][]byte{msg[:a], msg[a:b], msg[b:]}
							}
							for pingMask := 0; pingMask < 1<<uint(nfrag-1); pingMask++ {
								for _, op := range []byte{1, 2} {
									for si, second := range seconds {
										for _, side := range []streams.Side{streams.Server, streams.Client} {
											var frames []streams.Frame
											mkf := func(o byte, fin bool, p []byte) streams.Frame {
												f := streams.Frame{H: refmodel.Hdr{Fin: fin, Op: o, Masked: side == streams.Server, Mask: streams.Masks[(len(frames)/2+len(p)+int(o))%3]}, Payload: p}
												return f
											}
											for i, p := range parts {
												o := byte(0)
												if i == 0 {
													o = op
												}
												frames = append(frames, mkf(o, i == len(parts)-1, p))
												if i < len(parts)-1 && pingMask&(1<<uint(i)) != 0 {
													frames = append(frames, mkf(9, true, []byte("pi")))
												}
											}
											nFirst := len(frames)
											frames = append(frames, mkf(1, true, second))
											data, _ := streams.Wire(frames)
											for _, d := range ds {
												for _, ch := range []int{0, 1, -1} {
													d, ch, frames, op, second := d, ch, frames, op, second
													t.Do(func() string {
														return fmt.Sprintf("%s %s driver=%s chunk=%d second#%d", side, streams.Describe(frames), d.Name, ch, si)
													}, func() *explore.Fail {
														src := env.NewSrc(data)
														if ch > 0 {
															src.Policy = env.FixedChunk(ch)
														} else if ch < 0 {
															// the transport hands over every frame's last bytes with nothing
															// behind them yet: model a source that reports io.EOF together
															// with the final bytes of the stream
															src.WithLast = true
														}
														var res drivers.Result
														d.Run(src, side, drivers.Cfg{CheckUTF8: true}, &res)
														firstOK := op == 2 || utf8.Valid(msg)
														secondOK := utf8.Valid(second)
														var want []drivers.Event
														wantErr := error(io.EOF)
														if firstOK && secondOK {
															ev, _ := refmodel.Messages(frames)
															want = d.Expect(ev)
														} else if firstOK {
															ev, _ := refmodel.Messages(frames[:nFirst])
															want = d.Expect(ev)
															wantErr = wsutil.ErrInvalidUTF8
														} else {
															wantErr = wsutil.ErrInvalidUTF8
														}
														cls := fmt.Sprintf("op%d-first%v-second%v", op, firstOK, secondOK)
														if !firstOK {
															// only control events before the failure may be delivered; never the message
															for _, e := range res.Events {
																if e.Kind == "msg" {
																	return explore.Failf("invalid-text-delivered:"+d.Name, "events %s", drivers.FmtEvents(res.Events))
																}
															}
															if res.Err != wantErr {
																return explore.Failf("invalid-text-wrong-error:"+d.Name, "err=%v", res.Err)
															}
															if src.Off > len(data)-len(frames[len(frames)-1].Wire()) {
																return explore.Failf("invalid-reported-late:"+d.Name, "consumed %d: beyond the end of the invalid message", src.Off)
															}
															t.Outcome(cls)
															return nil
														}
														if !drivers.EqualEvents(res.Events, want) {
															return explore.Failf("events-mismatch:"+d.Name+":"+cls, "got %s want %s err=%v", drivers.FmtEvents(res.Events), drivers.FmtEvents(want), res.Err)
														}
														if res.Err != wantErr {
															return explore.Failf("wrong-terminal-error:"+d.Name+":"+cls, "err=%v want %v", res.Err, wantErr)
														}
														t.Outcome(cls)
														return nil
													})
												}
											}
										}
									}
								}
							}
						}
					}
				}
			})
			t.Note(fmt.Sprintf("messages of <=%d units from 10 valid/invalid/truncated sequences, every split into <=3 fragments at every byte position (empty fragments included), optional Ping after each fragment, Text/Binary, second message on the same reader, both sides, 4 drivers, chunk inf/1", maxUnits))
		})

		// A text message read only partially (possibly stopping inside a multi-byte sequence) and
		// then discarded must not influence the verdict on the next message of the same reader.
		r.Part("E4-partial-read-discard-then-next-message", func(t *explore.T) {
			firsts := [][]byte{[]byte("ab"), {0xC3, 0xA9, 'x'}, {0xE2, 0x82, 0xAC}, {0xF0, 0x9F, 0x98, 0x80, 'z'}, {'a', 0xE2, 0x82, 0xAC}, {'a', 0xFF, 'b'}, {0xE2, 0x82}}
			seconds := [][]byte{[]byte("hello"), {0x81}, {0xC3, 0xA9}, {0x82, 0xAC}, {}}
			for _, side := range []streams.Side{streams.Server, streams.Client} {
				for _, first := range firsts {
					for _, second := range seconds {
						for k := 0; k <= 2; k++ {
							for _, nfrag := range []int{1, 2} {
								for _, ch := range []int{0, 1} {
									side, first, second, k, nfrag, ch := side, first, second, k, nfrag, ch
									t.Do(func() string {
										return fmt.Sprintf("%s first=%x (frags=%d) read %d byte(s) then Discard; second=%x chunk=%d", side, first, nfrag, k, second, ch)
									}, func() *explore.Fail {
										var frames []streams.Frame
										mkf := func(o byte, fin bool, p []byte) streams.Frame {
											return streams.Frame{H: refmodel.Hdr{Fin: fin, Op: o, Masked: side == streams.Server, Mask: streams.Masks[(len(frames)/2+len(p)+int(o))%3]}, Payload: p}
										}
										if nfrag == 1 {
											frames = append(frames, mkf(1, true, first))
										} else {
											frames = append(frames, mkf(1, false, first[:1]), mkf(0, true, first[1:]))
										}
										frames = append(frames, mkf(1, true, second))
										data, _ := streams.Wire(frames)
										src := env.NewSrc(data)
										src.Policy = env.FixedChunk(ch)
										var res drivers.Result
										drivers.ReaderDiscard(k).Run(src, side, drivers.Cfg{CheckUTF8: true}, &res)
										// what the first k bytes mean for the validator
										st := ""
										n := k
										if n > len(first) {
											n = len(first)
										}
										for _, b := range first[:n] {
											st = refStep(st, b)
										}
										if st == "!" {
											if res.Err != wsutil.ErrInvalidUTF8 {
												return explore.Failf("invalid-prefix-not-reported", "err=%v", res.Err)
											}
											t.Outcome("first-prefix-invalid")
											return nil
										}
										if n == len(first) && k >= len(first) && !utf8.Valid(first) {
											// the whole first message was read and is invalid: an error is due
											if res.Err != wsutil.ErrInvalidUTF8 {
												return explore.Failf("invalid-first-not-reported", "err=%v", res.Err)
											}
											t.Outcome("first-invalid")
											return nil
										}
										if len(res.Events) == 0 {
											return explore.Failf("first-message-lost", "err=%v", res.Err)
										}
										// second message judged on its own
										wantSecond := utf8.Valid(second)
										gotSecond := len(res.Events) >= 2
										if wantSecond && !(gotSecond && res.Err == io.EOF) {
											return explore.Failf("valid-message-rejected-after-discarded-one", "second=%x events=%s err=%v", second, drivers.FmtEvents(res.Events), res.Err)
										}
										if !wantSecond {
											// ReaderDiscard reads k bytes of the second message too, then discards it: an
											// invalid second message may therefore be skipped unread; it must never be
											// delivered *complete* as valid when it was read to its end
											if k >= len(second) && len(second) > 0 && gotSecond && res.Err == io.EOF {
												return explore.Failf("invalid-message-accepted-after-discarded-one", "second=%x events=%s", second, drivers.FmtEvents(res.Events))
											}
										}
										t.Outcome(fmt.Sprintf("second-valid=%v", wantSecond))
										return nil
									})
								}
							}
						}
					}
				}
			}
		})

		// E1 closes the induction for a validator that looks at one byte at a time. A validator
		// may also take wider steps over what one Read delivered (word- or block-wise ASCII
		// skipping); those are exercised here: u + 'a'*L + v for every pair of sequences u, v
		// (valid, truncated, orphan continuation), every run length up to 33 (covers 8-, 16-
		// and 32-byte blocks and one byte either side), shifted by 0..8 leading ASCII bytes, under
		// several caller buffer sizes and transport chunkings. The verdict is utf8.Valid of the
		// whole payload, whatever the chunking.
		r.Part("E5-ascii-runs-and-block-widths", func(t *explore.T) {
			ends := [][]byte{{}, {0xC3, 0xA9}, {0xE2, 0x82, 0xAC}, {0xF0, 0x9F, 0x98, 0x80}, {0xC3}, {0xE2}, {0xE2, 0x82}, {0xF0, 0x9F}, {0xF0, 0x9F, 0x98}, {0x80}, {0xAC}, {0x82, 0xAC}, {0x98, 0x80}, {0xFF}}
			maxRun, maxShift := 33, 8
			t.Par(len(ends)*len(ends), func(i int) {
				u, v := ends[i/len(ends)], ends[i%len(ends)]
				for shift := 0; shift <= maxShift; shift++ {
					for run := 0; run <= maxRun; run++ {
						t.DoN(36, func() string { return fmt.Sprintf("payload a*%d %x a*%d %x", shift, u, run, v) }, func() *explore.Fail {
							var s []byte
							for k := 0; k < shift; k++ {
								s = append(s, 'a')
							}
							s = append(s, u...)
							for k := 0; k < run; k++ {
								s = append(s, byte('b'+k%20))
							}
							s = append(s, v...)
							want := utf8.Valid(s)
							for _, bufsz := range []int{1, 3, 8, 9, 64} {
								for _, chunk := range []int{0, 1, 8, 16, 17, 20} {
									if chunk > 8 && bufsz < 64 {
										continue
									}
									// what the caller's buffer holds beyond the bytes of this Read is none of
									// the validator's business: modes 0..2 fill it with continuation / invalid /
									// ASCII bytes, modes 3..5 put exactly 1..3 continuation bytes (then ASCII)
									// right behind the bytes the Read is going to deliver, so that stale bytes
									// would complete a sequence the chunk cut in two
									for mode := 0; mode < 6; mode++ {
										if bufsz < 64 && mode != (chunk+bufsz)%6 {
											continue
										}
										src := env.NewSrc(s)
										src.Policy = env.FixedChunk(chunk)
										ur := wsutil.NewUTF8Reader(src)
										buf := make([]byte, bufsz)
										var err error
										total := 0
										for {
											n0 := len(s) - src.Off
											if chunk > 0 && chunk < n0 {
												n0 = chunk
											}
											for k := range buf {
												switch {
												case mode < 3:
													buf[k] = []byte{0x80, 0xFF, 'a'}[mode]
												case k >= n0 && k < n0+mode-2:
													buf[k] = 0x98
												default:
													buf[k] = 'a'
												}
											}
											var n int
											n, err = ur.Read(buf)
											total += n
											if err != nil {
												break
											}
										}
										if got := err == io.EOF && ur.Valid(); got != want {
											return explore.Failf("verdict-depends-on-block-width", "payload %x buffer=%d chunk=%d stale-mode=%d: err=%v Valid=%v want valid=%v", s, bufsz, chunk, mode, err, ur.Valid(), want)
										}
										if err == io.EOF && total != len(s) {
											return explore.Failf("bytes-lost", "read %d of %d", total, len(s))
										}
									}
								}
							}
							// the same payload as one text frame through the message readers
							f := streams.Frame{H: refmodel.Hdr{Fin: true, Op: 1}, Payload: s}
							data, _ := streams.Wire([]streams.Frame{f})
							for _, d := range []drivers.Driver{drivers.ReadMessageLoop(), drivers.ReaderLoop(512)} {
								var res drivers.Result
								d.Run(env.NewSrc(data), streams.Client, drivers.Cfg{CheckUTF8: true}, &res)
								delivered := false
								for _, e := range res.Events {
									if e.Kind == "msg" {
										delivered = true
									}
								}
								if delivered != want || (res.Err == wsutil.ErrInvalidUTF8) == want {
									return explore.Failf("message-verdict-depends-on-block-width:"+d.Name, "payload %x: delivered=%v err=%v want valid=%v", s, delivered, res.Err, want)
								}
							}
							t.Outcome(fmt.Sprintf("valid=%v", want))
							return nil
						})
					}
				}
			})
		})

		// A text message rejected for its content (read to its very end, or only in part), which
		// the caller then discards, leaves nothing behind: the next text message is judged on its
		// own bytes alone.
		r.Part("E4b-rejected-message-discarded-then-next-message", func(t *explore.T) {
			bad := [][]byte{{0xff}, {'a', 0xff}, {0xe2, 0x82}, {'a', 'b', 0xc3}, {0xf0, 0x9f, 0x98}, {0xed, 0xa0, 0x80}, {0xc3, 0xa9, 0x80}, {'o', 'k'}}
			nexts := [][]byte{[]byte("hello"), {0xac}, {0x82, 0xac}, {0xa9}, {0x98, 0x80}, {0xc3, 0xa9}, {}}
			for _, side := range []streams.Side{streams.Server, streams.Client} {
				for _, first := range bad {
					for split := 0; split <= len(first); split++ {
						for _, how := range []string{"read-to-the-end", "read-1-byte", "not-read"} {
							for _, next := range nexts {
								side, first, split, how, next := side, first, split, how, next
								t.Do(func() string {
									return fmt.Sprintf("%s text %x|%x (%s), Discard, then text %x", side, first[:split], first[split:], how, next)
								}, func() *explore.Fail {
									mk := func(i int, op byte, fin bool, p []byte) []byte {
										return streams.Frame{H: refmodel.Hdr{Fin: fin, Op: op, Masked: side == streams.Server, Mask: streams.Masks[i%3]}, Payload: p}.Wire()
									}
									var data []byte
									if split == 0 || split == len(first) {
										data = mk(0, 1, true, first)
									} else {
										data = append(mk(0, 1, false, first[:split]), mk(0, 0, true, first[split:])...)
									}
									data = append(data, mk(1, 1, true, next)...)
									rd := &wsutil.Reader{Source: env.NewSrc(data), State: drivers.State(side), CheckUTF8: true}
									if _, err := rd.NextFrame(); err != nil {
										return explore.Failf("harness-first-frame", "%v", err)
									}
									switch how {
									case "read-to-the-end":
										io.ReadAll(rd)
									case "read-1-byte":
										rd.Read(make([]byte, 1))
									}
									if err := rd.Discard(); err != nil && err != wsutil.ErrInvalidUTF8 {
										return explore.Failf("Discard-error", "%v", err)
									}
									if _, err := rd.NextFrame(); err != nil {
										return explore.Failf("next-frame-refused", "%v", err)
									}
									p, err := io.ReadAll(rd)
									if want := utf8.Valid(next); want != (err == nil) {
										return explore.Failf("next-message-verdict-depends-on-rejected-one", "next %x: err=%v, utf8.Valid=%v", next, err, want)
									}
									if err == nil && !bytes.Equal(p, next) {
										return explore.Failf("next-message-payload", "got %x want %x", p, next)
									}
									return nil
								})
							}
						}
					}
				}
			}
			t.Outcome("independent")
		})

		// A fragmented text message during which the caller sees a recoverable error exactly at
		// a frame boundary (a transient transport error before the next header; an error returned
		// once by the caller's own control handler) and simply calls Read again. Whatever the
		// reader does on its error path, the verdict on the message stays utf8.Valid(payload).
		r.Part("E6-recoverable-error-between-fragments", func(t *explore.T) {
			var msgs [][]byte
			var gen func(cur []byte, k int)
			gen = func(cur []byte, k int) {
				if k > 0 {
					msgs = append(msgs, append([]byte{}, cur...))
				}
				if k == 3 {
					return
				}
				for _, u := range units {
					gen(append(append([]byte{}, cur...), u...), k+1)
				}
			}
			gen(nil, 0)
			errHandler := fmt.Errorf("handler: not now")
			t.Par(len(msgs), func(mi int) {
				msg := msgs[mi]
				for a := 0; a <= len(msg); a++ {
					for _, how := range []string{"transient-transport-error", "handler-error-on-ping"} {
						for _, side := range []streams.Side{streams.Server, streams.Client} {
							a, how, side := a, how, side
							t.Do(func() string {
								return fmt.Sprintf("%s text %x | %x, %s at the fragment boundary, caller reads on", side, msg[:a], msg[a:], how)
							}, func() *explore.Fail {
								mkf := func(i int, o byte, fin bool, p []byte) []byte {
									return streams.Frame{H: refmodel.Hdr{Fin: fin, Op: o, Masked: side == streams.Server, Mask: streams.Masks[i%3]}, Payload: p}.Wire()
								}
								data := mkf(0, 1, false, msg[:a])
								boundary := len(data)
								if how == "handler-error-on-ping" {
									data = append(data, mkf(1, 9, true, nil)...)
								}
								data = append(data, mkf(2, 0, true, msg[a:])...)
								src := env.NewSrc(data)
								if how == "transient-transport-error" {
									src.HiccupAt, src.HiccupErr = boundary, env.TempErr{IsTimeout: true}
								}
								rd := &wsutil.Reader{Source: src, State: drivers.State(side), CheckUTF8: true}
								fired := false
								rd.OnIntermediate = func(h ws.Header, r io.Reader) error {
									if how == "handler-error-on-ping" && !fired {
										fired = true
										return errHandler
									}
									return nil
								}
								if _, err := rd.NextFrame(); err != nil {
									return explore.Failf("harness-first-frame", "%v", err)
								}
								var got []byte
								var err error
								buf := make([]byte, 16)
								recovered := 0
								for it := 0; it < 200; it++ {
									var n int
									n, err = rd.Read(buf)
									got = append(got, buf[:n]...)
									if err == errHandler || err == error(env.TempErr{IsTimeout: true}) {
										recovered++
										continue
									}
									if err != nil {
										break
									}
								}
								want := utf8.Valid(msg)
								accepted := err == io.EOF
								if accepted && !want {
									return explore.Failf("invalid-text-accepted-after-recoverable-error:"+how, "payload %x delivered as valid (recovered %d time(s))", msg, recovered)
								}
								if accepted && !bytes.Equal(got, msg) {
									return explore.Failf("payload-differs-after-recoverable-error:"+how, "got %x want %x", got, msg)
								}
								if !accepted && want && err == wsutil.ErrInvalidUTF8 {
									return explore.Failf("valid-text-rejected-after-recoverable-error:"+how, "payload %x", msg)
								}
								t.Outcome(fmt.Sprintf("valid=%v accepted=%v", want, accepted))
								return nil
							})
						}
					}
				}
			})
		})

		// "Wherever ... interleaved control frames ... fall": a text message whose two halves (cut
		// inside a multi-byte sequence) are separated by a long run of control frames and empty
		// continuations - 99, 100, 101, 257 of them - is judged by its payload alone.
		r.Part("E8-long-runs-of-control-frames-inside-a-text-message", func(t *explore.T) {
			texts := []struct {
				name string
				a, b []byte
			}{
				{"valid a-euro-b cut inside the euro sign", []byte("a\xe2\x82"), []byte("\xacb")},
				{"invalid: the sequence is never completed", []byte("a\xe2\x82"), []byte("(b")},
				{"valid ASCII", []byte("he"), []byte("llo")},
			}
			ds := []drivers.Driver{drivers.ReaderLoop(512), drivers.ReaderLoop(1), drivers.ReaderCopy(), drivers.ReadMessageLoop(), drivers.ReadDataLoop("Generic"), drivers.ReadDataLoop("Text"), drivers.ReaderReceiveLoop()}
			for _, side := range []streams.Side{streams.Server, streams.Client} {
				for _, tx := range texts {
					for _, n := range []int{99, 100, 101, 257} {
						for _, mix := range []string{"pings", "pongs(p)", "empty-continuations", "mixed"} {
							var frames []streams.Frame
							mk := func(i int, op byte, fin bool, p []byte) streams.Frame {
								return streams.Frame{H: refmodel.Hdr{Fin: fin, Op: op, Masked: side == streams.Server, Mask: streams.Masks[i%3]}, Payload: p}
							}
							frames = append(frames, mk(0, 1, false, tx.a))
							for i := 0; i < n; i++ {
								switch {
								case mix == "pings" || (mix == "mixed" && i%3 == 0):
									frames = append(frames, mk(i, 9, true, nil))
								case mix == "pongs(p)" || (mix == "mixed" && i%3 == 1):
									frames = append(frames, mk(i, 10, true, []byte("p")))
								default:
									frames = append(frames, mk(i, 0, false, nil))
								}
							}
							frames = append(frames, mk(1, 0, true, tx.b))
							data, _ := streams.Wire(frames)
							full := append(append([]byte{}, tx.a...), tx.b...)
							for _, d := range ds {
								side, tx, n, mix, d := side, tx, n, mix, d
								t.Do(func() string {
									return fmt.Sprintf("%s text (%s) with %d x %s between its halves, driver=%s", side, tx.name, n, mix, d.Name)
								}, func() *explore.Fail {
									var res drivers.Result
									d.Run(env.NewSrc(data), side, drivers.Cfg{CheckUTF8: true}, &res)
									var got []byte
									delivered := false
									for _, e := range res.Events {
										if e.Kind == "msg" {
											delivered = true
											got = e.Payload
										}
									}
									if utf8.Valid(full) {
										if !delivered || !bytes.Equal(got, full) || res.Err != io.EOF {
											return explore.Failf("valid-text-behind-a-long-run-of-control-frames-not-delivered:"+d.Name, "err=%v delivered=%v payload %x", res.Err, delivered, got)
										}
										return nil
									}
									if delivered {
										return explore.Failf("invalid-text-delivered:"+d.Name, "%x", got)
									}
									if res.Err != wsutil.ErrInvalidUTF8 {
										return explore.Failf("invalid-text-behind-a-long-run-other-error:"+d.Name, "%v", res.Err)
									}
									return nil
								})
							}
						}
					}
				}
			}
			t.Outcome("judged-by-payload")
		})

		// The reader of a connection that negotiated permessage-deflate: its extension list holds
		// the message state that the application shares with its writer (as the autobahn example
		// does). While an uncompressed fragmented text message is still arriving the application
		// sends a compressed message of its own - from the ping handler, or between two reads -
		// and so switches the shared state to "compressed". The verdict on the incoming message
		// is still utf8.Valid of its whole payload.
		r.Part("E7-text-arriving-while-a-shared-extension-state-changes", func(t *explore.T) {
			var msgs [][]byte
			var gen func(cur []byte, k int)
			gen = func(cur []byte, k int) {
				if k > 0 {
					msgs = append(msgs, append([]byte{}, cur...))
				}
				if k == 3 {
					return
				}
				for _, u := range units {
					gen(append(append([]byte{}, cur...), u...), k+1)
				}
			}
			gen(nil, 0)
			t.Par(len(msgs), func(mi int) {
				msg := msgs[mi]
				for a := 0; a <= len(msg); a++ {
					for _, when := range []string{"in-ping-handler", "between-reads", "before-the-message", "never"} {
						for _, chain := range []string{"state", "identity,state"} {
							for _, side := range []streams.Side{streams.Server, streams.Client} {
								a, when, chain, side := a, when, chain, side
								t.Do(func() string {
									return fmt.Sprintf("%s text %x | ping | %x, extensions [%s], shared state set to compressed %s", side, msg[:a], msg[a:], chain, when)
								}, func() *explore.Fail {
									mkf := func(i int, o byte, fin bool, p []byte) []byte {
										return streams.Frame{H: refmodel.Hdr{Fin: fin, Op: o, Masked: side == streams.Server, Mask: streams.Masks[i%3]}, Payload: p}.Wire()
									}
									data := mkf(0, 1, false, msg[:a])
									first := len(data)
									data = append(data, mkf(1, 9, true, nil)...)
									data = append(data, mkf(2, 0, true, msg[a:])...)
									src := env.NewSrc(data)
									// the first fragment arrives on its own: the reader returns before the rest is there
									src.HiccupAt, src.HiccupErr = first, env.TempErr{IsTimeout: true}
									var state wsflate.MessageState
									exts := []wsutil.RecvExtension{&state}
									if chain != "state" {
										exts = []wsutil.RecvExtension{wsutil.RecvExtensionFunc(func(h ws.Header) (ws.Header, error) { return h, nil }), &state}
									}
									rd := &wsutil.Reader{Source: src, State: drivers.State(side) | ws.StateExtended, CheckUTF8: true, Extensions: exts}
									rd.OnIntermediate = func(h ws.Header, r io.Reader) error {
										if when == "in-ping-handler" {
											state.SetCompressed(true)
										}
										return nil
									}
									if when == "before-the-message" {
										state.SetCompressed(true)
									}
									if _, err := rd.NextFrame(); err != nil {
										return explore.Failf("harness-first-frame", "%v", err)
									}
									if state.IsCompressed() {
										return explore.Failf("state-not-synchronised", "the message carries no RSV1 but the state says compressed after its first frame")
									}
									var got []byte
									var err error
									buf := make([]byte, 16)
									for it := 0; it < 200; it++ {
										var n int
										n, err = rd.Read(buf)
										got = append(got, buf[:n]...)
										if err == error(env.TempErr{IsTimeout: true}) {
											if when == "between-reads" {
												state.SetCompressed(true)
											}
											continue
										}
										if err != nil {
											break
										}
									}
									want := utf8.Valid(msg)
									accepted := err == io.EOF
									if accepted && !want {
										return explore.Failf("invalid-text-accepted:"+when, "payload %x delivered as valid", msg)
									}
									if accepted && !bytes.Equal(got, msg) {
										return explore.Failf("payload-differs:"+when, "got %x want %x", got, msg)
									}
									if !accepted && want {
										return explore.Failf("valid-text-rejected:"+when, "payload %x: %v", msg, err)
									}
									if !accepted && err != wsutil.ErrInvalidUTF8 {
										return explore.Failf("other-error:"+when, "payload %x: %v", msg, err)
									}
									t.Outcome(fmt.Sprintf("valid=%v accepted=%v", want, accepted))
									return nil
								})
							}
						}
					}
				}
			})
		})
	})
}

// refClass is the residual language of a reference state, rendered over the boundary bytes
// of every continuation range: two pending sequences with the same class have the same
// futures, so "impl DFA state -> class" being a function closes the induction.
func refClass(s string) string {
	if s == "" {
		return "A"
	}
	if s == "!" {
		return "R"
	}
	out := "P("
	for _, b := range []byte{0x7f, 0x80, 0x8f, 0x90, 0x9f, 0xa0, 0xbf, 0xc0} {
		out += refClass(refStep(s, b)) + ","
	}
	return out + ")"
}
